#!/venv/bin/python
"""Entry point of every registered check.

    check.py <property> [--tier quick|thorough] [--root /repo] [--replay file] [--out dir]

exit 0: all claimed structural clauses hold on the analysed source (known
findings printed); exit 1: ``VIOLATION property=<id> replay=<path>``;
exit 2: ``ANALYSIS-ERROR`` (the analysis could not run; never a silent pass).
"""
import argparse
import importlib
import json
import os
import sys
import traceback

HERE = os.path.dirname(os.path.abspath(__file__))
sys.path.insert(0, HERE)

from vf import model, report  # noqa: E402


def run_property(prop, tier, root, out_dir=None, quiet=False, only_rules=None):
    prog = model.Program(root)
    from vf import runner
    run = report.Run(prop, tier, root)
    run.only_rules = only_rules
    run.aborted = None
    # what the analysed view of the program is: helpers absent from the pinned tree are analysed inlined (vf/inline.py)
    run.notes["transparent_helpers_inlined"] = {k: v for k, v in getattr(prog, "inlined", {}).items()}
    run.notes["guard_clauses_normalized"] = getattr(prog, "guards_normalized", 0)
    try:
        runner.run_checks(prop, prog, run)
    except model.AnalysisError as e:
        # keep what the rules that did run have found: a violation already located is reported (exit 1);
        # without one the run is an analysis error (exit 2)
        run.aborted = str(e)
    return run


def main(argv=None):
    ap = argparse.ArgumentParser()
    ap.add_argument("property")
    ap.add_argument("--tier", default=os.environ.get("VERIF_TIER", "quick"), choices=["quick", "thorough"])
    ap.add_argument("--root", default=os.environ.get("VERIF_ROOT", "/repo"))
    ap.add_argument("--replay")
    ap.add_argument("--out", default=HERE)
    ap.add_argument("--quiet", action="store_true")
    args = ap.parse_args(argv)
    seed = int(os.environ.get("VERIF_SEED", "0") or 0)
    prop = args.property.upper()
    try:
        if args.replay:
            with open(args.replay) as f:
                rep = json.load(f)
            run = run_property(rep["property"], "quick", args.root)
            hit = [f for f in run.findings if f.rule == rep["rule"] and f.key == rep["key"]]
            if hit:
                for f in hit:
                    print("REPRODUCED %s %s [%s] %s" % (f.rule, f.key, f.where, f.what))
                    print(json.dumps(f.detail, indent=1, default=str))
                    print("VIOLATION property=%s replay=%s" % (rep["property"], args.replay))
                return 1
            print("not reproduced on %s: %s %s" % (args.root, rep["rule"], rep["key"]))
            return 0
        run = run_property(prop, args.tier, args.root)
        if args.tier == "thorough":
            from vf import selftest
            problems = selftest.run_for(prop, args.root, run)
            if problems:
                rc = report.finish(run, seed=seed, out_dir=args.out, quiet=args.quiet)
                if rc == 1:
                    # a violation located on this tree is the verdict; the sensitivity suite's complaints (variants written
                    # against the unchanged tree) are shown but do not mask it
                    for p in problems:
                        print("NOTE property=%s sensitivity suite on this tree: %s" % (prop, p))
                    return 1
                for p in problems:
                    print("ANALYSIS-ERROR property=%s sensitivity: %s" % (prop, p))
                return 2
        return report.finish(run, seed=seed, out_dir=args.out, quiet=args.quiet)
    except model.AnalysisError as e:
        print("ANALYSIS-ERROR property=%s %s" % (prop, e))
        return 2
    except Exception:
        traceback.print_exc()
        print("ANALYSIS-ERROR property=%s internal error (traceback above)" % prop)
        return 2


if __name__ == "__main__":
    sys.exit(main())
