# -*- coding: utf-8 -*-
"""
C09: top-level mutation fields run strictly one after another.

`first` returns a list of interface values; the first entry has a slow,
deferred sub-field with a side effect, the second entry cannot be resolved to
an object type. `second` must never be invoked while the sub-selection of
`first` is still running.
"""
import threading
import time

from py_gql import process_graphql_query
from py_gql.execution.runtime import ThreadPoolRuntime
from py_gql.schema import (
    Field,
    Int,
    InterfaceType,
    ListType,
    ObjectType,
    Schema,
)


log = []
lock = threading.Lock()


def record(event):
    with lock:
        log.append(event)


class Item:
    def __init__(self, id_, typename):
        self.id = id_
        self.__typename__ = typename


def resolve_touch(item, *_, **__):
    record("touch:start")
    time.sleep(0.3)
    record("touch:end")
    return item.id


def resolve_first(*_, **__):
    record("first")
    # The second value is tagged with the interface name instead of a
    # concrete object type.
    return [Item(1, "Thing"), Item(2, "Node")]


def resolve_second(*_, **__):
    record("second")
    return 2


def _rt(value, ctx, info):
    from py_gql.exc import ResolverError
    if value.__typename__ == "Node":
        raise ResolverError("cannot tell")
    return value.__typename__

Node = InterfaceType("Node", [Field("id", Int)], resolve_type=_rt)

Thing = ObjectType(
    "Thing",
    [Field("id", Int), Field("touch", Int, resolver=resolve_touch)],
    interfaces=[Node],
)

schema = Schema(
    ObjectType("Query", [Field("noop", Int)]),
    ObjectType(
        "Mutation",
        [
            Field("first", ListType(Node), resolver=resolve_first),
            Field("second", Int, resolver=resolve_second),
        ],
    ),
    types=[Thing],
)

QUERY = """
mutation {
    first { id ... on Thing { touch } }
    second
}
"""


def main():
    runtime = ThreadPoolRuntime(max_workers=4)
    future = process_graphql_query(schema, QUERY, runtime=runtime)

    try:
        result = future.result(timeout=5)
    except Exception as err:
        print("operation aborted: %r" % (err,))
    else:
        print(result.response())

    # Let any straggler finish so the log is complete.
    time.sleep(0.6)

    with lock:
        events = list(log)
    print(events)

    assert events[0] == "first", events

    if "second" in events:
        at = events.index("second")
        if "touch:start" in events:
            assert "touch:end" in events[:at], (
                "`second` was invoked before the sub-selection of `first` "
                "had finished: %r" % (events,)
            )
        assert "touch:start" not in events[at:], events


if __name__ == "__main__":
    main()
