from py_gql import build_schema, graphql_blocking
from py_gql.execution import Instrumentation
schema = build_schema("type Query { a: Int }")
log=[]
class I(Instrumentation):
    def on_execution_start(self): log.append("exec_start")
    def on_execution_end(self): log.append("exec_end")
    def on_query_start(self): log.append("q_start")
    def on_query_end(self): log.append("q_end")
r = graphql_blocking(schema, "query ($v: Boolean = true) { a @skip(if: $v) }", variables={"v": None}, instrumentation=I())
print(r.response()); print(log)
assert log.count("exec_start")==log.count("exec_end"), log
