from py_gql import build_schema, process_graphql_query
from py_gql.exc import ResolverError
from py_gql.execution import Instrumentation
from py_gql.execution.runtime import BlockingRuntime
schema = build_schema("""
interface Pet { name: String }
type Dog implements Pet { name: String }
type Query { pet: Pet }
""")
log=[]
class I(Instrumentation):
    def on_field_start(self, root, ctx, info): log.append(("start", tuple(info.path)))
    def on_field_end(self, root, ctx, info): log.append(("end", tuple(info.path)))
def rt(value, ctx, info):
    raise ResolverError("cannot tell")
schema.get_type("Pet").resolve_type = rt
schema.register_resolver("Query","pet", lambda *a, **k: {"name":"x"})
r = process_graphql_query(schema, "{ pet { name } }", instrumentation=I(), runtime=BlockingRuntime())
print(r.response()); print(log)
assert log.count(("end",("pet",)))==1, log
