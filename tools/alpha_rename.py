#!/venv/bin/python
"""Mechanical behaviour-preserving transformation: rename every function-local variable.

usage: alpha_rename.py <src-root-copy> [--suffix _rn] [--only path-fragment ...]

Rewrites, in place, every .py file under <src-root-copy>/py_gql: in each function, every local
variable (assigned in the function, not a parameter, not declared global/nonlocal, not a
comprehension variable) is renamed to <name><suffix>, consistently in the function and in the
nested functions / lambdas / comprehensions that refer to it as a free variable.  The edit is
done on the source text at the exact token positions (comments, type comments and layout are
kept).  Functions that call locals()/vars()/eval()/exec() are left alone.

This is the systematic companion of the hand-written refactoring twins: any finding or analysis
abort of a check on the renamed tree is a dependence on a variable's *name*.
"""
import ast
import os
import sys


class Scope:
    def __init__(self, node, parent):
        self.node = node
        self.parent = parent
        self.bound = set()        # names bound in this scope
        self.params = set()
        self.declared = set()     # global / nonlocal
        self.children = []
        self.names = []           # Name nodes (and handler / nonlocal pseudo-nodes) directly in this scope


def _params(args):
    out = [a.arg for a in getattr(args, "posonlyargs", []) + args.args + args.kwonlyargs]
    if args.vararg:
        out.append(args.vararg.arg)
    if args.kwarg:
        out.append(args.kwarg.arg)
    return out


def build(node, parent=None):
    sc = Scope(node, parent)
    if isinstance(node, (ast.FunctionDef, ast.AsyncFunctionDef, ast.Lambda)):
        sc.params = set(_params(node.args))
        sc.bound |= sc.params
    body = []
    if isinstance(node, ast.Lambda):
        body = [node.body]
    elif isinstance(node, (ast.ListComp, ast.SetComp, ast.GeneratorExp, ast.DictComp)):
        body = [node]
    else:
        body = list(node.body)

    def visit(n, top=False):
        if isinstance(n, (ast.FunctionDef, ast.AsyncFunctionDef)) and n is not node:
            sc.bound.add(n.name)
            for d in n.decorator_list:
                visit(d)
            for d in n.args.defaults + [x for x in n.args.kw_defaults if x is not None]:
                visit(d)
            sc.children.append(build(n, sc))
            return
        if isinstance(n, ast.Lambda) and n is not node:
            for d in n.args.defaults + [x for x in n.args.kw_defaults if x is not None]:
                visit(d)
            sc.children.append(build(n, sc))
            return
        if isinstance(n, ast.ClassDef):
            sc.bound.add(n.name)
            sc.children.append(build(n, sc))
            return
        if isinstance(n, (ast.ListComp, ast.SetComp, ast.GeneratorExp, ast.DictComp)) and not top:
            # the first iterable is evaluated in the enclosing scope
            visit(n.generators[0].iter)
            sc.children.append(build(n, sc))
            return
        if isinstance(n, (ast.ListComp, ast.SetComp, ast.GeneratorExp, ast.DictComp)) and top:
            for i, g in enumerate(n.generators):
                visit(g.target)
                if i > 0:
                    visit(g.iter)
                for c in g.ifs:
                    visit(c)
            if isinstance(n, ast.DictComp):
                visit(n.key)
                visit(n.value)
            else:
                visit(n.elt)
            return
        if isinstance(n, ast.Name):
            sc.names.append(n)
            if isinstance(n.ctx, (ast.Store, ast.Del)):
                sc.bound.add(n.id)
        elif isinstance(n, (ast.Global, ast.Nonlocal)):
            sc.declared |= set(n.names)
            sc.names.append(n)
        elif isinstance(n, ast.ExceptHandler) and n.name:
            sc.bound.add(n.name)
            sc.names.append(n)
        elif isinstance(n, (ast.Import, ast.ImportFrom)):
            for a in n.names:
                sc.bound.add((a.asname or a.name).split(".")[0])
        for ch in ast.iter_child_nodes(n):
            visit(ch)
    for b in body:
        visit(b, top=isinstance(node, (ast.ListComp, ast.SetComp, ast.GeneratorExp, ast.DictComp)))
    return sc


def free_refs(sc, name):
    """Name-ish nodes in descendant scopes that refer to ``name`` of an enclosing function scope."""
    out = []
    for ch in sc.children:
        if isinstance(ch.node, ast.ClassDef):
            # class bodies see enclosing function locals only when not bound in the class
            if name in ch.bound:
                pass
            else:
                out.extend(n for n in ch.names if getattr(n, "id", None) == name)
            out.extend(free_refs(ch, name))
            continue
        rebinding = name in ch.bound and name not in ch.declared
        if rebinding:
            continue
        for n in ch.names:
            if isinstance(n, ast.Name) and n.id == name:
                out.append(n)
            elif isinstance(n, ast.Nonlocal) and name in n.names:
                out.append(n)
        out.extend(free_refs(ch, name))
    return out


def edits_for(tree, src_lines, suffix):
    edits = []   # (lineno, col, old, new)
    all_names = {n.id for n in ast.walk(tree) if isinstance(n, ast.Name)} | {a.arg for a in ast.walk(tree) if isinstance(a, ast.arg)}
    root = build(tree)

    def walk(sc):
        node = sc.node
        if isinstance(node, (ast.FunctionDef, ast.AsyncFunctionDef)):
            calls = {c.func.id for c in ast.walk(node) if isinstance(c, ast.Call) and isinstance(c.func, ast.Name)}
            if not (calls & {"locals", "vars", "eval", "exec"}):
                local = sorted(n for n in sc.bound if n not in sc.params and n not in sc.declared and not n.startswith("__"))
                # nested function / class names are bound here too but are not variables we rename
                defs = {c.node.name for c in sc.children if isinstance(c.node, (ast.FunctionDef, ast.AsyncFunctionDef, ast.ClassDef))}
                imported = set()
                for n in ast.walk(node):
                    if isinstance(n, (ast.Import, ast.ImportFrom)):
                        imported |= {(a.asname or a.name).split(".")[0] for a in n.names}
                for name in local:
                    if name in defs or name in imported or name == "_":
                        continue
                    new = name + suffix
                    if new in all_names:
                        continue
                    targets = [n for n in sc.names if (isinstance(n, ast.Name) and n.id == name)
                               or (isinstance(n, ast.ExceptHandler) and n.name == name)] + free_refs(sc, name)
                    for n in targets:
                        if isinstance(n, ast.Name):
                            edits.append((n.lineno, n.col_offset, name, new))
                        elif isinstance(n, ast.ExceptHandler):
                            # `except X as name:` — find the name token on the handler's first line(s)
                            for ln in range(n.lineno, (n.body[0].lineno if n.body else n.lineno) + 1):
                                line = src_lines[ln - 1]
                                k = line.find(" as %s" % name)
                                if k >= 0:
                                    edits.append((ln, len(line[:k + 4].encode("utf-8")), name, new))
                                    break
                        elif isinstance(n, ast.Nonlocal):
                            line = src_lines[n.lineno - 1]
                            import re
                            m = re.search(r"\b%s\b" % re.escape(name), line[n.col_offset:])
                            if m:
                                edits.append((n.lineno, len(line[:n.col_offset + m.start()].encode("utf-8")), name, new))
        for ch in sc.children:
            walk(ch)
    walk(root)
    return edits


def apply(path, suffix):
    src = open(path, encoding="utf-8").read()
    tree = ast.parse(src)
    lines = src.split("\n")
    edits = sorted(set(edits_for(tree, lines, suffix)), reverse=True)
    n = 0
    for ln, col, old, new in edits:
        raw = lines[ln - 1].encode("utf-8")
        if raw[col:col + len(old.encode("utf-8"))] != old.encode("utf-8"):
            continue
        lines[ln - 1] = (raw[:col] + new.encode("utf-8") + raw[col + len(old.encode("utf-8")):]).decode("utf-8")
        n += 1
    out = "\n".join(lines)
    ast.parse(out)
    open(path, "w", encoding="utf-8").write(out)
    return n


def main():
    root = sys.argv[1]
    suffix = "_rn"
    only = []
    args = sys.argv[2:]
    while args:
        a = args.pop(0)
        if a == "--suffix":
            suffix = args.pop(0)
        elif a == "--only":
            only = args
            break
    total = 0
    for dp, _d, files in os.walk(os.path.join(root, "py_gql")):
        for fn in sorted(files):
            p = os.path.join(dp, fn)
            if fn.endswith(".py") and (not only or any(o in p for o in only)):
                total += apply(p, suffix)
    print("renamed %d occurrences" % total)


if __name__ == "__main__":
    main()
