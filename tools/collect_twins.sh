#!/bin/bash
# collect_twins.sh <suffix>: for every /tmp/wt_Cxx<suffix> with a src diff: confirm the suite is green in the worktree and keep the diff as /verif/twins/<id>/patch.diff
suf=$1
for wt in /tmp/wt_C??$suf; do
  id=$(basename $wt | sed 's/wt_//')
  [ -f /verif/twins/$id/patch.diff ] && continue
  git -C $wt diff -- src > /tmp/$id.twin.diff
  [ -s /tmp/$id.twin.diff ] || { echo "$id: no diff"; continue; }
  ( cd $wt && res=$(PYTHONPATH=$wt/src /venv/bin/python -m pytest -q -p no:cacheprovider -W ignore --no-header --color=no 2>&1 | tail -1)
    if echo "$res" | grep -q "passed" && ! echo "$res" | grep -q "failed\|error"; then
      mkdir -p /verif/twins/$id && cp /tmp/$id.twin.diff /verif/twins/$id/patch.diff && echo "$id kept ($res)"
    else echo "$id REJECTED ($res)"; fi ) &
  while [ $(jobs -r | wc -l) -ge 6 ]; do sleep 1; done
done
wait
