#!/venv/bin/python
"""Regenerate /verif/MANIFEST.json from the per-property table in vf/claims.py."""
import json
import os
import sys

HERE = os.path.dirname(os.path.dirname(os.path.abspath(__file__)))
sys.path.insert(0, HERE)
from vf import claims  # noqa: E402

PY = "/venv/bin/python"


def main():
    props = [json.loads(l)["id"] for l in open(os.path.join(HERE, "properties.jsonl"))]
    checks, na = [], []
    for pid in props:
        c = claims.CLAIMS.get(pid)
        if c is None or c.get("not_applicable"):
            na.append({"property_id": pid, "reason": (c or {}).get("not_applicable", "no static rule built yet for this property")})
            continue
        text = c["text"]
        ev = os.path.join(HERE, "evidence", "%s.json" % pid)
        if os.path.exists(ev):
            try:
                per = json.load(open(ev))["coverage"].get("per_rule", {})
                if per:
                    text += " Rules decided on every run (full text of each in RULES.md and in the evidence file): %s." % ", ".join(sorted(per))
            except Exception:
                pass
        checks.append({
            "property_id": pid,
            "quick_cmd": "%s check.py %s --tier quick" % (PY, pid),
            "thorough_cmd": "%s check.py %s --tier thorough" % (PY, pid),
            "evidence_file": "/verif/evidence/%s.json" % pid,
            "replay_cmd_template": "%s check.py %s --replay {path}" % (PY, pid),
            "engine": "vf",
            "level_claimed": {"category": "other", "text": text, "design_ref": "DESIGN.md §3 %s" % pid},
            "level_note": c["note"],
            "technique": c["technique"],
        })
    man = {
        "version": 1,
        "setup_cmd": "%s tools/setup_check.py" % PY,
        "hooks": {
            "guard": "PY_GQL_VERIF",
            "enable": "none needed: the checks parse /repo/src with ast and never import or run py_gql; no hook commits exist",
            "baseline_off_cmd": "cd /repo && /venv/bin/python -m pytest -ra -q -p no:cacheprovider --timeout=900 --continue-on-collection-errors",
            "source_commits": [],
            "add_only": True,
        },
        "engines": [{
            "name": "vf", "path": "/verif/vf", "serves_properties": [c["property_id"] for c in checks],
            "kind_free_text": "repository-specific static analysis on Python ast: program model with import/MRO/call resolution, "
                              "statement CFG with typestate, recogniser extraction to regular expressions with DFA equivalence, "
                              "table and node-shape agreement, exception/effect summaries, sibling cross-checks",
        }],
        "checks": checks,
        "not_applicable": na,
        "notes": claims.NOTES,
    }
    with open(os.path.join(HERE, "MANIFEST.json"), "w") as f:
        json.dump(man, f, indent=1)
        f.write("\n")
    print("wrote MANIFEST.json: %d checks, %d not applicable" % (len(checks), len(na)))


if __name__ == "__main__":
    main()
