#!/bin/bash
# keep_seed.sh <id> <patch.diff> <demo.py> : verify a seeded change in a fresh scratch worktree of /repo HEAD
# (suite passes with it, demo fails with it and passes without) and store it under /verif/seeded/<id>. No git stash (shared between worktrees).
id=$1; patch=$(readlink -f $2); demo=$(readlink -f $3)
wt=/tmp/ks_$id
git -C /repo worktree remove --force $wt 2>/dev/null
git -C /repo worktree add -q $wt HEAD || exit 1
cd $wt
PYTHONPATH=$wt/src timeout 300 /venv/bin/python $demo > /tmp/seed_${id}_without.log 2>&1; without=$?
git apply $patch || { echo "patch does not apply to /repo HEAD"; git -C /repo worktree remove --force $wt; exit 1; }
suite=$(PYTHONPATH=$wt/src /venv/bin/python -m pytest -q -p no:cacheprovider -W ignore --no-header --color=no 2>&1 | tail -1)
PYTHONPATH=$wt/src timeout 300 /venv/bin/python $demo > /tmp/seed_${id}_with.log 2>&1; with=$?
echo "suite with change: $suite | demo with change: exit $with | without: exit $without"
ok=0
if [ $with -ne 0 ] && [ $without -eq 0 ] && echo "$suite" | grep -q "passed" && ! echo "$suite" | grep -q "failed\|error"; then
  mkdir -p /verif/seeded/$id
  cp $patch /verif/seeded/$id/patch.diff 2>/dev/null
  cp $demo /verif/seeded/$id/demo.py 2>/dev/null
  echo "KEPT /verif/seeded/$id"; ok=1
else
  echo "REJECTED"
fi
# run every check against the mutated tree
if [ $ok -eq 1 ]; then
  for p in $(/venv/bin/python -c "import json;print(' '.join(c['property_id'] for c in json.load(open('/verif/MANIFEST.json'))['checks']))"); do
    out=$(cd /verif && /venv/bin/python check.py $p --root $wt --out /tmp/ks_out_$id 2>&1)
    n=$(echo "$out" | grep -c "^VIOLATION"); e=$(echo "$out" | grep -c "^ANALYSIS-ERROR")
    [ $n -gt 0 ] && echo "  DETECTED by $p: $(echo "$out" | grep '^FINDING' | head -2 | cut -c1-220)"
    [ $e -gt 0 ] && echo "  ANALYSIS-ERROR in $p: $(echo "$out" | grep '^ANALYSIS-ERROR' | head -1 | cut -c1-200)"
  done
fi
cd /; git -C /repo worktree remove --force $wt; rm -rf /tmp/ks_out_$id
