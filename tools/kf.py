#!/venv/bin/python
"""Maintenance tool (never run by checks): add currently reported findings of a
property to known_findings.json.

    tools/kf.py add C03 <substring of rule|key> "<evidence: failing input / why not fixed>"
    tools/kf.py fixed C03 <commit> "<what failed>"
    tools/kf.py list [C03]
"""
import json, os, sys
HERE = os.path.dirname(os.path.dirname(os.path.abspath(__file__)))
sys.path.insert(0, HERE)
import check
from vf import report

def main():
    cmd = sys.argv[1]
    kf = report.load_known()
    if cmd == "add":
        prop, sub, evidence = sys.argv[2], sys.argv[3], sys.argv[4]
        run = check.run_property(prop, "quick", "/repo")
        hits = [f for f in run.findings if sub in f.ident]
        if not hits:
            print("no finding matches", sub); return 1
        have = {(k["property"], k["rule"], k["key"]) for k in kf["findings"]}
        for f in hits:
            if (prop, f.rule, f.key) in have:
                print("already known:", f.ident); continue
            kf["findings"].append({"property": prop, "rule": f.rule, "key": f.key, "what": f.what, "evidence": evidence})
            print("added", f.ident)
    elif cmd == "fixed":
        prop, commit, what = sys.argv[2], sys.argv[3], sys.argv[4]
        kf["fixed"].append("fixed: property=%s %s %s" % (prop, commit, what))
    elif cmd == "list":
        for k in kf["findings"]:
            if len(sys.argv) < 3 or k["property"] == sys.argv[2]:
                print(k["property"], k["rule"], k["key"])
        return 0
    with open(report.KNOWN_FILE, "w") as f:
        json.dump(kf, f, indent=1); f.write("\n")
    return 0

if __name__ == "__main__":
    sys.exit(main())
