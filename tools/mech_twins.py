#!/venv/bin/python
"""Mechanical behaviour-preserving transformations of the whole package (systematic benign twins).

usage: mech_twins.py <kind> <src-root-copy>      kind in: alpha | swap | ifexp | elif | comp | hoist | all | guard | unguard | splitand | all2

  alpha  rename every function-local variable (tools/alpha_rename.py)
  swap   `if T: A else: B`  ->  `if not (T): B else: A`   for every if/else whose else is not an elif chain
  elif   `elif T:` -> `else:` + nested `if T:`
  comp   list comprehension assigned / returned -> explicit loop with append
  hoist  first nested call argument of an assigned / returned call -> named step
  guard  guard clause followed by REST -> if/else;  unguard: the reverse;  splitand: `if A and B: X` -> nested ifs
         (all2 = all + splitand + guard)
  ifexp  `x = a if c else b`  ->  `if c: x = a else: x = b`   (simple targets, statements without type comments)

The edits are made on the source text (layout, comments and type comments survive).  A check that reports a
finding or aborts on a transformed tree depends on the spelling, not on the behaviour.
"""
import ast
import os
import sys

sys.path.insert(0, os.path.dirname(os.path.abspath(__file__)))
import alpha_rename  # noqa: E402

MARK = "  # mech:swapped"


def _files(root):
    for dp, _d, files in os.walk(os.path.join(root, "py_gql")):
        for fn in sorted(files):
            if fn.endswith(".py"):
                yield os.path.join(dp, fn)


def _seg(lines, node):
    """source text of an expression node (may span lines)."""
    if node.lineno == node.end_lineno:
        return lines[node.lineno - 1].encode("utf-8")[node.col_offset:node.end_col_offset].decode("utf-8")
    first = lines[node.lineno - 1].encode("utf-8")[node.col_offset:].decode("utf-8")
    last = lines[node.end_lineno - 1].encode("utf-8")[:node.end_col_offset].decode("utf-8")
    return "\n".join([first] + lines[node.lineno:node.end_lineno - 1] + [last])


def swap_file(path):
    n_done = 0
    for _pass in range(12):
        src = open(path, encoding="utf-8").read()
        lines = src.split("\n")
        tree = ast.parse(src)
        cands = []
        for node in ast.walk(tree):
            if not isinstance(node, ast.If) or not node.orelse:
                continue
            if len(node.orelse) == 1 and isinstance(node.orelse[0], ast.If) and node.orelse[0].col_offset == node.col_offset:
                continue   # elif chain
            header = lines[node.lineno - 1]
            if MARK in lines[node.test.end_lineno - 1] or not header.lstrip().startswith("if "):
                continue   # already swapped / this is an `elif` arm
            # else: line = the line before orelse[0] that is exactly `else:` at the if's indentation
            else_ln = None
            for ln in range(node.body[-1].end_lineno + 1, node.orelse[0].lineno):
                if lines[ln - 1].strip().startswith("else:") and len(lines[ln - 1]) - len(lines[ln - 1].lstrip()) == node.col_offset:
                    else_ln = ln
            if else_ln is None or lines[else_ln - 1].strip() != "else:":
                continue
            # header must end right after the test with a colon on the test's last line
            tail = lines[node.test.end_lineno - 1].encode("utf-8")[node.test.end_col_offset:].decode("utf-8")
            if not tail.strip().startswith(":") or (tail.strip() != ":" and not tail.strip()[1:].strip().startswith("#")):
                continue
            cands.append((node, else_ln))
        # innermost first: drop candidates that contain another candidate
        spans = [(n.lineno, n.end_lineno) for n, _ in cands]
        todo = [(n, e) for (n, e) in cands if not any(o != (n.lineno, n.end_lineno) and n.lineno <= o[0] and o[1] <= n.end_lineno for o in spans)]
        if not todo:
            break
        for node, else_ln in sorted(todo, key=lambda t: -t[0].lineno):
            indent = " " * node.col_offset
            test_txt = _seg(lines, node.test)
            body_start = node.test.end_lineno + 1
            body_block = lines[body_start - 1:else_ln - 1]
            else_block = lines[else_ln:node.end_lineno]
            new_header = ["%sif not (%s):%s" % (indent, l, MARK) if i == 0 else l for i, l in enumerate([test_txt])]
            if "\n" in test_txt:
                parts = test_txt.split("\n")
                new_header = ["%sif not (%s" % (indent, parts[0])] + parts[1:-1] + ["%s):%s" % (parts[-1], MARK)]
            lines[node.lineno - 1:node.end_lineno] = new_header + else_block + ["%selse:" % indent] + body_block
            n_done += 1
        out = "\n".join(lines)
        ast.parse(out)
        open(path, "w", encoding="utf-8").write(out)
    # remove the marks
    src = open(path, encoding="utf-8").read().replace(MARK, "")
    ast.parse(src)
    open(path, "w", encoding="utf-8").write(src)
    return n_done


def ifexp_file(path):
    src = open(path, encoding="utf-8").read()
    lines = src.split("\n")
    tree = ast.parse(src)
    cands = []
    for node in ast.walk(tree):
        if isinstance(node, ast.Assign) and len(node.targets) == 1 and isinstance(node.value, ast.IfExp) \
                and isinstance(node.targets[0], (ast.Name, ast.Attribute)):
            seg = "\n".join(lines[node.lineno - 1:node.end_lineno])
            if "# type:" in seg or "#" in seg:
                continue
            # the statement must own its lines entirely
            if lines[node.lineno - 1][:node.col_offset].strip() or lines[node.end_lineno - 1].encode("utf-8")[node.end_col_offset:].decode("utf-8").strip():
                continue
            # not inside a lambda/comprehension (Assign never is) and not in a class body (keep it simple)
            cands.append(node)
    n_done = 0
    for node in sorted(cands, key=lambda n: -n.lineno):
        indent = " " * node.col_offset
        tgt = _seg(lines, node.targets[0])
        c, a, b = (_seg(lines, x) for x in (node.value.test, node.value.body, node.value.orelse))

        def paren(t):
            return "(%s)" % t if "\n" in t else t
        new = ["%sif %s:" % (indent, paren(c)), "%s    %s = %s" % (indent, tgt, paren(a)), "%selse:" % indent, "%s    %s = %s" % (indent, tgt, paren(b))]
        lines[node.lineno - 1:node.end_lineno] = "\n".join(new).split("\n")
        n_done += 1
    out = "\n".join(lines)
    ast.parse(out)
    open(path, "w", encoding="utf-8").write(out)
    return n_done


def elif_file(path):
    """`elif T:` -> `else:` + nested `if T:` (the whole remaining chain indented by one level)."""
    n_done = 0
    while True:
        src = open(path, encoding="utf-8").read()
        lines = src.split("\n")
        tree = ast.parse(src)
        cands = [n for n in ast.walk(tree) if isinstance(n, ast.If) and len(n.orelse) == 1 and isinstance(n.orelse[0], ast.If)
                 and n.orelse[0].col_offset == n.col_offset and lines[n.orelse[0].lineno - 1].lstrip().startswith("elif ")
                 and not lines[n.orelse[0].lineno - 1].lstrip().startswith("elif  ")]
        if not cands:
            break
        node = max(cands, key=lambda n: n.orelse[0].lineno)
        inner = node.orelse[0]
        # a multi-line string inside the moved block must not be re-indented: skip such chains by marking them done
        seg = lines[inner.lineno - 1:node.end_lineno]
        if any(isinstance(x, ast.Constant) and isinstance(x.value, str) and x.lineno != x.end_lineno for x in ast.walk(inner)):
            lines[inner.lineno - 1] = lines[inner.lineno - 1].replace("elif ", "elif  ", 1)   # not matched again (two spaces)
            open(path, "w", encoding="utf-8").write("\n".join(lines))
            continue
        indent = " " * node.col_offset
        first = seg[0]
        seg[0] = first.replace("elif ", "if ", 1)
        moved = [("    " + l) if l.strip() else l for l in seg]
        lines[inner.lineno - 1:node.end_lineno] = ["%selse:" % indent] + moved
        out = "\n".join(lines)
        ast.parse(out)
        open(path, "w", encoding="utf-8").write(out)
        n_done += 1
    src = open(path, encoding="utf-8").read().replace("elif  ", "elif ")
    open(path, "w", encoding="utf-8").write(src)
    return n_done


def _func_of(tree):
    """map id(stmt) -> enclosing function node (None at module/class level)"""
    out = {}

    def rec(node, fn):
        for ch in ast.iter_child_nodes(node):
            if isinstance(ch, ast.stmt):
                out[id(ch)] = fn
            rec(ch, ch if isinstance(ch, (ast.FunctionDef, ast.AsyncFunctionDef)) else (None if isinstance(ch, (ast.ClassDef, ast.Lambda)) else fn))
    rec(tree, None)
    return out


def _names_in(fn):
    return {n.id for n in ast.walk(fn) if isinstance(n, ast.Name)} | {a.arg for a in ast.walk(fn) if isinstance(a, ast.arg)}


def _own_lines(lines, node):
    """the statement owns its lines entirely and carries no comment"""
    seg = "\n".join(lines[node.lineno - 1:node.end_lineno])
    if "#" in seg:
        return False
    if lines[node.lineno - 1][:node.col_offset].strip():
        return False
    return not lines[node.end_lineno - 1].encode("utf-8")[node.end_col_offset:].decode("utf-8").strip()


def comp_file(path):
    """`x = [E for v in IT if C]` / `return [E for ...]`  ->  explicit loop with append (one generator, inside a function,
    the comprehension variable not otherwise used in the function)."""
    n_done = 0
    for _pass in range(40):
        src = open(path, encoding="utf-8").read()
        lines = src.split("\n")
        tree = ast.parse(src)
        fof = _func_of(tree)
        cand = None
        for node in ast.walk(tree):
            if not isinstance(node, (ast.Assign, ast.Return)) or fof.get(id(node)) is None:
                continue
            v = node.value
            if not isinstance(v, ast.ListComp) or len(v.generators) != 1 or v.generators[0].is_async:
                continue
            if isinstance(node, ast.Assign) and not (len(node.targets) == 1 and isinstance(node.targets[0], ast.Name)):
                continue
            if not _own_lines(lines, node):
                continue
            fn = fof[id(node)]
            g = v.generators[0]
            tnames = {x.id for x in ast.walk(g.target) if isinstance(x, ast.Name)}
            others = [x for x in ast.walk(fn) if isinstance(x, ast.Name) and x.id in tnames and not (v.lineno <= x.lineno <= v.end_lineno)]
            params = {a.arg for a in ast.walk(fn) if isinstance(a, ast.arg)}
            if others or (tnames & params) or any(isinstance(x, (ast.Lambda, ast.ListComp, ast.GeneratorExp, ast.DictComp, ast.SetComp, ast.Yield, ast.Await, ast.NamedExpr))
                                                   for x in ast.walk(v) if x is not v):
                continue
            if isinstance(node, ast.Assign) and any(isinstance(x, ast.Name) and x.id == node.targets[0].id for x in ast.walk(v)):
                continue
            if any(isinstance(x, ast.Constant) and isinstance(x.value, str) and x.lineno != x.end_lineno for x in ast.walk(v)):
                continue
            if cand is None or node.lineno > cand[0].lineno:
                cand = (node, fn)
        if cand is None:
            break
        node, fn = cand
        v, g = node.value, node.value.generators[0]
        indent = " " * node.col_offset
        used = _names_in(fn)
        acc = node.targets[0].id if isinstance(node, ast.Assign) else "_acc"
        while not isinstance(node, ast.Assign) and acc in used:
            acc += "_"

        def flat(t):
            return "(%s)" % t if "\n" in t else t
        new = ["%s%s = []" % (indent, acc), "%sfor %s in %s:" % (indent, _seg(lines, g.target), flat(_seg(lines, g.iter)))]
        depth = 1
        for c in g.ifs:
            new.append("%s%sif %s:" % (indent, "    " * depth, flat(_seg(lines, c))))
            depth += 1
        new.append("%s%s%s.append(%s)" % (indent, "    " * depth, acc, flat(_seg(lines, v.elt))))
        if isinstance(node, ast.Return):
            new.append("%sreturn %s" % (indent, acc))
        lines[node.lineno - 1:node.end_lineno] = "\n".join(new).split("\n")
        out = "\n".join(lines)
        ast.parse(out)
        open(path, "w", encoding="utf-8").write(out)
        n_done += 1
    return n_done


def hoist_file(path):
    """`return f(a, g(b))` / `x = f(a, g(b))`  ->  `_h = g(b)` first, when every argument before the hoisted one is a
    plain name / constant / attribute chain and the callee expression is a plain name or attribute chain of names
    (only the lookup order of side-effect-free names changes)."""
    n_done = 0
    for _pass in range(60):
        src = open(path, encoding="utf-8").read()
        lines = src.split("\n")
        tree = ast.parse(src)
        fof = _func_of(tree)
        cand = None

        def plain(e):
            while isinstance(e, ast.Attribute):
                e = e.value
            return isinstance(e, (ast.Name, ast.Constant))
        for node in ast.walk(tree):
            if not isinstance(node, (ast.Assign, ast.Return)) or fof.get(id(node)) is None or not isinstance(node.value, ast.Call):
                continue
            call = node.value
            if not _own_lines(lines, node) or not plain(call.func) or call.keywords and any(k.arg is None for k in call.keywords):
                continue
            if isinstance(node, ast.Assign) and not (len(node.targets) == 1 and isinstance(node.targets[0], ast.Name)):
                continue
            pick = None
            for a in call.args:
                if isinstance(a, ast.Call) and not any(isinstance(x, (ast.Lambda, ast.Yield, ast.Await, ast.Starred, ast.NamedExpr)) for x in ast.walk(a)):
                    pick = a
                    break
                if not plain(a):
                    break
            if pick is None or any(isinstance(x, ast.Constant) and isinstance(x.value, str) and x.lineno != x.end_lineno for x in ast.walk(node)):
                continue
            # inside a try body the hoisted statement stays inside the same try (same statement list) - fine
            if "_h%d" % (pick.lineno * 1000 + pick.col_offset) in src:
                continue
            if cand is None or node.lineno > cand[0].lineno:
                cand = (node, pick)
        if cand is None:
            break
        node, pick = cand
        indent = " " * node.col_offset
        name = "_h%d" % (pick.lineno * 1000 + pick.col_offset)
        seg_lines = lines[node.lineno - 1:node.end_lineno]
        text = _seg(lines, pick)
        # replace the argument text inside the statement (positions relative to the statement's first line)
        stmt_txt = "\n".join(seg_lines)
        # compute absolute char offsets
        def off(ln, col):
            o = 0
            for i in range(node.lineno, ln):
                o += len(lines[i - 1]) + 1
            return o + len(lines[ln - 1].encode("utf-8")[:col].decode("utf-8"))
        a, b = off(pick.lineno, pick.col_offset), off(pick.end_lineno, pick.end_col_offset)
        new_stmt = stmt_txt[:a] + name + stmt_txt[b:]
        hoisted = "%s%s = %s" % (indent, name, "(%s)" % text if "\n" in text else text)
        lines[node.lineno - 1:node.end_lineno] = hoisted.split("\n") + new_stmt.split("\n")
        out = "\n".join(lines)
        ast.parse(out)
        open(path, "w", encoding="utf-8").write(out)
        n_done += 1
    return n_done


def _has_multiline_str(nodes):
    return any(isinstance(x, ast.Constant) and isinstance(x.value, str) and x.lineno != x.end_lineno for n in nodes for x in ast.walk(n))


def _blocks(tree):
    for node in ast.walk(tree):
        for field in ("body", "orelse", "finalbody"):
            blk = getattr(node, field, None)
            if isinstance(blk, list) and blk and isinstance(blk[0], ast.stmt):
                yield node, blk
        if isinstance(node, ast.Try):
            for h in node.handlers:
                yield h, h.body


def _ends_in_jump(body):
    return isinstance(body[-1], (ast.Return, ast.Raise, ast.Continue, ast.Break))


def guard_file(path):
    """`if T: ...; return X` followed by REST  ->  `if T: ...; return X` / `else:` REST   (guard clause -> if/else)."""
    n_done = 0
    for _pass in range(200):
        src = open(path, encoding="utf-8").read()
        lines = src.split("\n")
        tree = ast.parse(src)
        cand = None
        for _owner, blk in _blocks(tree):
            for i, st in enumerate(blk[:-1]):
                if isinstance(st, ast.If) and not st.orelse and _ends_in_jump(st.body) and lines[st.lineno - 1].lstrip().startswith("if "):
                    rest = blk[i + 1:]
                    if _has_multiline_str(rest):
                        continue
                    # comment lines between are moved along; the rest must start on its own line after the if
                    if cand is None or st.lineno > cand[0].lineno:
                        cand = (st, rest)
        if cand is None:
            break
        st, rest = cand
        indent = " " * st.col_offset
        a, b = st.end_lineno, rest[-1].end_lineno          # lines a+1 .. b are the rest (with blank/comment lines)
        moved = [("    " + l) if l.strip() else l for l in lines[a:b]]
        lines[a:b] = ["%selse:  # mech:guard" % indent] + moved
        out = "\n".join(lines)
        ast.parse(out)
        open(path, "w", encoding="utf-8").write(out)
        n_done += 1
    src = open(path, encoding="utf-8").read().replace("else:  # mech:guard", "else:")
    open(path, "w", encoding="utf-8").write(src)
    return n_done


def unguard_file(path):
    """`if T: ...; return X` / `else:` REST  ->  guard clause followed by REST dedented (the reverse of `guard`)."""
    n_done = 0
    for _pass in range(200):
        src = open(path, encoding="utf-8").read()
        lines = src.split("\n")
        tree = ast.parse(src)
        cand = None
        for node in ast.walk(tree):
            if not (isinstance(node, ast.If) and node.orelse and _ends_in_jump(node.body)):
                continue
            if not lines[node.lineno - 1].lstrip().startswith("if "):
                continue      # an elif arm: removing its else would change the chain's layout, leave it
            if len(node.orelse) == 1 and isinstance(node.orelse[0], ast.If) and node.orelse[0].col_offset == node.col_offset:
                continue      # elif chain
            else_ln = None
            for ln in range(node.body[-1].end_lineno + 1, node.orelse[0].lineno):
                if lines[ln - 1].strip() == "else:" and len(lines[ln - 1]) - len(lines[ln - 1].lstrip()) == node.col_offset:
                    else_ln = ln
            if else_ln is None or _has_multiline_str(node.orelse):
                continue
            if cand is None or node.lineno > cand[0].lineno:
                cand = (node, else_ln)
        if cand is None:
            break
        node, else_ln = cand
        block = lines[else_ln:node.end_lineno]
        ded = [l[4:] if l.startswith(" " * (node.col_offset + 4)) else l.lstrip() if not l.strip() else l for l in block]
        if any(l.strip() and not b.startswith(" " * (node.col_offset + 4)) for l, b in zip(ded, block)):
            break
        lines[else_ln - 1:node.end_lineno] = ded
        out = "\n".join(lines)
        ast.parse(out)
        open(path, "w", encoding="utf-8").write(out)
        n_done += 1
    return n_done


def splitand_file(path):
    """`if A and B: X` (no else)  ->  `if A:` / `if B: X`   (single-line tests, two operands or more: first operand split off)."""
    n_done = 0
    for _pass in range(200):
        src = open(path, encoding="utf-8").read()
        lines = src.split("\n")
        tree = ast.parse(src)
        cand = None
        for node in ast.walk(tree):
            if not (isinstance(node, ast.If) and not node.orelse and isinstance(node.test, ast.BoolOp) and isinstance(node.test.op, ast.And)):
                continue
            hdr = lines[node.lineno - 1]
            if not hdr.lstrip().startswith("if ") or node.test.lineno != node.test.end_lineno or "#" in hdr or "mech:split" in hdr:
                continue
            tail = hdr.encode("utf-8")[node.test.end_col_offset:].decode("utf-8").strip()
            if tail != ":" or _has_multiline_str(node.body) or node.body[0].lineno == node.lineno:
                continue
            if hdr.strip() != "if %s:" % _seg(lines, node.test):
                continue      # parenthesised test
            hb = hdr.encode("utf-8")
            if hb[node.test.col_offset:node.test.values[0].col_offset].strip() or \
                    not hb[node.test.values[0].end_col_offset:node.test.end_col_offset].decode("utf-8").lstrip().startswith("and "):
                continue      # parenthesised first operand
            if cand is None or node.lineno > cand.lineno:
                cand = node
        if cand is None:
            break
        node = cand
        indent = " " * node.col_offset
        first = node.test.values[0]
        a = _seg(lines, first)
        rest = lines[node.lineno - 1].encode("utf-8")[first.end_col_offset:node.test.end_col_offset].decode("utf-8").lstrip()[4:].lstrip()
        body = [("    " + l) if l.strip() else l for l in lines[node.lineno:node.end_lineno]]
        lines[node.lineno - 1:node.end_lineno] = ["%sif %s:  # mech:split" % (indent, a), "%s    if %s:  # mech:split" % (indent, rest)] + body
        out = "\n".join(lines)
        ast.parse(out)
        open(path, "w", encoding="utf-8").write(out)
        n_done += 1
    src = open(path, encoding="utf-8").read().replace("  # mech:split", "")
    open(path, "w", encoding="utf-8").write(src)
    return n_done


def transform(kind, root):
    total = 0
    for p in _files(root):
        if kind in ("alpha", "all", "all2"):
            total += alpha_rename.apply(p, "_rn")
        if kind in ("ifexp", "all", "all2"):
            total += ifexp_file(p)
        if kind in ("comp", "all", "all2"):
            total += comp_file(p)
        if kind in ("hoist", "all", "all2"):
            total += hoist_file(p)
        if kind in ("elif", "all", "all2"):
            total += elif_file(p)
        if kind in ("swap", "all", "all2"):
            total += swap_file(p)
        if kind in ("splitand", "all2"):
            total += splitand_file(p)
        if kind in ("unguard",):
            total += unguard_file(p)
        if kind in ("guard", "all2"):
            total += guard_file(p)
    return total


if __name__ == "__main__":
    print("%s: %d edits" % (sys.argv[1], transform(sys.argv[1], sys.argv[2])))
