#!/venv/bin/python
"""mk_round.py seed|twin <suffix> : prepare a round of independent sub-agent work.
For each property writes /tmp/prompts/<Cxx><suffix>.txt (the property's text, the ideas of earlier rounds to avoid, the
procedure) and creates a scratch worktree /tmp/wt_<Cxx><suffix> of /repo HEAD.  Nothing of /verif other than the given
property text goes into a prompt."""
import json, os, subprocess, sys
HERE = os.path.dirname(os.path.dirname(os.path.abspath(__file__)))

SEED = """You are helping to evaluate a verification effort for the Python library py-gql (a pure-Python GraphQL implementation).
Work ONLY inside your own scratch git worktree: {wt}  (sources under {wt}/src/py_gql, tests under {wt}/tests).
Do not read or write anything under /verif or /repo. Do not look at other /tmp/wt_* directories.
Run Python as:  cd {wt} && PYTHONPATH={wt}/src /venv/bin/python ...
Run the test suite as:  cd {wt} && PYTHONPATH={wt}/src /venv/bin/python -m pytest -q -p no:cacheprovider -W ignore --no-header -x -q 2>&1 | tail -3   (about 10 s, 1895 tests must pass)

THE PROPERTY ({pid} - {title})
{statement}
Quantified over: {quant}
Code it is anchored in: {files}

YOUR TASK
Make ONE small, realistic change to the library source (under src/py_gql only, never tests) that BREAKS this property,
while the code still imports and the whole existing test suite still passes unedited. The change should look like
something a maintainer could plausibly commit (a refactoring that goes slightly wrong, an optimisation, a fast path, a
"simplification", a cache, a reordered step, a helper that loses a case) - not sabotage, no dead code, no comments that
give it away. It must need something specific to manifest: an unusual input, a particular multi-step sequence, a specific
schedule/runtime, a crash point, or two cooperating sites that each look fine alone - NOT something ordinary use exposes
at once.

Ideas ALREADY USED in earlier rounds for this property - you must NOT reuse any of them or a close variant, and should
preferably work in a function or on a mechanism none of them touches:
{used}

Procedure:
1. Read the anchored code. List (in your head or a scratch note in {wt}/notes.txt) at least twelve candidate sites/mechanisms
   where the property could be broken that are different from the used ideas; pick number ((7 * {n}) mod 12) + 1 of your
   list if it is workable, otherwise the next workable one.
2. Make the change. Keep the diff small (typically 3-25 changed lines, one or two functions).
3. Write {wt}/demo.py : a standalone script (uses only py_gql and the standard library) that exits 0 on the ORIGINAL code
   and exits non-zero (assertion failure) WITH your change, demonstrating the property violation through the public API.
   Check it both ways with `git diff -- src > /tmp/{sid}.diff; git checkout -- src; <run demo>; git apply /tmp/{sid}.diff` (never use `git stash`: it is shared between worktrees).
4. Run the full test suite with your change: all 1895 must pass. If some fail, choose a different change.
5. Leave the change applied (uncommitted) in the worktree, with demo.py next to it.

Final answer (short): one sentence describing the change (file, function, what it does), one sentence on what it needs to
manifest, and confirmation of: suite result with the change, demo exit code with and without the change.
"""

TWIN = """You are helping to evaluate static-analysis tooling for the Python library py-gql (a pure-Python GraphQL implementation).
Work ONLY inside your own scratch git worktree: {wt}  (sources under {wt}/src/py_gql, tests under {wt}/tests).
Do not read or write anything under /verif or /repo. Do not look at other /tmp/wt_* directories.
Run the test suite as:  cd {wt} && PYTHONPATH={wt}/src /venv/bin/python -m pytest -q -p no:cacheprovider -W ignore --no-header -x -q 2>&1 | tail -3   (about 10 s, 1895 tests must pass)

Context - the property the code you touch is responsible for ({pid} - {title}):
{statement}
Code it is anchored in: {files}

YOUR TASK: BEHAVIOUR-PRESERVING REFACTORINGS. Make 4 to 6 refactorings of functions/methods in the anchored files that
change the SHAPE of the code but provably not its behaviour for ANY input (same results, same exceptions, same order of
side effects, same identity/aliasing of returned objects). List at least 15 candidate functions first (in {wt}/notes.txt),
then take those at indices ((k * 5 + {n}) mod len) for k = 0.. until you have 4-6 workable ones. Each patch must include:
 - at least TWO helper extractions or inlinings (extract a private helper function/method from a block or a condition;
   or inline a small private helper into its caller(s) and delete it),
 - at least one reordering of independent statements or independent tests,
 - at least one merged or split condition (nested ifs <-> `and`; guard clause <-> if/else; De Morgan; elif chain <-> early returns),
and may also use: renaming locals/parameters of private functions, introducing or removing local aliases, comprehension
<-> loop, conditional expression <-> statement, `x.__class__ is K` <-> `type(x) is K`, `for` <-> `while` with a counter,
naming sub-expressions step by step, hoisting pure sub-expressions, dict/set/list comprehension <-> explicit building.
Do NOT change public names, signatures of public functions, module-level tables' contents, or behaviour in any corner case
(including which exception is raised first, evaluation order of calls with side effects, laziness of generators).
For every edit write one line in {wt}/notes.txt arguing why it is equivalent.
Finally run the full suite (all 1895 must pass) and leave the changes applied (uncommitted) in the worktree.

Final answer (short): the list of functions edited with the kind of edit, and the suite result.
"""


def main():
    kind, suf = sys.argv[1], sys.argv[2]
    only = sys.argv[3:]
    os.makedirs("/tmp/prompts", exist_ok=True)
    props = [json.loads(l) for l in open(os.path.join(HERE, "properties.jsonl"))]
    for n, p in enumerate(props):
        pid = p["id"]
        if only and pid not in only:
            continue
        sid = pid + suf
        wt = "/tmp/wt_" + sid
        used = []
        sd = os.path.join(HERE, "seeded")
        for d in sorted(os.listdir(sd)):
            if d.startswith(pid):
                try:
                    used.append("- " + json.load(open(os.path.join(sd, d, "meta.json")))["change"])
                except Exception:
                    pass
        tmpl = SEED if kind == "seed" else TWIN
        text = tmpl.format(wt=wt, pid=pid, title=p["title"], statement=p["statement"], quant=p["quantifier"]["text"],
                           files=", ".join(p["anchors"]["files"]), used="\n".join(used) or "- (none)", n=n + len(suf) + ord(suf[0]), sid=sid)
        open("/tmp/prompts/%s.txt" % sid, "w").write(text)
        if not os.path.isdir(wt):
            subprocess.run(["git", "-C", "/repo", "worktree", "add", "-q", "--detach", wt, "HEAD"], check=True)
        print(sid, wt)


if __name__ == "__main__":
    main()
