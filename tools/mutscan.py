#!/venv/bin/python
"""mutscan.py -- blind-spot map of the static checks (development tool, not a registered check).

Generates small mechanical edits (operator flips, dropped guards, dropped statements, break/continue, constants) in the
files the properties are anchored in, keeps those that still COMPILE AND PASS THE REPOSITORY'S SUITE (the only changes a
static checker has anything to add on), and runs the checks of the properties anchored in the edited file on each
survivor.  Output: one JSON line per edit in --out (default /tmp/mutscan/results.jsonl).  A surviving, unreported edit is
either behaviour preserving or a blind spot; each has to be read.  The tool only *runs the suite* to filter candidates; no
registered check does.

usage: mutscan.py [--files f1,f2] [--max-per-func N] [--jobs 16] [--out FILE] [--phase gen|suite|checks|all]
"""
import argparse, ast, collections, hashlib, json, os, random, shutil, subprocess, sys, tempfile, time
HERE = os.path.dirname(os.path.dirname(os.path.abspath(__file__)))
sys.path.insert(0, HERE)

CMP = {ast.Is: ast.IsNot, ast.IsNot: ast.Is, ast.Eq: ast.NotEq, ast.NotEq: ast.Eq, ast.Lt: ast.LtE, ast.LtE: ast.Lt,
       ast.Gt: ast.GtE, ast.GtE: ast.Gt, ast.In: ast.NotIn, ast.NotIn: ast.In}


def anchors():
    files = collections.defaultdict(list)
    for l in open(os.path.join(HERE, "properties.jsonl")):
        d = json.loads(l)
        for f in d["anchors"]["files"]:
            files[f].append(d["id"])
    return files


class Gen(ast.NodeVisitor):
    def __init__(self, src):
        self.src = src
        self.lines = src.split("\n")
        self.blines = [l.encode("utf-8") for l in self.lines]
        self.out = []
        self.stack = []

    def seg(self, node):
        return (node.lineno, node.col_offset, node.end_lineno, node.end_col_offset)

    def add(self, node, new_text, kind):
        self.out.append({"func": ".".join(self.stack) or "<module>", "line": node.lineno, "kind": kind, "seg": self.seg(node),
                         "old": ast.unparse(node)[:160], "new": new_text})

    def scoped(self, node):
        self.stack.append(node.name)
        self.generic_visit(node)
        self.stack.pop()
    visit_FunctionDef = visit_AsyncFunctionDef = visit_ClassDef = scoped

    def visit_Compare(self, node):
        if self.stack:
            for i, op in enumerate(node.ops):
                if type(op) in CMP:
                    import copy
                    n = copy.deepcopy(node)
                    n.ops[i] = CMP[type(op)]()
                    self.add(node, "(" + ast.unparse(n) + ")", "cmp")
        self.generic_visit(node)

    def visit_BoolOp(self, node):
        if self.stack:
            import copy
            n = copy.deepcopy(node)
            n.op = ast.Or() if isinstance(node.op, ast.And) else ast.And()
            self.add(node, "(" + ast.unparse(n) + ")", "boolop")
            if len(node.values) >= 2:
                for i in range(len(node.values)):
                    m = copy.deepcopy(node)
                    del m.values[i]
                    txt = ast.unparse(m) if len(m.values) > 1 else ast.unparse(m.values[0])
                    self.add(node, "(" + txt + ")", "dropconj")
        self.generic_visit(node)

    def visit_UnaryOp(self, node):
        if self.stack and isinstance(node.op, ast.Not):
            self.add(node, "(" + ast.unparse(node.operand) + ")", "unnot")
        self.generic_visit(node)

    def visit_If(self, node):
        if self.stack:
            last = node.body[-1]
            if not node.orelse and isinstance(last, (ast.Return, ast.Continue, ast.Raise, ast.Break)):
                self.add(node.test, "False", "dropguard")
            elif not isinstance(node.test, ast.UnaryOp):
                self.add(node.test, "(not (" + ast.unparse(node.test) + "))", "negate")
        self.generic_visit(node)

    def visit_Continue(self, node):
        if self.stack:
            self.add(node, "break", "cont2break")

    def visit_Break(self, node):
        if self.stack:
            self.add(node, "continue", "break2cont")

    def visit_Expr(self, node):
        if self.stack and isinstance(node.value, ast.Call):
            self.add(node, "pass", "dropcall")
        self.generic_visit(node)

    def visit_Assign(self, node):
        if self.stack and all(isinstance(t, (ast.Attribute, ast.Subscript)) for t in node.targets):
            self.add(node, "pass", "dropstore")
        self.generic_visit(node)

    def visit_AugAssign(self, node):
        if self.stack:
            self.add(node, "pass", "dropaug")
        self.generic_visit(node)

    def visit_Constant(self, node):
        if self.stack:
            if node.value is True:
                self.add(node, "False", "const")
            elif node.value is False:
                self.add(node, "True", "const")
            elif type(node.value) is int and abs(node.value) < 1000:
                self.add(node, str(node.value + 1), "const")

    def visit_IfExp(self, node):
        if self.stack:
            self.add(node.test, "(not (" + ast.unparse(node.test) + "))", "negate")
        self.generic_visit(node)

    def apply(self, m):
        l1, c1, l2, c2 = m["seg"]
        bl = list(self.blines)
        new = bl[l1 - 1][:c1] + m["new"].encode("utf-8") + bl[l2 - 1][c2:]
        bl[l1 - 1:l2] = [new]
        return b"\n".join(bl).decode("utf-8")


def generate(files, max_per_func, seed):
    rnd = random.Random(seed)
    muts = []
    for f in sorted(files):
        src = open(os.path.join("/repo", f)).read()
        g = Gen(src)
        g.visit(ast.parse(src))
        by = collections.defaultdict(list)
        for m in g.out:
            by[m["func"]].append(m)
        for fn, ms in by.items():
            if max_per_func and len(ms) > max_per_func:
                ms = rnd.sample(ms, max_per_func)
            for m in ms:
                text = g.apply(m)
                try:
                    compile(text, f, "exec")
                except SyntaxError:
                    continue
                m["file"] = f
                m["id"] = hashlib.sha1((f + repr(m["seg"]) + m["kind"] + m["new"]).encode()).hexdigest()[:10]
                m["text"] = text
                muts.append(m)
    return muts


_copy = None


def scratch():
    global _copy
    if _copy is None:
        _copy = tempfile.mkdtemp(prefix="vf-mut-")
        for n in ("src", "tests", "setup.cfg", "setup.py", "pyproject.toml", "tox.ini", "README.md", "examples", "docs"):
            s = os.path.join("/repo", n)
            if os.path.isdir(s):
                shutil.copytree(s, os.path.join(_copy, n), ignore=shutil.ignore_patterns("__pycache__", "_build"))
            elif os.path.exists(s):
                shutil.copy(s, _copy)
        import atexit
        atexit.register(shutil.rmtree, _copy, True)
    return _copy


def suite_one(m):
    root = scratch()
    path = os.path.join(root, m["file"])
    orig = open(os.path.join("/repo", m["file"])).read()
    open(path, "w").write(m["text"])
    t0 = time.time()
    try:
        r = subprocess.run(["/venv/bin/python", "-m", "pytest", "-q", "-x", "-p", "no:cacheprovider", "-W", "ignore", "--no-header",
                            "--color=no", "-p", "no:randomly"], cwd=root, env=dict(os.environ, PYTHONPATH=os.path.join(root, "src"), PYTHONDONTWRITEBYTECODE="1"),
                           capture_output=True, text=True, timeout=180)
        tail = r.stdout.strip().split("\n")[-1] if r.stdout.strip() else ""
        ok = r.returncode == 0 and "passed" in tail and "failed" not in tail and "error" not in tail
    except subprocess.TimeoutExpired:
        ok, tail = False, "timeout"
    finally:
        open(path, "w").write(orig)
    return m["id"], ok, tail[:80], round(time.time() - t0, 1)


def checks_one(arg):
    m, props = arg
    import check
    from vf import report
    root = scratch()
    path = os.path.join(root, m["file"])
    orig = open(os.path.join("/repo", m["file"])).read()
    open(path, "w").write(m["text"])
    hits, aborts = [], []
    try:
        for p in props:
            try:
                run = check.run_property(p, "quick", root)
            except Exception as e:
                aborts.append("%s:%s" % (p, str(e)[:80]))
                continue
            known = {"%s|%s" % (k["rule"], k["key"]) for k in report.load_known()["findings"] if k["property"] == p}
            new = sorted({f.rule for f in run.findings if f.ident not in known})
            if new:
                hits.append("%s:%s" % (p, ",".join(new)))
            elif getattr(run, "aborted", None):
                aborts.append("%s:%s" % (p, run.aborted[:80]))
            else:
                floor = [rid for rid in run.order if run.rules[rid].instances < run.rules[rid].floor]
                if floor:
                    aborts.append("%s:FLOOR %s" % (p, ",".join(floor)))
    finally:
        open(path, "w").write(orig)
    return m["id"], hits, aborts


def main():
    ap = argparse.ArgumentParser()
    ap.add_argument("--files", default="")
    ap.add_argument("--max-per-func", type=int, default=0)
    ap.add_argument("--jobs", type=int, default=16)
    ap.add_argument("--out", default="/tmp/mutscan/results.jsonl")
    ap.add_argument("--seed", type=int, default=1)
    ap.add_argument("--kinds", default="")
    args = ap.parse_args()
    anc = anchors()
    files = [f for f in anc if not args.files or f in args.files.split(",")]
    muts = generate(files, args.max_per_func, args.seed)
    if args.kinds:
        muts = [m for m in muts if m["kind"] in args.kinds.split(",")]
    os.makedirs(os.path.dirname(args.out), exist_ok=True)
    done = {}
    if os.path.exists(args.out):
        for l in open(args.out):
            d = json.loads(l)
            done[d["id"]] = d
    todo = [m for m in muts if m["id"] not in done]
    print("mutants: %d generated, %d already done, %d to run" % (len(muts), len(done), len(todo)), flush=True)
    from multiprocessing import Pool
    byid = {m["id"]: m for m in todo}
    t0 = time.time()
    with Pool(args.jobs) as pool:
        surv = []
        n = 0
        with open(args.out, "a") as out:
            for mid, ok, tail, dt in pool.imap_unordered(suite_one, todo):
                n += 1
                m = byid[mid]
                if ok:
                    surv.append(m)
                else:
                    rec = {k: m[k] for k in ("id", "file", "func", "line", "kind", "old", "new")}
                    rec.update(suite="killed", tail=tail)
                    out.write(json.dumps(rec) + "\n"); out.flush()
                if n % 100 == 0:
                    print("suite %d/%d survivors %d  %.0fs" % (n, len(todo), len(surv), time.time() - t0), flush=True)
            print("suite done: %d survivors of %d in %.0fs" % (len(surv), len(todo), time.time() - t0), flush=True)
            n = 0
            for mid, hits, aborts in pool.imap_unordered(checks_one, [(m, anc[m["file"]]) for m in surv]):
                n += 1
                m = byid[mid]
                rec = {k: m[k] for k in ("id", "file", "func", "line", "kind", "old", "new")}
                rec.update(suite="survived", detected=hits, aborted=aborts)
                out.write(json.dumps(rec) + "\n"); out.flush()
                if n % 50 == 0:
                    print("checks %d/%d  %.0fs" % (n, len(surv), time.time() - t0), flush=True)
    print("done in %.0fs" % (time.time() - t0))


if __name__ == "__main__":
    main()
