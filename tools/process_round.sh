#!/bin/bash
# process_round.sh <suffix> : for every /tmp/wt_Cxx<suffix> having demo.py and a src diff, not yet under /verif/seeded, verify & keep
suf=$1
for wt in /tmp/wt_C??$suf; do
  id=$(basename $wt | sed 's/wt_//')
  [ -d /verif/seeded/$id ] && continue
  [ -f $wt/demo.py ] || continue
  git -C $wt diff -- src > /tmp/$id.diff
  [ -s /tmp/$id.diff ] || continue
  echo "== $id"
  /verif/tools/keep_seed.sh $id /tmp/$id.diff $wt/demo.py 2>&1 | cut -c1-260
done
