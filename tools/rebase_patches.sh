#!/bin/bash
# rebase_patches.sh <old-commit> : every stored patch (seeded/, twins/) that no longer applies to /repo HEAD but applies to <old-commit>
# is re-created against HEAD by cherry-picking the commits old..HEAD on top of it (3-way merge). Conflicts are listed for manual work.
old=$1
head=$(git -C /repo rev-parse HEAD)
wt=/tmp/wt_rebase
for d in /verif/seeded/* /verif/twins/*; do
  p=$d/patch.diff; [ -f $p ] || continue
  git -C /repo apply --check $p 2>/dev/null && continue
  git -C /repo worktree remove --force $wt 2>/dev/null
  git -C /repo worktree add -q --detach $wt $old || exit 1
  if ! git -C $wt apply $p 2>/dev/null; then echo "$(basename $d): does not apply to $old either"; continue; fi
  git -C $wt commit -qam "patch $(basename $d)"
  if git -C $wt cherry-pick $old..$head >/dev/null 2>&1; then
    git -C $wt diff $head HEAD -- src > $p.new && mv $p.new $p && echo "$(basename $d): rebased"
  else
    echo "$(basename $d): CONFLICT (left in $wt.$(basename $d))"
    git -C $wt cherry-pick --abort 2>/dev/null
  fi
done
git -C /repo worktree remove --force $wt 2>/dev/null
