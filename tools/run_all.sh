#!/bin/bash
# Run every registered quick (or $1=thorough) check against /repo, writing /verif/evidence/*.json.
cd "$(dirname "$0")/.."
tier=${1:-quick}
rc_all=0
for p in $(/venv/bin/python -c "import json;print(' '.join(c['property_id'] for c in json.load(open('MANIFEST.json'))['checks']))"); do
  /venv/bin/python check.py $p --tier $tier > /tmp/vf_$p.log 2>&1; rc=$?
  printf "%s rc=%d %s\n" $p $rc "$(grep -c '^KNOWN-FINDING' /tmp/vf_$p.log) known, $(grep -c '^VIOLATION' /tmp/vf_$p.log) violations, $(head -1 /tmp/vf_$p.log | sed 's/.*wall=//')"
  [ $rc -ne 0 ] && rc_all=1 && grep -E "^(VIOLATION|ANALYSIS-ERROR|FINDING)" /tmp/vf_$p.log | head -5
done
exit $rc_all
