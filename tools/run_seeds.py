#!/venv/bin/python
"""Apply each kept seeded change (/verif/seeded/<id>/patch.diff) to a scratch copy of /repo/src and run the checks on it.
Prints which check(s) report a violation.  usage: run_seeds.py [id ...] [--all-props]"""
import json, os, shutil, subprocess, sys, tempfile
HERE = os.path.dirname(os.path.dirname(os.path.abspath(__file__)))
sys.path.insert(0, HERE)
import check
from vf import report

def main():
    ids = [a for a in sys.argv[1:] if not a.startswith("--")] or sorted(os.listdir(os.path.join(HERE, "seeded")))
    allp = "--all-props" in sys.argv
    props = [c["property_id"] for c in json.load(open(os.path.join(HERE, "MANIFEST.json")))["checks"]]
    summary = []
    for sid in ids:
        d = os.path.join(HERE, "seeded", sid)
        patch = os.path.join(d, "patch.diff")
        if not os.path.exists(patch):
            continue
        tmp = tempfile.mkdtemp(prefix="vf-seed-")
        try:
            shutil.copytree("/repo/src", os.path.join(tmp, "src"), ignore=shutil.ignore_patterns("__pycache__"))
            r = subprocess.run(["git", "apply", patch], cwd=tmp, capture_output=True, text=True)
            if r.returncode != 0:
                summary.append((sid, "patch does not apply: %s" % r.stderr.strip()[:100]))
                continue
            target = sid[:3]
            hits = []
            for p in (props if allp else [target]):
                try:
                    run = check.run_property(p, "quick", tmp)
                except Exception as e:
                    hits.append("%s:ANALYSIS-ERROR(%s)" % (p, str(e)[:60]))
                    continue
                if getattr(run, "aborted", None) and not run.findings:
                    hits.append("%s:ANALYSIS-ERROR(%s)" % (p, run.aborted[:60]))
                    continue
                known = {"%s|%s" % (k["rule"], k["key"]) for k in report.load_known()["findings"] if k["property"] == p}
                new = [f for f in run.findings if f.ident not in known]
                if new:
                    hits.append("%s:%s" % (p, ",".join(sorted({f.rule for f in new}))))
            summary.append((sid, "DETECTED " + " ".join(hits) if hits else "MISSED"))
        finally:
            shutil.rmtree(tmp, ignore_errors=True)
    for sid, res in summary:
        print("%-8s %s" % (sid, res))
    return 0

if __name__ == "__main__":
    sys.exit(main())
