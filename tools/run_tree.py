#!/venv/bin/python
"""Run every check on a source tree (a directory containing src/) and print what is new with respect to the known findings.
usage: run_tree.py <dir-containing-src> [...]"""
import json, os, sys
HERE = os.path.dirname(os.path.dirname(os.path.abspath(__file__)))
sys.path.insert(0, HERE)
import check
from vf import report


def one(arg):
    root, p = arg
    out = []
    run = check.run_property(p, "quick", root)
    known = {"%s|%s" % (k["rule"], k["key"]) for k in report.load_known()["findings"] if k["property"] == p}
    for f in run.findings:
        if f.ident not in known:
            out.append("%s %s" % (f.rule, f.key[:140]))
    if getattr(run, "aborted", None):
        out.append("%s ANALYSIS-ERROR %s" % (p, run.aborted[:160]))
    else:
        floor = [rid for rid in run.order if run.rules[rid].instances < run.rules[rid].floor]
        if floor:
            out.append("%s FLOOR %s" % (p, floor))
    return root, sorted(set(out))


def main():
    props = [c["property_id"] for c in json.load(open(os.path.join(HERE, "MANIFEST.json")))["checks"]]
    if os.environ.get("VF_PROPS"):
        props = [p for p in props if p in os.environ["VF_PROPS"].split(",")]
    from multiprocessing import Pool
    jobs = [(r, p) for r in sys.argv[1:] for p in props]
    with Pool(16) as pool:
        res = pool.map(one, jobs)
    bad = 0
    for r in sys.argv[1:]:
        outs = [o for (rr, out) in res if rr == r for o in out]
        print("%-30s %s" % (r, "silent" if not outs else "ALARM"))
        for o in outs:
            print("      " + o)
            bad += 1
    return 1 if bad else 0


if __name__ == "__main__":
    sys.exit(main())
