#!/venv/bin/python
"""Run every check on behaviour-preserving refactorings (twins): patches under /verif/twins/<id>/patch.diff, or worktrees given on
the command line.  Any new finding or analysis error on a twin is a false alarm / brittleness of the machinery.
usage: run_twins.py [id ...]      (ids under /verif/twins)"""
import json, os, shutil, subprocess, sys, tempfile
HERE = os.path.dirname(os.path.dirname(os.path.abspath(__file__)))
sys.path.insert(0, HERE)
import check
from vf import report

def main():
    tdir = os.path.join(HERE, "twins")
    ids = [a for a in sys.argv[1:]] or sorted(os.listdir(tdir))
    props = [c["property_id"] for c in json.load(open(os.path.join(HERE, "MANIFEST.json")))["checks"]]
    if os.environ.get("VF_PROPS"):
        props = [p for p in props if p in os.environ["VF_PROPS"].split(",")]
    from multiprocessing import Pool
    with Pool(min(16, max(1, len(ids)))) as pool:
        res = pool.map(one, [(tid, tdir, props) for tid in ids])
    for text, nbad in res:
        if text:
            print(text)
    return 1 if sum(n for _, n in res) else 0


def one(arg):
    tid, tdir, props = arg
    lines = []
    bad = 0
    if True:
        patch = os.path.join(tdir, tid, "patch.diff")
        if not os.path.exists(patch):
            return "", 0
        tmp = tempfile.mkdtemp(prefix="vf-twin-")
        try:
            shutil.copytree("/repo/src", os.path.join(tmp, "src"), ignore=shutil.ignore_patterns("__pycache__"))
            r = subprocess.run(["git", "apply", patch], cwd=tmp, capture_output=True, text=True)
            if r.returncode != 0:
                return "%-8s patch does not apply: %s" % (tid, r.stderr.strip()[:100]), 1
            out = []
            for p in props:
                run = check.run_property(p, "quick", tmp)
                known = {"%s|%s" % (k["rule"], k["key"]) for k in report.load_known()["findings"] if k["property"] == p}
                new = [f for f in run.findings if f.ident not in known]
                for f in new:
                    out.append("%s %s" % (f.rule, f.key[:110]))
                if getattr(run, "aborted", None):
                    out.append("%s ANALYSIS-ERROR %s" % (p, run.aborted[:110]))
                floor = [rid for rid in run.order if run.rules[rid].instances < run.rules[rid].floor]
                if floor and not getattr(run, "aborted", None):
                    out.append("%s FLOOR %s" % (p, floor))
            lines.append("%-8s %s" % (tid, "silent" if not out else "ALARM"))
            for o in sorted(set(out)):
                lines.append("      " + o); bad += 1
        finally:
            shutil.rmtree(tmp, ignore_errors=True)
    return "\n".join(lines), bad

if __name__ == "__main__":
    sys.exit(main())
