#!/venv/bin/python
"""setup_cmd: nothing to build (pure-Python checkers on the interpreter of the
repository's own environment); verify the pieces are importable."""
import os
import sys

HERE = os.path.dirname(os.path.dirname(os.path.abspath(__file__)))
sys.path.insert(0, HERE)
import ast  # noqa
from vf import model, report, boolx, shapes  # noqa

os.makedirs(os.path.join(HERE, "evidence"), exist_ok=True)
print("setup ok: python %s" % sys.version.split()[0])
