#!/venv/bin/python
"""Print the analysis-time view (after helper inlining) of a function on the tree with a twin/seed patch applied.
usage: show_view.py <patch.diff|-> <module> <qualname>"""
import ast, os, shutil, subprocess, sys, tempfile
HERE = os.path.dirname(os.path.dirname(os.path.abspath(__file__)))
sys.path.insert(0, HERE)
from vf import model
patch, mod, q = sys.argv[1:4]
tmp = tempfile.mkdtemp(prefix="vf-view-")
try:
    shutil.copytree("/repo/src", os.path.join(tmp, "src"), ignore=shutil.ignore_patterns("__pycache__"))
    if patch != "-":
        subprocess.run(["git", "apply", os.path.abspath(patch)], cwd=tmp, check=True)
    prog = model.Program(tmp)
    print("inlined:", {k: v for k, v in prog.inlined.items()})
    f = prog.get_func(mod, q)
    print(ast.unparse(f.node))
finally:
    shutil.rmtree(tmp, ignore_errors=True)
