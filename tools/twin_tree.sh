#!/bin/bash
# twin_tree.sh <id> : scratch copy of /repo/src with the twin patch applied at /tmp/tt_<id> (for debugging rules)
id=$1; rm -rf /tmp/tt_$id; mkdir -p /tmp/tt_$id; cp -r /repo/src /tmp/tt_$id/; cd /tmp/tt_$id && git apply /verif/twins/$id/patch.diff && echo /tmp/tt_$id
