"""Static verification framework for py-gql (see /verif/DESIGN.md).

Nothing in this package imports or executes ``py_gql``: every rule reads the
source files under ``<root>/src/py_gql`` with :mod:`ast` on each run.
"""
