"""A collection taken from a source object is copied before it is changed.

`values = enum_type.values` followed by `values.append(...)` changes the list the SOURCE object still holds: the schema
being extended / transformed is modified behind the caller's back (and only partly: lookup tables derived from that list
are not).  A local bound to an attribute of a parameter, of `self`, or of another local, without a copy
(`x.attr[:]`, `list(x.attr)`, a comprehension, `copy.copy`), must not be the receiver of a mutating call, of `+=`, or of an
item / slice assignment.
"""
import ast

from .model import own_nodes

MUTATORS = {"append", "extend", "insert", "remove", "pop", "clear", "sort", "reverse", "update", "add", "discard", "setdefault", "popitem"}


def _exposes_internal(prog, attr):
    """some method of that name returns (a part of) an attribute of self without copying it"""
    for m in prog.methods_named(attr):
        for n in own_nodes(m.node):
            if isinstance(n, ast.Return) and n.value is not None:
                v = n.value
                while isinstance(v, (ast.Subscript, ast.Attribute)):
                    if isinstance(v, ast.Attribute) and isinstance(v.value, ast.Name) and v.value.id == "self":
                        return True
                    v = v.value
    return False


def check(prog, run, rule_id, prefixes, floor, consequence, getters=False):
    r = run.rule(rule_id, "in %s no local bound directly to an attribute of another object (`xs = source.values`, no slice / list() / "
                          "comprehension / copy) is later mutated in place (append/extend/insert/remove/pop/clear/sort/update/add, `+=`, "
                          "item or slice assignment): %s" % (", ".join(p + "/**" for p in prefixes), consequence), floor)
    for f in prog.all_funcs():
        if not any(f.module.name == p or f.module.name.startswith(p + ".") for p in prefixes):
            continue
        aliases = {}
        counts = {}
        for n in own_nodes(f.node):
            if isinstance(n, ast.Name) and isinstance(n.ctx, ast.Store):
                counts[n.id] = counts.get(n.id, 0) + 1
            if isinstance(n, ast.Assign) and len(n.targets) == 1 and isinstance(n.targets[0], ast.Name) and isinstance(n.value, ast.Attribute):
                root = n.value
                while isinstance(root, ast.Attribute):
                    root = root.value
                if isinstance(root, ast.Name):
                    aliases[n.targets[0].id] = n
            elif getters and isinstance(n, ast.Assign) and len(n.targets) == 1 and isinstance(n.targets[0], ast.Name) and isinstance(n.value, ast.Call) \
                    and isinstance(n.value.func, ast.Attribute) and _exposes_internal(prog, n.value.func.attr):
                aliases[n.targets[0].id] = n      # the result of a getter that hands out the object's own collection
            elif getters and isinstance(n, ast.Call) and isinstance(n.func, ast.Attribute) and n.func.attr in MUTATORS and isinstance(n.func.value, ast.Call) \
                    and isinstance(n.func.value.func, ast.Attribute) and _exposes_internal(prog, n.func.value.func.attr):
                r.instance("%s: `%s`" % (f.qualname, " ".join(ast.unparse(n).split())[:60]))
                run.report(r, "%s:%s:aliased-collection-mutated(%s)" % (f.module.name, f.qualname, ast.unparse(n.func.value.func)), f.where(n),
                           "`%s` changes in place the collection `%s` hands out: the object it belongs to is modified too"
                           % (" ".join(ast.unparse(n).split())[:70], ast.unparse(n.func.value.func)))
        aliases = {k: v for k, v in aliases.items() if counts.get(k) == 1}
        for name, bind in aliases.items():
            r.instance("%s: `%s`" % (f.qualname, " ".join(ast.unparse(bind).split())[:60]))
            for n in own_nodes(f.node):
                hit = None
                if isinstance(n, ast.Call) and isinstance(n.func, ast.Attribute) and n.func.attr in MUTATORS and isinstance(n.func.value, ast.Name) \
                        and n.func.value.id == name:
                    hit = ".%s(...)" % n.func.attr
                elif isinstance(n, ast.AugAssign) and isinstance(n.target, ast.Name) and n.target.id == name:
                    hit = "augmented assignment"
                elif isinstance(n, ast.Subscript) and isinstance(n.ctx, (ast.Store, ast.Del)) and isinstance(n.value, ast.Name) and n.value.id == name:
                    hit = "item assignment"
                if hit and (n.lineno, n.col_offset) > (bind.lineno, bind.col_offset):
                    run.report(r, "%s:%s:aliased-collection-mutated(%s)" % (f.module.name, f.qualname, ast.unparse(bind.value)), f.where(n),
                               "`%s` is bound to `%s` without a copy and then changed in place (%s): the object it was taken from is "
                               "modified too" % (name, ast.unparse(bind.value), hit))
                    break
