"""Abstract boolean evaluation of Python expressions.

``atoms(expr)`` lists the maximal non-boolean sub-expressions (by unparse text);
``evaluate(expr, env)`` evaluates ``and/or/not/IfExp`` structure over an
assignment of atoms to truth values.  ``inline_locals`` substitutes
single-assignment local variables so that a function's returned condition can be
tabulated over the atoms it ultimately depends on.  Used by rules that compare a
condition with a reference truth table (robust to De-Morgan style rewrites).
"""
import ast
import itertools


def _is_bool_struct(e):
    return isinstance(e, ast.BoolOp) or (isinstance(e, ast.UnaryOp) and isinstance(e.op, ast.Not)) or isinstance(e, ast.IfExp)


def text(e):
    return " ".join(ast.unparse(e).split())


def atoms(e, out=None):
    if out is None:
        out = []
    if isinstance(e, ast.BoolOp):
        for v in e.values:
            atoms(v, out)
    elif isinstance(e, ast.UnaryOp) and isinstance(e.op, ast.Not):
        atoms(e.operand, out)
    elif isinstance(e, ast.IfExp):
        atoms(e.test, out)
        atoms(e.body, out)
        atoms(e.orelse, out)
    elif isinstance(e, ast.Constant):
        pass
    elif isinstance(e, ast.Compare) and len(e.ops) > 1:
        # a < b < c  ==  (a < b) and (b < c)
        left = e.left
        for op, right in zip(e.ops, e.comparators):
            atoms(ast.Compare(left=left, ops=[op], comparators=[right]), out)
            left = right
    else:
        t = canonical_atom(e)[0]
        if t not in out:
            out.append(t)
    return out


_NEG = {ast.NotEq: ast.Eq, ast.IsNot: ast.Is, ast.NotIn: ast.In}


def canonical_atom(e):
    """Return (text, negated): ``a != b`` is the negation of atom ``a == b``."""
    if isinstance(e, ast.Compare) and len(e.ops) == 1 and type(e.ops[0]) in _NEG:
        pos = ast.Compare(left=e.left, ops=[_NEG[type(e.ops[0])]()], comparators=e.comparators)
        return text(pos), True
    return text(e), False


def evaluate(e, env):
    """env: atom text -> bool.  Missing atom raises KeyError."""
    if isinstance(e, ast.BoolOp):
        if isinstance(e.op, ast.And):
            return all(evaluate(v, env) for v in e.values)
        return any(evaluate(v, env) for v in e.values)
    if isinstance(e, ast.UnaryOp) and isinstance(e.op, ast.Not):
        return not evaluate(e.operand, env)
    if isinstance(e, ast.IfExp):
        return evaluate(e.body, env) if evaluate(e.test, env) else evaluate(e.orelse, env)
    if isinstance(e, ast.Constant):
        return bool(e.value)
    if isinstance(e, ast.Compare) and len(e.ops) > 1:
        left = e.left
        for op, right in zip(e.ops, e.comparators):
            if not evaluate(ast.Compare(left=left, ops=[op], comparators=[right]), env):
                return False
            left = right
        return True
    t, neg = canonical_atom(e)
    v = env[t]
    return (not v) if neg else v


def table(e, atom_names=None):
    """Full truth table: list of (assignment dict, value)."""
    names = atom_names or atoms(e)
    rows = []
    for vals in itertools.product([False, True], repeat=len(names)):
        env = dict(zip(names, vals))
        rows.append((env, evaluate(e, env)))
    return names, rows


class Subst(ast.NodeTransformer):
    def __init__(self, mapping):
        self.mapping = mapping

    def visit_Name(self, node):
        if isinstance(node.ctx, ast.Load) and node.id in self.mapping:
            return self.mapping[node.id]
        return node


def inline_locals(fn, expr, exclude=()):
    """Substitute names assigned exactly once in ``fn`` (top-level simple
    assignments preceding use) into ``expr``, repeatedly."""
    assigns = {}
    counts = {}
    for n in ast.walk(fn):
        if isinstance(n, ast.Assign) and len(n.targets) == 1 and isinstance(n.targets[0], ast.Name):
            counts[n.targets[0].id] = counts.get(n.targets[0].id, 0) + 1
            assigns[n.targets[0].id] = n.value
        elif isinstance(n, (ast.AugAssign, ast.AnnAssign, ast.For, ast.NamedExpr)):
            t = getattr(n, "target", None)
            for x in ast.walk(t) if t is not None else []:
                if isinstance(x, ast.Name):
                    counts[x.id] = counts.get(x.id, 0) + 2
    mapping = {k: v for k, v in assigns.items() if counts.get(k) == 1 and k not in exclude}
    import copy
    cur = copy.deepcopy(expr)
    for _ in range(8):
        new = Subst({k: copy.deepcopy(v) for k, v in mapping.items()}).visit(copy.deepcopy(cur))
        if ast.dump(new) == ast.dump(cur):
            break
        cur = new
    return ast.fix_missing_locations(cur)


# ---------------------------------------------------------------------------
# path-consistent walk of a (mostly straight-line) function under fixed atoms
# ---------------------------------------------------------------------------
import re as _re

CALLS = "\0calls"   # env key: tuple of the Call nodes evaluated so far on this execution
STMTS = "\0stmts"   # env key: tuple of the simple statements executed so far on this execution
HANDLERS = "\0handlers"   # env key: tuple of the except handlers entered so far on this execution
TESTS = "\0tests"   # env key: tuple of (atom text, value) in the order the atoms were decided on this execution (never killed)
META = (CALLS, STMTS, HANDLERS, TESTS)


def walk_under(fn_node, decide):
    """Enumerate the executions of ``fn_node``'s body that are consistent with
    ``decide(atom_text) -> True/False/None`` (a decide function carrying ``wants_env = True`` is called as
    ``decide(atom_text, env, expr)`` and can read the statements executed so far from env[STMTS]; None: explore both values, but the
    same value every time the same atom is tested again while none of the names
    it mentions has been re-assigned).  Short-circuit evaluation is respected.
    Returns (evaluated, exits): ``evaluated`` maps id(node) -> (node, env) for every
    Call/Attribute/Subscript node evaluated on some consistent execution; ``exits``
    lists (kind, stmt, env) for every return/raise/fall-off reached."""
    evaluated = {}
    exits = []
    _in_flag = []
    _in_subst = []
    # single-assignment locals bound to a plain attribute chain are aliases: atoms are written in terms of the chain
    counts, vals = {}, {}
    for n in ast.walk(fn_node):
        if isinstance(n, ast.Name) and isinstance(n.ctx, ast.Store):
            counts[n.id] = counts.get(n.id, 0) + 1
        if isinstance(n, ast.Assign) and len(n.targets) == 1 and isinstance(n.targets[0], ast.Name):
            v = n.value
            root = v
            while isinstance(root, ast.Attribute):
                root = root.value
            if isinstance(v, ast.Attribute) and isinstance(root, ast.Name):
                vals[n.targets[0].id] = (text(v), root.id)
            elif isinstance(v, ast.Call) and isinstance(v.func, ast.Name) and v.func.id == "isinstance" and len(v.args) == 2 and not v.keywords \
                    and isinstance(v.args[0], ast.Name) and not any(isinstance(x, ast.Call) for a in v.args for x in ast.walk(a)):
                # a local naming a class test (`is_scalar = isinstance(t, ScalarType)`) stands for that test
                if n.targets[0].id != v.args[0].id:
                    vals[n.targets[0].id] = (text(v), v.args[0].id)
            elif isinstance(v, ast.Call) and isinstance(v.func, ast.Name) and v.func.id == "type" and len(v.args) == 1 and not v.keywords \
                    and isinstance(v.args[0], ast.Name) and n.targets[0].id != v.args[0].id:
                vals[n.targets[0].id] = (text(v), v.args[0].id)        # `kind = type(t)` names the class of t
            elif isinstance(v, ast.Compare) and not any(isinstance(x, ast.Call) for x in ast.walk(v)):
                # a local naming a side-effect free test (`provided = name in variables`) stands for that test
                used = [x.id for x in ast.walk(v) if isinstance(x, ast.Name)]
                if used and n.targets[0].id not in used:
                    vals[n.targets[0].id] = ("(%s)" % text(v), used[0])
                    for u in used[1:]:
                        if counts.get(u, 0) > 1:
                            vals.pop(n.targets[0].id, None)
    params = {a.arg for a in fn_node.args.posonlyargs + fn_node.args.args + fn_node.args.kwonlyargs} if hasattr(fn_node, "args") else set()
    alias = {k: v for k, (v, root) in vals.items() if counts.get(k) == 1 and k not in params
             and (counts.get(root, 0) == 0 or (counts.get(root) == 1 and root in vals and root not in params))}
    alias_pat = _re.compile(r"(?<![\w.])(%s)(?![\w])" % "|".join(_re.escape(k) for k in alias)) if alias else None

    def canon(e):
        t, neg = canonical_atom(e)
        if alias_pat is not None:
            for _ in range(3):
                t2 = alias_pat.sub(lambda m: alias[m.group(1)], t)
                if t2 == t:
                    break
                t = t2
            if t.startswith("(") and t.endswith(")") and t.count("(") == 1:
                t = t[1:-1]
                # `x = a not in b` used as atom: normalise like canonical_atom does
                try:
                    t, neg2 = canonical_atom(ast.parse(t, mode="eval").body)
                    neg = neg != neg2
                except SyntaxError:
                    pass
        return t, neg

    def note(e, env):
        """Record what evaluating ``e`` evaluates; returns the env extended with the calls made (key CALLS)."""
        if e is None:
            return env
        stack = [e]
        made = []
        while stack:
            n = stack.pop()
            if isinstance(n, ast.Lambda):
                continue
            if isinstance(n, (ast.BoolOp, ast.IfExp)) and n is not e:
                # evaluated lazily: handled by truth()/value() when they are the root
                for (en, _t) in truth(n, env):
                    pass
                continue
            if isinstance(n, (ast.Call, ast.Attribute, ast.Subscript)):
                evaluated.setdefault(id(n), (n, dict(env)))
                if isinstance(n, ast.Call):
                    made.append(n)
            stack.extend(ast.iter_child_nodes(n))
        if made:
            env = dict(env)
            env[CALLS] = env.get(CALLS, ()) + tuple(reversed(made))
        return env

    def truth(e, env):
        if isinstance(e, ast.BoolOp):
            stop = isinstance(e.op, ast.Or)
            states = [(env, not stop)]
            for v in e.values:
                new = []
                for en, t in states:
                    if t == stop:
                        new.append((en, t))
                    else:
                        new.extend(truth(v, en))
                states = new
            return states
        if isinstance(e, ast.UnaryOp) and isinstance(e.op, ast.Not):
            return [(en, not t) for en, t in truth(e.operand, env)]
        if isinstance(e, ast.IfExp):
            out = []
            for en, t in truth(e.test, env):
                out.extend(truth(e.body if t else e.orelse, en))
            return out
        if isinstance(e, ast.Constant):
            return [(env, bool(e.value))]
        if isinstance(e, ast.Call) and isinstance(e.func, ast.Name) and e.func.id == "bool" and len(e.args) == 1 and not e.keywords:
            return truth(e.args[0], env)      # bool(X) is true exactly when X is
        env = note(e, env)
        t, neg = canon(e)
        if t in env:
            v = env[t]
            return [(env, (not v) if neg else v)]
        d = decide(t, env, e) if getattr(decide, "wants_env", False) else decide(t)
        if d is None and not _in_subst and any(isinstance(x, ast.Name) for x in ast.walk(e)):
            # the same test over what the locals it mentions hold on this execution, when that is a plain name / attribute chain /
            # constant (`p = path` ... `if p is None:` is the test `path is None`)
            penv = {k: v for k, v in path_env(env.get(STMTS, ())).items()
                    if isinstance(v, (ast.Name, ast.Attribute, ast.Constant)) and not any(isinstance(x, ast.Name) and x.id.startswith("$") for x in ast.walk(v))}
            if penv and any(isinstance(x, ast.Name) and x.id in penv for x in ast.walk(e)):
                e2 = path_subst(_clone_expr(e), penv)
                t2, neg2 = canon(e2)
                if t2 != t:
                    if isinstance(e2, ast.Compare) and len(e2.ops) == 1 and isinstance(e2.ops[0], (ast.Is, ast.IsNot)) \
                            and isinstance(e2.left, ast.Constant) and isinstance(e2.comparators[0], ast.Constant):
                        same = e2.left.value is e2.comparators[0].value
                        return [(env, same == isinstance(e2.ops[0], ast.Is))]
                    _in_subst.append(1)
                    try:
                        d2 = decide(t2, env, e2) if getattr(decide, "wants_env", False) else decide(t2)
                    finally:
                        _in_subst.pop()
                    if d2 is not None:
                        d = (not d2) if (neg2 != neg) else d2
        if d is None and isinstance(e, ast.Compare) and len(e.ops) == 1 and isinstance(e.ops[0], (ast.Is, ast.IsNot)) \
                and isinstance(e.left, ast.Name) and isinstance(e.comparators[0], ast.Name) and e.comparators[0].id.isupper() \
                and e.comparators[0].id not in counts and e.left.id not in params:
            # `x is _SENTINEL` (a module-level marker object): decided by what this execution last stored in x - the marker
            # itself, or something looked up / computed, which is not the marker
            _sts = env.get(STMTS, ())
            for _s in reversed(_sts):
                if isinstance(_s, ast.Assign) and len(_s.targets) == 1 and isinstance(_s.targets[0], ast.Name) and _s.targets[0].id == e.left.id:
                    same_obj = isinstance(_s.value, ast.Name) and _s.value.id == e.comparators[0].id
                    if same_obj or isinstance(_s.value, (ast.Subscript, ast.Call, ast.Attribute, ast.Constant)):
                        d = same_obj        # value of the canonical atom `x is S`
                    break
                if any(isinstance(x, ast.Name) and x.id == e.left.id and isinstance(x.ctx, ast.Store) for x in ast.walk(_s)):
                    break
        if d is None and isinstance(e, ast.Name) and not _in_flag:
            # a local that holds the outcome of a call-free test on this execution (`changed = a.x != b.x` ... `if changed:`,
            # the flag an inlined predicate helper leaves behind) is decided like that test
            pv = None
            _sts = env.get(STMTS, ())
            for _i in range(len(_sts) - 1, -1, -1):
                _s = _sts[_i]
                if any(isinstance(x, ast.Name) and x.id == e.id and isinstance(x.ctx, ast.Store) for x in ast.walk(_s)):
                    if isinstance(_s, ast.Assign) and len(_s.targets) == 1 and isinstance(_s.targets[0], ast.Name):
                        used = {x.id for x in ast.walk(_s.value) if isinstance(x, ast.Name)}
                        later = {x.id for y in _sts[_i + 1:] for x in ast.walk(y) if isinstance(x, ast.Name) and isinstance(x.ctx, ast.Store)}
                        if not (used & later):
                            pv = _s.value       # the test as written: the names it mentions still hold what they held then
                    break
            def _pure(x):
                # isinstance(<names>) is the one call a flag may hold: it has no effect and depends on its operands only
                if isinstance(x, ast.Call):
                    return isinstance(x.func, ast.Name) and x.func.id == "isinstance" and not x.keywords and \
                        not any(isinstance(y, ast.Call) for a in x.args for y in ast.walk(a))
                return not isinstance(x, (ast.Await, ast.Yield, ast.YieldFrom, ast.Lambda))
            if pv is not None and isinstance(pv, (ast.Compare, ast.BoolOp, ast.UnaryOp, ast.Attribute, ast.Constant, ast.Name, ast.Call)) \
                    and all(_pure(x) for x in ast.walk(pv)) \
                    and not any(isinstance(x, ast.Name) and x.id.startswith("$") for x in ast.walk(pv)) \
                    and not (isinstance(pv, ast.Name) and pv.id == e.id):
                _in_flag.append(1)
                try:
                    res = truth(ast.fix_missing_locations(_clone_expr(pv)), env)
                finally:
                    _in_flag.pop()
                out = []
                for en, tv in res:
                    en = dict(en)
                    en[t] = tv                      # the flag itself is a decided atom of this execution, like any other test
                    en[TESTS] = en.get(TESTS, ()) + ((t, tv),)
                    out.append((en, tv))
                return out
        out = []
        for v in ([d] if d is not None else [True, False]):
            en = dict(env)
            en[t] = v
            en[TESTS] = en.get(TESTS, ()) + ((t, v),)
            out.append((en, (not v) if neg else v))
        return out

    def value(e, env):
        """Evaluate an expression for its value; returns the list of resulting envs."""
        if e is None:
            return [env]
        if isinstance(e, (ast.BoolOp, ast.IfExp)):
            return [en for en, _t in truth(e, env)]
        return [note(e, env)]

    def kill(env, names):
        if not names:
            return env
        pat = _re.compile(r"\b(%s)\b" % "|".join(_re.escape(n) for n in names))
        return {k: v for k, v in env.items() if k in META or not pat.search(k)}

    def targets(t):
        return [n.id for n in ast.walk(t) if isinstance(n, ast.Name)]

    def block(stmts, env):
        envs = [env]
        for st in stmts:
            nxt = []
            for en in envs:
                nxt.extend(stmt(st, en))
            envs = nxt
            if not envs:
                break
        return envs

    def stmt(st, env):
        if isinstance(st, (ast.Return, ast.Raise, ast.Assign, ast.AnnAssign, ast.AugAssign, ast.Expr, ast.Delete)):
            env = dict(env)
            env[STMTS] = env.get(STMTS, ()) + (st,)
        if isinstance(st, ast.Return):
            for en in value(st.value, env):
                exits.append(("return", st, en))
            return []
        if isinstance(st, ast.Raise):
            for en in value(st.exc, env):
                exits.append(("raise", st, en))
            return []
        if isinstance(st, ast.If):
            out = []
            for en, t in truth(st.test, env):
                out.extend(block(st.body if t else st.orelse, en))
            return out
        if isinstance(st, (ast.Assign, ast.AnnAssign, ast.AugAssign)):
            tg = st.targets if isinstance(st, ast.Assign) else [st.target]
            names = [n for t in tg for n in targets(t)]
            v = st.value
            if len(tg) == 1 and isinstance(tg[0], ast.Name) and not isinstance(st, ast.AugAssign) and (
                    isinstance(v, ast.BoolOp) or (isinstance(v, ast.UnaryOp) and isinstance(v.op, ast.Not))):
                # a local naming a compound test (`both = isinstance(a, K) and isinstance(b, K)`): the test is decided here,
                # and a later `if both` sees that decision
                out = []
                for en, t in truth(v, env):
                    en = dict(kill(en, names))
                    en[tg[0].id] = t
                    out.append(en)
                return out
            return [kill(en, names) for en in value(st.value, env)]
        if isinstance(st, ast.Expr):
            return value(st.value, env)
        if isinstance(st, (ast.For, ast.AsyncFor)):
            out = []
            for en in value(st.iter, env):
                en = kill(en, targets(st.target))
                after = block(st.body, en)
                out.extend(block(st.orelse, en))
                for a in after:
                    out.extend(block(st.orelse, kill(a, targets(st.target))))
            return out
        if isinstance(st, ast.While):
            out = []
            for en, t in truth(st.test, env):
                if t:
                    for a in block(st.body, en):
                        out.append({k: a[k] for k in META if k in a})
                else:
                    out.extend(block(st.orelse, en))
            return out
        if isinstance(st, ast.Try):
            out = []
            body = block(st.body, env)
            for en in body:
                out.extend(block(st.orelse, en))
            for h in st.handlers:
                out.extend(block(h.body, {CALLS: env.get(CALLS, ()), STMTS: env.get(STMTS, ()), TESTS: env.get(TESTS, ()),
                                          HANDLERS: env.get(HANDLERS, ()) + (h,)}))
            res = []
            for en in out:
                res.extend(block(st.finalbody, en))
            return res
        if isinstance(st, (ast.With, ast.AsyncWith)):
            en = env
            for it in st.items:
                en = note(it.context_expr, en)
            return block(st.body, en)
        if isinstance(st, (ast.FunctionDef, ast.AsyncFunctionDef, ast.ClassDef, ast.Pass, ast.Import, ast.ImportFrom, ast.Global, ast.Nonlocal)):
            return [env]
        if isinstance(st, (ast.Break, ast.Continue)):
            exits.append(("continue" if isinstance(st, ast.Continue) else "break", st, env))
            return []
        if isinstance(st, ast.Assert):
            return [en for en, t in truth(st.test, env) if t]
        if isinstance(st, ast.Delete):
            return [env]
        raise ValueError("walk_under: unsupported statement %s" % type(st).__name__)

    for en in block(fn_node.body, {}):
        exits.append(("end", None, en))
    return evaluated, exits


def path_value(stmts, upto, expr, atoms):
    """Value expression that ``expr`` denotes at statement ``upto`` on the execution
    whose simple statements are ``stmts`` (in order): local names are replaced by the
    expression last assigned to them on *this* path, conditional expressions are
    decided by the path's atoms."""
    defs = {}
    for st in stmts:
        if st is upto:
            break
        if isinstance(st, ast.Assign) and len(st.targets) == 1 and isinstance(st.targets[0], ast.Name):
            defs[st.targets[0].id] = st.value
        elif isinstance(st, ast.AnnAssign) and isinstance(st.target, ast.Name) and st.value is not None:
            defs[st.target.id] = st.value
    v = expr
    for _ in range(12):
        if isinstance(v, ast.IfExp):
            try:
                v = v.body if evaluate(v.test, atoms) else v.orelse
                continue
            except KeyError:
                break
        if isinstance(v, ast.Name) and v.id in defs:
            v = defs[v.id]
            continue
        break
    return v


def body_function(stmts, name="_body"):
    """Wrap a statement list (a loop body, a branch) as a function node for walk_under."""
    return ast.FunctionDef(name=name, args=ast.arguments(posonlyargs=[], args=[], kwonlyargs=[], kw_defaults=[], defaults=[]),
                           body=list(stmts), decorator_list=[], lineno=getattr(stmts[0], "lineno", 0), col_offset=0)


def truths_of(expr, decide):
    """Set of truth values ``expr`` can take on executions consistent with ``decide``."""
    fn = body_function([ast.If(test=expr, body=[ast.Return(value=ast.Constant(value=True))], orelse=[]),
                        ast.Return(value=ast.Constant(value=False))])
    ast.fix_missing_locations(fn)
    _ev, exits = walk_under(fn, decide)
    return {st.value.value for kind, st, env in exits if kind == "return"}


def returned_truths(fn_node, decide):
    """Set of truth values a predicate function can return on executions consistent with ``decide`` ('raise' if it can raise)."""
    _ev, exits = walk_under(fn_node, decide)
    out = set()
    for kind, st, env in exits:
        if kind == "raise":
            out.add("raise")
        elif kind == "return":
            if st.value is None:
                out.add(False)
                continue
            atoms = {a: b for a, b in env.items() if a not in META}
            v = path_value(env.get(STMTS, ()), st, st.value, atoms)
            # a local naming a call-free test (`same = a == b`) stands for that test inside the returned expression as well
            tests_ = {}
            for x in env.get(STMTS, ()):
                if x is st:
                    break
                if isinstance(x, ast.Assign) and len(x.targets) == 1 and isinstance(x.targets[0], ast.Name):
                    if isinstance(x.value, (ast.Compare, ast.BoolOp)) and not any(isinstance(c, ast.Call) for c in ast.walk(x.value)):
                        tests_[x.targets[0].id] = x.value
                    else:
                        tests_.pop(x.targets[0].id, None)
            if tests_ and any(isinstance(n, ast.Name) and n.id in tests_ for n in ast.walk(v)):
                class _T(ast.NodeTransformer):
                    def visit_Name(self, node):
                        if isinstance(node.ctx, ast.Load) and node.id in tests_:
                            return _clone_expr(tests_[node.id])
                        return node
                v = ast.fix_missing_locations(_T().visit(_clone_expr(v)))

            def inner(t, atoms=atoms):
                return atoms[t] if t in atoms else decide(t)
            out |= truths_of(v, inner)
        else:
            out.add(False)
    return out


def path_expand(stmts, upto, expr, atoms, depth=6):
    """Like path_value, and additionally every local name *inside* the resulting expression is replaced by the
    expression last assigned to it on this execution (bounded): `return K(inner)` after `inner = f(x.type)` denotes
    `K(f(x.type))` even when `inner` is assigned on several branches."""
    import copy
    defs = {}
    for st in stmts:
        if st is upto:
            break
        if isinstance(st, ast.Assign) and len(st.targets) == 1 and isinstance(st.targets[0], ast.Name):
            defs[st.targets[0].id] = st.value
        elif isinstance(st, ast.AnnAssign) and isinstance(st.target, ast.Name) and st.value is not None:
            defs[st.target.id] = st.value

    def rec(e, d):
        e = path_value(stmts, upto, e, atoms)

        class T(ast.NodeTransformer):
            def visit_Name(self, node):
                if isinstance(node.ctx, ast.Load) and node.id in defs and d > 0:
                    return rec(defs[node.id], d - 1)
                return node

            def visit_Lambda(self, node):
                return node

            def visit_IfExp(self, node):
                try:
                    return self.visit(copy.deepcopy(node.body if evaluate(node.test, atoms) else node.orelse))
                except KeyError:
                    return self.generic_visit(node)
        return T().visit(copy.deepcopy(e))
    return ast.fix_missing_locations(rec(expr, depth))


def _clone_expr(node):
    if isinstance(node, list):
        return [_clone_expr(x) for x in node]
    if not isinstance(node, ast.AST):
        return node
    new = node.__class__()
    for field, val in ast.iter_fields(node):
        setattr(new, field, _clone_expr(val))
    for attr in ("lineno", "col_offset", "end_lineno", "end_col_offset"):
        if hasattr(node, attr):
            setattr(new, attr, getattr(node, attr))
    return new


def path_env(stmts, upto=None):
    """Static-single-assignment reading of one execution: name -> expression (over the function's inputs) that the
    name holds just before statement ``upto`` (at the end of the path when None).  Unlike path_value / path_expand a
    re-definition in terms of the old value (`t = t.type`) is substituted with the value *before* it, so the result
    is exact for the path.  Names assigned by anything but a simple `name = expr` become opaque (`$name@line`)."""
    env = {}
    for st in stmts:
        if st is upto:
            break
        if isinstance(st, ast.Assign) and len(st.targets) == 1 and isinstance(st.targets[0], ast.Name):
            env[st.targets[0].id] = path_subst(st.value, env)
        elif isinstance(st, ast.AnnAssign) and isinstance(st.target, ast.Name) and st.value is not None:
            env[st.target.id] = path_subst(st.value, env)
        elif isinstance(st, ast.Assign) and len(st.targets) == 1 and isinstance(st.targets[0], (ast.Tuple, ast.List)) \
                and isinstance(st.value, (ast.Tuple, ast.List)) and len(st.targets[0].elts) == len(st.value.elts) \
                and all(isinstance(t, ast.Name) for t in st.targets[0].elts):
            vals = [path_subst(v, env) for v in st.value.elts]       # `a, b = x, y`: right-hand sides first, then the bindings
            for t, v in zip(st.targets[0].elts, vals):
                env[t.id] = v
        elif isinstance(st, (ast.Assign, ast.AugAssign, ast.AnnAssign, ast.For, ast.AsyncFor, ast.With, ast.AsyncWith)):
            for n in ast.walk(st):
                if isinstance(n, ast.Name) and isinstance(n.ctx, ast.Store):
                    env[n.id] = ast.Name(id="$%s@%d" % (n.id, getattr(st, "lineno", 0)), ctx=ast.Load())
    return env


def path_subst(expr, env):
    """expr with every local of env replaced by its path value (comprehension / lambda variables are left alone)."""
    bound = set()
    for n in ast.walk(expr):
        if isinstance(n, ast.comprehension):
            bound |= {x.id for x in ast.walk(n.target) if isinstance(x, ast.Name)}
        elif isinstance(n, ast.Lambda):
            bound |= {a.arg for a in n.args.posonlyargs + n.args.args + n.args.kwonlyargs}

    class T(ast.NodeTransformer):
        def visit_Name(self, node):
            if isinstance(node.ctx, ast.Load) and node.id in env and node.id not in bound:
                return _clone_expr(env[node.id])
            return node
    return ast.fix_missing_locations(T().visit(_clone_expr(expr)))


def at_least_once(stmts):
    """The statements with every `for` loop read as exactly one iteration (header expression, then the body): for rules about
    what happens for a member of a collection known to be non-empty."""
    out = []
    for st in stmts:
        if isinstance(st, (ast.For, ast.AsyncFor)):
            out.append(ast.copy_location(ast.Expr(value=st.iter), st))
            out.extend(at_least_once(st.body))
        elif isinstance(st, ast.If):
            out.append(ast.copy_location(ast.If(test=st.test, body=at_least_once(st.body) or [ast.Pass()], orelse=at_least_once(st.orelse)), st))
        else:
            out.append(st)
    return out
