"""Abstract boolean evaluation of Python expressions.

``atoms(expr)`` lists the maximal non-boolean sub-expressions (by unparse text);
``evaluate(expr, env)`` evaluates ``and/or/not/IfExp`` structure over an
assignment of atoms to truth values.  ``inline_locals`` substitutes
single-assignment local variables so that a function's returned condition can be
tabulated over the atoms it ultimately depends on.  Used by rules that compare a
condition with a reference truth table (robust to De-Morgan style rewrites).
"""
import ast
import itertools


def _is_bool_struct(e):
    return isinstance(e, ast.BoolOp) or (isinstance(e, ast.UnaryOp) and isinstance(e.op, ast.Not)) or isinstance(e, ast.IfExp)


def text(e):
    return " ".join(ast.unparse(e).split())


def atoms(e, out=None):
    if out is None:
        out = []
    if isinstance(e, ast.BoolOp):
        for v in e.values:
            atoms(v, out)
    elif isinstance(e, ast.UnaryOp) and isinstance(e.op, ast.Not):
        atoms(e.operand, out)
    elif isinstance(e, ast.IfExp):
        atoms(e.test, out)
        atoms(e.body, out)
        atoms(e.orelse, out)
    elif isinstance(e, ast.Constant):
        pass
    elif isinstance(e, ast.Compare) and len(e.ops) > 1:
        # a < b < c  ==  (a < b) and (b < c)
        left = e.left
        for op, right in zip(e.ops, e.comparators):
            atoms(ast.Compare(left=left, ops=[op], comparators=[right]), out)
            left = right
    else:
        t = canonical_atom(e)[0]
        if t not in out:
            out.append(t)
    return out


_NEG = {ast.NotEq: ast.Eq, ast.IsNot: ast.Is, ast.NotIn: ast.In}


def canonical_atom(e):
    """Return (text, negated): ``a != b`` is the negation of atom ``a == b``."""
    if isinstance(e, ast.Compare) and len(e.ops) == 1 and type(e.ops[0]) in _NEG:
        pos = ast.Compare(left=e.left, ops=[_NEG[type(e.ops[0])]()], comparators=e.comparators)
        return text(pos), True
    return text(e), False


def evaluate(e, env):
    """env: atom text -> bool.  Missing atom raises KeyError."""
    if isinstance(e, ast.BoolOp):
        if isinstance(e.op, ast.And):
            return all(evaluate(v, env) for v in e.values)
        return any(evaluate(v, env) for v in e.values)
    if isinstance(e, ast.UnaryOp) and isinstance(e.op, ast.Not):
        return not evaluate(e.operand, env)
    if isinstance(e, ast.IfExp):
        return evaluate(e.body, env) if evaluate(e.test, env) else evaluate(e.orelse, env)
    if isinstance(e, ast.Constant):
        return bool(e.value)
    if isinstance(e, ast.Compare) and len(e.ops) > 1:
        left = e.left
        for op, right in zip(e.ops, e.comparators):
            if not evaluate(ast.Compare(left=left, ops=[op], comparators=[right]), env):
                return False
            left = right
        return True
    t, neg = canonical_atom(e)
    v = env[t]
    return (not v) if neg else v


def table(e, atom_names=None):
    """Full truth table: list of (assignment dict, value)."""
    names = atom_names or atoms(e)
    rows = []
    for vals in itertools.product([False, True], repeat=len(names)):
        env = dict(zip(names, vals))
        rows.append((env, evaluate(e, env)))
    return names, rows


class Subst(ast.NodeTransformer):
    def __init__(self, mapping):
        self.mapping = mapping

    def visit_Name(self, node):
        if isinstance(node.ctx, ast.Load) and node.id in self.mapping:
            return self.mapping[node.id]
        return node


def inline_locals(fn, expr, exclude=()):
    """Substitute names assigned exactly once in ``fn`` (top-level simple
    assignments preceding use) into ``expr``, repeatedly."""
    assigns = {}
    counts = {}
    for n in ast.walk(fn):
        if isinstance(n, ast.Assign) and len(n.targets) == 1 and isinstance(n.targets[0], ast.Name):
            counts[n.targets[0].id] = counts.get(n.targets[0].id, 0) + 1
            assigns[n.targets[0].id] = n.value
        elif isinstance(n, (ast.AugAssign, ast.AnnAssign, ast.For, ast.NamedExpr)):
            t = getattr(n, "target", None)
            for x in ast.walk(t) if t is not None else []:
                if isinstance(x, ast.Name):
                    counts[x.id] = counts.get(x.id, 0) + 2
    mapping = {k: v for k, v in assigns.items() if counts.get(k) == 1 and k not in exclude}
    import copy
    cur = copy.deepcopy(expr)
    for _ in range(8):
        new = Subst({k: copy.deepcopy(v) for k, v in mapping.items()}).visit(copy.deepcopy(cur))
        if ast.dump(new) == ast.dump(cur):
            break
        cur = new
    return ast.fix_missing_locations(cur)
