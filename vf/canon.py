"""Name-independent view of a function's expressions.

Rules that ask "what flows into this call" must not depend on how the code names
its temporaries.  ``Canon(fn)`` rewrites an expression taken from ``fn`` (or from a
function nested in it) into a canonical form:

* a local assigned exactly once (anywhere in ``fn``, nested functions included — a
  closure variable is a local of the enclosing function) is replaced by the
  expression it was assigned, repeatedly;
* a name bound by ``except ... as e`` becomes ``$exc``;
* a parameter of a *nested* function becomes ``$p<i>`` (its position);
* parameters of ``fn`` itself, globals and attributes are kept.

The result says what value an expression denotes in terms of the function's inputs.
It does **not** say when it is evaluated: ordering rules use the flow engines.
"""
import ast
import copy


def _targets(t, out):
    if isinstance(t, ast.Name):
        out.append(t.id)
    elif isinstance(t, (ast.Tuple, ast.List)):
        for e in t.elts:
            _targets(e, out)
    elif isinstance(t, ast.Starred):
        _targets(t.value, out)


class Canon:
    def __init__(self, fn_node):
        self.fn = fn_node
        counts = {}
        values = {}

        def bump(name, k=1):
            counts[name] = counts.get(name, 0) + k

        self.parent = {}
        for n in ast.walk(fn_node):
            for ch in ast.iter_child_nodes(n):
                self.parent[ch] = n
        for a in _all_params(fn_node):
            bump(a, 2)
        for n in ast.walk(fn_node):
            if isinstance(n, ast.Assign):
                for t in n.targets:
                    names = []
                    _targets(t, names)
                    single = len(n.targets) == 1 and isinstance(t, ast.Name)
                    for nm in names:
                        bump(nm, 1 if single else 2)
                        if single:
                            values[nm] = n.value
            elif isinstance(n, (ast.AugAssign, ast.AnnAssign, ast.For, ast.AsyncFor, ast.NamedExpr, ast.comprehension)):
                names = []
                _targets(getattr(n, "target", None), names)
                if isinstance(n, ast.AnnAssign) and n.value is not None and isinstance(n.target, ast.Name):
                    bump(n.target.id, 1)
                    values[n.target.id] = n.value
                else:
                    for nm in names:
                        bump(nm, 2)
            elif isinstance(n, (ast.With, ast.AsyncWith)):
                for it in n.items:
                    names = []
                    _targets(it.optional_vars, names) if it.optional_vars is not None else None
                    for nm in names:
                        bump(nm, 2)
            elif isinstance(n, ast.ExceptHandler) and n.name:
                bump(n.name, 2)
            elif isinstance(n, (ast.FunctionDef, ast.AsyncFunctionDef, ast.Lambda)) and n is not fn_node:
                for a in _all_params(n):
                    bump(a, 2)
            elif isinstance(n, (ast.Global, ast.Nonlocal)):
                for nm in n.names:
                    bump(nm, 2)
        # a local bound to a fresh mutable object (a container display, a container/future constructor) names that
        # *object*: it is kept as a name, not replaced by the expression that created it
        self.single = {k: v for k, v in values.items() if counts.get(k) == 1 and not _fresh_object(v)}

    # -- binding context of a Name occurrence in the original tree
    def _binder(self, name_node):
        cur = name_node
        while cur in self.parent:
            cur = self.parent[cur]
            if isinstance(cur, ast.ExceptHandler) and cur.name == name_node.id:
                return "$exc"
            if isinstance(cur, (ast.FunctionDef, ast.AsyncFunctionDef, ast.Lambda)):
                if cur is self.fn:
                    return None
                ps = _all_params(cur)
                if name_node.id in ps:
                    return "$p%d" % ps.index(name_node.id)
        return None

    def expr(self, e, _depth=0):
        """Canonical copy of ``e`` (``e`` must be a node of the original tree)."""
        canon = self

        class T(ast.NodeTransformer):
            def visit_Name(self, node):
                if not isinstance(node.ctx, ast.Load):
                    return node
                b = canon._binder(node)
                if b is not None:
                    return ast.copy_location(ast.Name(id=b, ctx=ast.Load()), node)
                v = canon.single.get(node.id)
                if v is not None and _depth < 12:
                    out = canon.expr(v, _depth + 1)
                    return out
                return node

            def visit_Lambda(self, node):
                return node

        # the transformer needs original nodes (for parents): visit without copying, on a shallow rebuild
        return _rebuild(e, T())

    def text(self, e):
        return " ".join(ast.unparse(self.expr(e)).split())

    def func_text(self, call):
        return self.text(call.func)


_FRESH_CTORS = {"list", "dict", "set", "OrderedDict", "defaultdict", "deque", "Future", "bytearray", "object"}


def _fresh_object(v):
    if isinstance(v, (ast.List, ast.Dict, ast.Set, ast.ListComp, ast.DictComp, ast.SetComp, ast.GeneratorExp)):
        return True
    if isinstance(v, ast.Call):
        f = v.func
        name = f.id if isinstance(f, ast.Name) else (f.attr if isinstance(f, ast.Attribute) else None)
        return name in _FRESH_CTORS
    return False


def _rebuild(node, tr):
    """Apply ``tr.visit_Name`` bottom-up, building new parents but passing *original*
    Name nodes to the transformer (so parent links work)."""
    if isinstance(node, ast.Name):
        return tr.visit_Name(node)
    if isinstance(node, ast.Lambda):
        return node
    new = copy.copy(node)
    for field, old in ast.iter_fields(node):
        if isinstance(old, list):
            setattr(new, field, [_rebuild(x, tr) if isinstance(x, ast.AST) else x for x in old])
        elif isinstance(old, ast.AST):
            setattr(new, field, _rebuild(old, tr))
    return new


def _all_params(fn):
    a = fn.args
    out = [x.arg for x in list(getattr(a, "posonlyargs", [])) + list(a.args)]
    if a.vararg:
        out.append(a.vararg.arg)
    out += [x.arg for x in a.kwonlyargs]
    if a.kwarg:
        out.append(a.kwarg.arg)
    return out


def calls(expr):
    return [n for n in ast.walk(expr) if isinstance(n, ast.Call)]


def attr_call(n, attr):
    return isinstance(n, ast.Call) and isinstance(n.func, ast.Attribute) and n.func.attr == attr


def inline_simple_call(prog, fi, call, depth=0):
    """If ``call`` (an expression in canonical form, from function ``fi``) invokes a plain function of the program whose
    body, in canonical form, is a single returned expression, return that expression with the parameters replaced by
    the call's arguments (recursively, bounded); otherwise None.  Used by value-flow rules to see through small
    extracted helpers (``self.add_error(_make_error(nodes, path))``)."""
    if not isinstance(call, ast.Call) or depth > 2:
        return None
    try:
        cal = prog.resolve_call(fi, call)
    except Exception:
        return None
    cal = [c for c in (cal or []) if hasattr(c, "node") and isinstance(c.node, (ast.FunctionDef,))]
    if len(cal) != 1:
        return None
    f = cal[0]
    if getattr(f, "cls", None) is not None and f.name == "__init__":
        return None
    rets = [n for n in ast.walk(f.node) if isinstance(n, ast.Return)]
    own = [n for n in f.node.body if not (isinstance(n, ast.Expr) and isinstance(n.value, ast.Constant))]
    if len(rets) != 1 or rets[0].value is None or any(isinstance(n, (ast.If, ast.For, ast.While, ast.Try, ast.With)) for n in own):
        return None
    params = _all_params(f.node)
    if getattr(f, "cls", None) is not None:
        params = params[1:]
    if call.keywords and any(k.arg is None for k in call.keywords):
        return None
    binding = {}
    for p, a in zip(params, call.args):
        binding[p] = a
    for k in call.keywords:
        if k.arg in params:
            binding[k.arg] = k.value
    if set(binding) != set(params):
        return None
    body = Canon(f.node).expr(rets[0].value)

    class S(ast.NodeTransformer):
        def visit_Name(self, node):
            if isinstance(node.ctx, ast.Load) and node.id in binding:
                return copy.deepcopy(binding[node.id])
            return node
    out = S().visit(copy.deepcopy(body))
    nested = inline_simple_call(prog, f, out, depth + 1) if isinstance(out, ast.Call) else None
    return nested if nested is not None else out
