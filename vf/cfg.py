"""E1 — structured control-flow interpretation with finite typestate.

``Flow`` pushes a *set of abstract states* through the statements of a function
(if/while/for/try-except-else-finally/with/return/raise/break/continue), joining
by set union and iterating loops to a fixpoint, so every CFG path (including
exceptional edges into handlers and out of the function) is covered as long as
the state domain is finite.  Exception edges leave a statement with the state
``on_raise(pre_state, stmt)`` (default: the pre-state).
"""
import ast

from .model import AnalysisError

ANY = "*"


class Result:
    def __init__(self):
        self.normal = set()     # states falling off the end
        self.returns = set()    # (state, id of return stmt)
        self.raises = set()     # (state, lineno, exc label)
        self.return_nodes = {}

    def all_normal_exits(self):
        return set(self.normal) | {s for s, _ in self.returns}


class _Out:
    __slots__ = ("normal", "returns", "raises", "breaks", "continues")

    def __init__(self):
        self.normal = set()
        self.returns = set()
        self.raises = set()
        self.breaks = set()
        self.continues = set()

    def merge(self, o, normal=True):
        if normal:
            self.normal |= o.normal
        self.returns |= o.returns
        self.raises |= o.raises
        self.breaks |= o.breaks
        self.continues |= o.continues


class Flow:
    def __init__(self, transfer, may_raise=None, refine=None, on_raise=None, catches=None, max_states=4000):
        """transfer(state, node, kind) -> iterable of states; kind in
        'stmt' (simple statement), 'test' (branch condition), 'iter' (for header),
        'def' (nested function/class definition statement).
        may_raise(node) -> falsy | set of labels | ANY.
        refine(state, test, truth) -> state | None.
        catches(handler_names, label) -> 'yes' | 'no' | 'maybe'."""
        self.transfer = transfer
        self.may_raise = may_raise or default_may_raise
        self.refine = refine or (lambda s, t, truth: s)
        self.on_raise = on_raise or (lambda s, n, label: s)
        self.catches = catches or default_catches
        self.max_states = max_states

    def run(self, fn_node, init_states):
        body = fn_node.body if not isinstance(fn_node, ast.Lambda) else [ast.Return(value=fn_node.body, lineno=fn_node.lineno, col_offset=0)]
        out = self._block(body, set(init_states))
        res = Result()
        res.normal = out.normal
        res.returns = out.returns
        res.raises = out.raises
        if out.breaks or out.continues:
            if getattr(fn_node, "_loop_body", False):
                res.normal = res.normal | out.breaks | out.continues
            else:
                raise AnalysisError("break/continue outside loop")
        return res

    # -- helpers
    def _tf(self, states, node, kind):
        out = set()
        for s in states:
            for t in self.transfer(s, node, kind):
                out.add(t)
        if len(out) > self.max_states:
            raise AnalysisError("typestate explosion (%d states) at line %s" % (len(out), getattr(node, "lineno", "?")))
        return out

    def _raise_edges(self, states, node, out):
        labels = self.may_raise(node)
        if not labels:
            return
        if labels == ANY:
            labels = {ANY}
        for s in states:
            for l in labels:
                rs = self.on_raise(s, node, l)
                for r1 in (rs if isinstance(rs, list) else [rs]):
                    out.raises.add((r1, getattr(node, "lineno", 0), l))

    def _block(self, stmts, states):
        out = _Out()
        cur = states
        for st in stmts:
            if not cur:
                break
            o = self._stmt(st, cur)
            out.merge(o, normal=False)
            cur = o.normal
        out.normal = cur
        return out

    def _branch(self, test, states):
        t_in, f_in = set(), set()
        for s in states:
            a = self.refine(s, test, True)
            if a is not None:
                t_in.add(a)
            b = self.refine(s, test, False)
            if b is not None:
                f_in.add(b)
        return t_in, f_in

    def _stmt(self, st, states):
        out = _Out()
        if isinstance(st, (ast.FunctionDef, ast.AsyncFunctionDef, ast.ClassDef)):
            out.normal = self._tf(states, st, "def")
            return out
        if isinstance(st, ast.If):
            self._raise_edges(states, st.test, out)
            after = self._tf(states, st.test, "test")
            t_in, f_in = self._branch(st.test, after)
            o1 = self._block(st.body, t_in)
            o2 = self._block(st.orelse, f_in)
            out.merge(o1)
            out.merge(o2)
            return out
        if isinstance(st, (ast.While, ast.For, ast.AsyncFor)):
            is_while = isinstance(st, ast.While)
            head = set(states)
            seen_head = set()
            exits = set()
            rounds = 0
            while True:
                new = head - seen_head
                if not new:
                    break
                rounds += 1
                if rounds > 200:
                    raise AnalysisError("loop fixpoint did not converge at line %d" % st.lineno)
                seen_head |= new
                hdr = st.test if is_while else st.iter
                self._raise_edges(new, hdr, out)
                after = self._tf(new, hdr, "test" if is_while else "iter")
                if is_while:
                    t_in, f_in = self._branch(st.test, after)
                    always = isinstance(st.test, ast.Constant) and bool(st.test.value)
                    if always:
                        f_in = set()
                else:
                    t_in, f_in = set(after), set(after)
                exits |= f_in
                ob = self._block(st.body, t_in)
                out.returns |= ob.returns
                out.raises |= ob.raises
                exits_break = ob.breaks
                head = head | ob.normal | ob.continues
                out.normal |= exits_break
            oe = self._block(st.orelse, exits)
            out.merge(oe)
            return out
        if isinstance(st, ast.Try):
            ob = self._block(st.body, states)
            pending = _Out()
            pending.returns |= ob.returns
            pending.breaks |= ob.breaks
            pending.continues |= ob.continues
            # exceptions from the body: route to handlers
            for (s, line, label) in ob.raises:
                caught_surely = False
                for h in st.handlers:
                    names = handler_names(h)
                    c = self.catches(names, label)
                    if c in ("yes", "maybe"):
                        hs = {self.transfer_handler(s, h, label)}
                        oh = self._block(h.body, hs)
                        pending.merge(oh)
                    if c == "yes":
                        caught_surely = True
                        break
                if not caught_surely:
                    pending.raises.add((s, line, label))
            oe = self._block(st.orelse, ob.normal)
            pending.merge(oe)
            if st.finalbody:
                # run finally on every outgoing flow
                res = _Out()
                of = self._block(st.finalbody, pending.normal)
                res.merge(of)
                for (s, rid) in pending.returns:
                    o = self._block(st.finalbody, {s})
                    res.returns |= {(t, rid) for t in o.normal}
                    res.returns |= o.returns
                    res.raises |= o.raises
                for (s, line, label) in pending.raises:
                    o = self._block(st.finalbody, {s})
                    res.raises |= {(t, line, label) for t in o.normal}
                    res.returns |= o.returns
                    res.raises |= o.raises
                for s in pending.breaks:
                    o = self._block(st.finalbody, {s})
                    res.breaks |= o.normal
                for s in pending.continues:
                    o = self._block(st.finalbody, {s})
                    res.continues |= o.normal
                return res
            return pending
        if isinstance(st, (ast.With, ast.AsyncWith)):
            cur = states
            for item in st.items:
                self._raise_edges(cur, item.context_expr, out)
                cur = self._tf(cur, item.context_expr, "stmt")
            ob = self._block(st.body, cur)
            out.merge(ob)
            return out
        if isinstance(st, ast.Return):
            self._raise_edges(states, st, out)
            after = self._tf(states, st, "stmt")
            out.returns |= {(s, id(st)) for s in after}
            return out
        if isinstance(st, ast.Raise):
            after = self._tf(states, st, "stmt")
            label = raise_label(st)
            for s in after:
                out.raises.add((s, st.lineno, label))
            return out
        if isinstance(st, ast.Break):
            out.breaks |= states
            return out
        if isinstance(st, ast.Continue):
            out.continues |= states
            return out
        if isinstance(st, ast.Match):
            raise AnalysisError("match statement not supported by the flow engine")
        # simple statement
        self._raise_edges(states, st, out)
        out.normal = self._tf(states, st, "stmt")
        return out

    def transfer_handler(self, state, handler, label):
        """State on entry of an except handler (hook: default identity)."""
        for t in self.transfer(state, handler, "handler"):
            return t
        return state


def handler_names(h):
    if h.type is None:
        return ["BaseException"]
    ts = h.type.elts if isinstance(h.type, ast.Tuple) else [h.type]
    out = []
    for t in ts:
        out.append(t.attr if isinstance(t, ast.Attribute) else (t.id if isinstance(t, ast.Name) else ast.unparse(t)))
    return out


def raise_label(st):
    e = st.exc
    if e is None:
        return "reraise"
    if isinstance(e, ast.Call):
        e = e.func
    if isinstance(e, ast.Attribute):
        return e.attr
    if isinstance(e, ast.Name):
        return e.id
    return ANY


def default_may_raise(node):
    """Anything containing a call, subscript or attribute access may raise."""
    for n in ast.walk(node):
        if isinstance(n, (ast.Call, ast.Subscript, ast.Await, ast.Yield, ast.YieldFrom)):
            return ANY
    return None


def calls_only_may_raise(node):
    for n in ast.walk(node):
        if isinstance(n, (ast.Call, ast.Await)):
            return ANY
    return None


def default_catches(names, label):
    if any(n in ("BaseException", "Exception") for n in names):
        return "yes"
    if label in (ANY, "reraise"):
        return "maybe"
    return "yes" if label in names else "maybe"


def make_catches(universe):
    """Class-hierarchy aware handler matching using an ExcUniverse."""
    def catches(names, label):
        if label in (ANY, "reraise"):
            return "yes" if any(n in ("BaseException",) for n in names) else (
                "yes" if "Exception" in names and label == ANY and False else "maybe")
        if any(universe.is_subclass(label, n) for n in names):
            return "yes"
        if any(universe.is_subclass(n, label) for n in names):
            return "maybe"
        return "no"
    return catches


# --------------------------------------------------------------------------
# Event-sequence typestate: the state is the tuple of events seen so far.

def none_test(test):
    """(var, truth-means-not-None) for `x is None` / `x is not None` / `x` / `not x` tests on a simple name."""
    if isinstance(test, ast.Compare) and len(test.ops) == 1 and isinstance(test.left, ast.Name) \
            and isinstance(test.comparators[0], ast.Constant) and test.comparators[0].value is None:
        if isinstance(test.ops[0], ast.IsNot):
            return test.left.id, True
        if isinstance(test.ops[0], ast.Is):
            return test.left.id, False
    return None


def event_paths(fn_node, event_of, branch_event=None, cap=10, may_raise=None, body=None, raising_events=None):
    """Event sequences over all paths.  Returns (normal, raised): sets of tuples.

    * ``event_of(node)`` maps an AST node to an event name or None (nodes are
      visited in evaluation order inside each simple statement / condition).
    * an event whose statement raises into a handler is recorded as ``ev!``
      followed by ``H:<handler classes>``.
    * ``branch_event(test, truth)`` may return an event recorded when a branch
      is taken.
    * nullness of simple names compared with None is tracked (correlated tests).
    * ``raised``: sequences of paths leaving through an exception, each ending
      in ``raise:<label>`` (label = class name, ``reraise`` or ``*``).
    """
    def events_in(node):
        evs = []
        for n in _postorder(node):
            e = event_of(n)
            if e:
                evs.append(e)
        return evs

    def kill(nulls, node):
        killed = set()
        for n in ast.walk(node):
            if isinstance(n, ast.Name) and isinstance(n.ctx, ast.Store):
                killed.add(n.id)
        if not killed:
            return nulls
        out = set((v, k) for v, k in nulls if v not in killed)
        if isinstance(node, ast.Assign) and len(node.targets) == 1 and isinstance(node.targets[0], ast.Name) \
                and isinstance(node.value, ast.Constant) and node.value.value is None:
            out.add((node.targets[0].id, "none"))
        return frozenset(out)

    def clean(seq):
        return [e for e in seq if not e.startswith("?")]

    def transfer(state, node, kind):
        seq0, nulls = state
        if kind == "def":
            return [state]
        if kind == "handler":
            seq = list(seq0)
            pend = [e[1:] + "!" for e in seq if e.startswith("?")]
            seq = clean(seq) + pend + ["H:" + "|".join(handler_names(node))]
            return [(tuple(seq[:cap]), nulls)]
        seq = clean(seq0)
        evs = events_in(node)
        return [(tuple((seq + evs)[:cap]), kill(nulls, node))]

    def on_raise(state, node, label):
        seq0, nulls = state
        evs = events_in(node)
        seq = clean(seq0)
        # any event of the raising statement may be the raiser: earlier ones completed
        if evs:
            ks = [k for k in range(len(evs)) if raising_events is None or evs[k] in raising_events]
            if ks:
                return [(tuple((seq + evs[:k] + ["?" + evs[k]])[:cap]), nulls) for k in ks]
            return (tuple(seq + evs[:0]), nulls)
        return (tuple(seq), nulls)

    def refine(state, test, truth):
        seq, nulls = state
        nt = none_test(test)
        if nt is not None:
            var, means_notnone = nt
            val = "notnone" if (means_notnone == truth) else "none"
            d = dict(nulls)
            if var in d and d[var] != val:
                return None
            d[var] = val
            nulls = frozenset(d.items())
        if branch_event is not None:
            ev = branch_event(test, truth)
            if ev:
                seq = tuple((clean(seq) + [ev])[:cap])
        return (seq, nulls)

    fl = Flow(transfer, may_raise=may_raise or calls_only_may_raise, on_raise=on_raise, refine=refine)
    if body is not None:
        wrapper = ast.FunctionDef(name="_", args=None, body=body, decorator_list=[], lineno=getattr(body[0], "lineno", 0), col_offset=0)
        wrapper._loop_body = True
        res = fl.run(wrapper, {((), frozenset())})
    else:
        res = fl.run(fn_node, {((), frozenset())})
    normal, raised = set(), set()
    for s, _n in res.all_normal_exits():
        normal.add(tuple(clean(s)))
    for (s, _n), line, label in res.raises:
        pend = [e[1:] + "!" for e in s if e.startswith("?")]
        raised.add(tuple(clean(s) + pend + ["raise:%s" % label]))
    return normal, raised


def paths_events(fn_node, event_of, handler_of=None, cap=8, may_raise=None):
    """Backward compatible view of event_paths: normal-exit sequences where an
    event that raised into a handler of a class listed in ``handler_of`` is
    shown as ``ev!Class`` and handler markers are dropped."""
    handler_of = handler_of or {}
    normal, _ = event_paths(fn_node, event_of, cap=cap + 4, may_raise=may_raise)
    out = set()
    for seq in normal:
        res = []
        i = 0
        seq = list(seq)
        while i < len(seq):
            e = seq[i]
            if e.endswith("!") and i + 1 < len(seq) and seq[i + 1].startswith("H:"):
                names = seq[i + 1][2:].split("|")
                hit = [n for n in names if handler_of.get(n) == e[:-1]]
                res.append("%s!%s" % (e[:-1], hit[0]) if hit else e[:-1])
                i += 2
                continue
            if not e.startswith("H:"):
                res.append(e)
            i += 1
        out.add(tuple(res[:cap]))
    return out


def _postorder(node):
    """Children before parents, not entering nested function bodies.  Only
    simple statements and expressions are ever passed here."""
    for ch in ast.iter_child_nodes(node):
        if isinstance(ch, (ast.FunctionDef, ast.AsyncFunctionDef, ast.Lambda, ast.ClassDef)):
            continue
        for x in _postorder(ch):
            yield x
    yield node
