"""What MANIFEST.json says about each property (kept next to the rules)."""

NOTES = (
    "Static analysis only: every check parses /repo/src/py_gql on each run and decides structural clauses of the "
    "property (listed per property in DESIGN.md §3); none decides the behaviour for all inputs. exit 2 + "
    "ANALYSIS-ERROR means the analysis could not run (anchor vanished / unsupported idiom), never a silent pass."
)

COMMON_NOTE = (
    "Trusted base: CPython's ast parser, the rule implementations in /verif/vf, the hand-written reference tables "
    "in /verif/vf/spec. Decides only the structural clauses named in the text; semantic correctness for all inputs "
    "is not decided (DESIGN.md §6)."
)

CLAIMS = {
    "C19": {
        "text": "Decides structural necessary conditions of depth limiting on the current source: no max()/min() over a "
                "possibly empty iterable on the measurement path (flat operations cannot raise), every class dispatch over "
                "selection lists in the depth walk covers Field/FragmentSpread/InlineFragment, the operation_name filter has "
                "the specified truth table and precedes measurement, and every member of a merged response-key group is "
                "descended into. Does not decide that the measured number equals the nesting depth for all documents.",
        "note": COMMON_NOTE,
        "technique": "ast dispatch-exhaustiveness, truth-table evaluation of the filter condition, call-graph reachability",
    },
}
