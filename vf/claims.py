"""What MANIFEST.json says about each property (kept next to the rules)."""

NOTES = (
    "Static analysis only: every check parses /repo/src/py_gql on each run and decides structural clauses of the "
    "property (listed per property in DESIGN.md §3); none decides the behaviour for all inputs. exit 2 + "
    "ANALYSIS-ERROR means the analysis could not run (anchor vanished / unsupported idiom), never a silent pass."
)

COMMON_NOTE = (
    "Trusted base: CPython's ast parser, the rule implementations in /verif/vf, the hand-written reference tables "
    "in /verif/vf/spec. Decides only the structural clauses named in the text; semantic correctness for all inputs "
    "is not decided (DESIGN.md §6)."
)

CLAIMS = {
    "C19": {
        "text": "Decides structural necessary conditions of depth limiting on the current source: no max()/min() over a "
                "possibly empty iterable on the measurement path (flat operations cannot raise), every class dispatch over "
                "selection lists in the depth walk covers Field/FragmentSpread/InlineFragment, the operation_name filter has "
                "the specified truth table and precedes measurement, and every member of a merged response-key group is "
                "descended into. Does not decide that the measured number equals the nesting depth for all documents.",
        "note": COMMON_NOTE,
        "technique": "ast dispatch-exhaustiveness, truth-table evaluation of the filter condition, call-graph reachability",
    },
    "C03": {
        "text": "Decides structural necessary conditions of print/parse round-tripping: the printer registry covers every node "
                "class the parser constructs; every print_X (and helper formatting a child directly) reads every content slot "
                "of its node class; the quoted-string encoder's escape classes each decode back to the same character in the "
                "lexer; _block_string guards its indexing and its terminator; the printer is stateless. Does not decide that "
                "the layout helpers always emit parseable text nor the identity itself.",
        "note": COMMON_NOTE,
        "technique": "ast node-shape agreement (parser constructions vs printer attribute reads), escape-class table, dominance of guards",
    },
    "C18": {
        "text": "Decides structural necessary conditions of visitor traversal: dispatch registries route every node kind and "
                "name existing, phase-matched handlers; each _visit_X traverses every child-bearing slot the parser fills, in "
                "source order, and writes the result back; every path of the enter/children/leave wrapper has the documented "
                "event sequence (path-sensitive on None tests, exception edge for SkipNode); ChainedVisitor threads and "
                "reverses; map_and_filter is an order-preserving None filter. Does not decide behaviour under arbitrary user "
                "visitors.",
        "note": COMMON_NOTE,
        "technique": "ast node-shape agreement, typestate over all CFG paths of the wrapper, registry table checks",
    },
    "C01": {
        "text": "Decides structural clauses: lexer tables equal the specification's punctuator/ignored/escape tables; no Unicode-aware predicate decides a lexical class; keyword comparisons on token values are guarded by a Name class test; syntax-error positions inside IndexError handlers cannot exceed the text; only GraphQLSyntaxError subclasses escape parse/parse_value/parse_type (explicit raises through resolved calls). Token-level and character-level language equivalence with the grammar is decided by the recogniser-extraction rules when present (G1/L2). Does not decide behaviour beyond the recursion budget.",
        "note": COMMON_NOTE,
        "technique": 'ast table agreement, guard dominance, interprocedural may-raise summaries, recogniser extraction + DFA equivalence',
    },
    "C02": {
        "text": 'Decides structural clauses: every parser construction supplies every constructor parameter incl. source/loc and parameters are slots; loc is _loc(first token of the production) evaluated after the last consumption; no reordering construct in the parser; number tokens carry the verbatim slice; escape table equals the specification; block-string helpers use no Unicode-aware splitting/stripping. Does not decide the body of the block-string algorithm.',
        "note": COMMON_NOTE,
        "technique": 'ast node-shape agreement, evaluation-order and def-use checks, table agreement',
    },
    "C04": {
        "text": 'Decides structural clauses only: selection-kind dispatch exhaustiveness; collect_fields skip/merge conditions as exhaustive truth tables (@skip/@include, type condition, visited fragments) and path typestate (nothing collected before the tests); complete_value dispatch order/exhaustiveness and the abstract-type path; error sites; request isolation of caches. Does not decide that execution computes the specified result.',
        "note": COMMON_NOTE,
        "technique": 'truth-table evaluation of conditions, typestate over loop-body paths, dispatch exhaustiveness, effect scan',
    },
    "C08": {
        "text": 'Decides per-callback obligations any schedule argument needs: runtime interface completeness; map_value/chain contract on every path (then once, else_ only for a matching exception of then, otherwise re-raise/set_exception); every done-callback path completes its future exactly once or re-arms; gather counter/partition discipline; asyncio gather bookkeeping; broad handlers never swallow; the two executors agree around a field. Does not decide interleavings or termination.',
        "note": COMMON_NOTE,
        "technique": 'path-sensitive typestate over all CFG paths incl. exception edges, sibling cross-check',
    },
    "C09": {
        "text": 'Decides: execute() selects the serial strategy exactly for mutations; the generic serial strategy is a continuation chain (single resolve_field site, re-entered only from the then-continuation of that call, store-before-next, front-of-queue order); the blocking strategy is an in-order loop. Does not decide that a deferred value completes only after its sub-selection (depends on C08 and user runtimes).',
        "note": COMMON_NOTE,
        "technique": 'closure/call-graph shape rules, typestate over continuation paths',
    },
    "C10": {
        "text": 'Decides: error dictionaries use exactly the response-format keys (message unconditional, line/column); located errors derive positions through index_to_loc guarded by loc/source; abort sites pass no data before execution and data=None after; every exception class explicitly raised by the execution stage functions is caught by process_graphql_query; Float serialisation rejects non-finite values. Does not decide one-to-one matching of nulls and errors nor user scalars.',
        "note": COMMON_NOTE,
        "technique": 'ast table checks, handler/raise class-hierarchy matching',
    },
    "C16": {
        "text": 'Decides on every CFG path (normal and exceptional): stage hooks in process_graphql_query are properly nested pairs ending in on_query_end; in execute/subscribe every path on which on_execution_start fired also fires on_execution_end (directly or via the continuation attached with map_value); resolve_field fires on_field_start before coercion/resolver and on_field_end exactly once on every returning path (closure summaries, else_ class vs may-raise of then); MultiInstrumentation forwards all hooks (ends reversed); middleware chain built in order and applied once per cache miss. Does not decide completion orders.',
        "note": COMMON_NOTE,
        "technique": 'typestate over CFG paths with exception edges and closure summaries, may-raise summaries',
    },
    "C17": {
        "text": 'Decides: the four refusals are raised on every path before the source stream / subscription resolver; per-event function clears errors before executing with the event as root and hands out a copy of the error list; the async stream adapter pulls one item per result, maps it once and cannot swallow StopAsyncIteration. Does not decide concurrent __anext__ calls or timing.',
        "note": COMMON_NOTE,
        "technique": 'path typestate with branch events (guard dominance), shape checks',
    },
}
