"""What MANIFEST.json says about each property (kept next to the rules)."""

NOTES = (
    "Static analysis only: every check parses /repo/src/py_gql on each run and decides structural clauses of the "
    "property (listed per property in DESIGN.md §3); none decides the behaviour for all inputs. exit 2 + "
    "ANALYSIS-ERROR means the analysis could not run (anchor vanished / unsupported idiom), never a silent pass."
)

COMMON_NOTE = (
    "Trusted base: CPython's ast parser, the rule implementations in /verif/vf, the hand-written reference tables "
    "in /verif/vf/spec. Decides only the structural clauses named in the text; semantic correctness for all inputs "
    "is not decided (DESIGN.md §6)."
)

CLAIMS = {
    "C19": {
        "text": "Decides structural necessary conditions of depth limiting on the current source: no max()/min() over a "
                "possibly empty iterable on the measurement path (flat operations cannot raise), every class dispatch over "
                "selection lists in the depth walk covers Field/FragmentSpread/InlineFragment, the operation_name filter has "
                "the specified truth table and precedes measurement, and every member of a merged response-key group is "
                "descended into. Does not decide that the measured number equals the nesting depth for all documents.",
        "note": COMMON_NOTE,
        "technique": "ast dispatch-exhaustiveness, truth-table evaluation of the filter condition, call-graph reachability",
    },
    "C03": {
        "text": "Decides structural necessary conditions of print/parse round-tripping: the printer registry covers every node "
                "class the parser constructs; every print_X (and helper formatting a child directly) reads every content slot "
                "of its node class; the quoted-string encoder's escape classes each decode back to the same character in the "
                "lexer; _block_string guards its indexing and its terminator; the printer is stateless; and (G1/G2) the token "
                "language of the printer — every print method interpreted abstractly into a regular language for every slot "
                "state of a parsed tree — lies within the reference grammar, never fuses two word-like tokens, and contains "
                "every present slot on every execution. Does not decide that the text is read back into the same tree "
                "(order and presence of the parts are necessary conditions of that) nor value-level identity.",
        "note": COMMON_NOTE,
        "technique": "ast node-shape agreement (parser constructions vs printer attribute reads), escape-class table, dominance of guards, abstract interpretation of the printer into regular languages + automaton inclusion in the reference grammar",
    },
    "C18": {
        "text": "Decides structural necessary conditions of visitor traversal: dispatch registries route every node kind and "
                "name existing, phase-matched handlers; each _visit_X traverses every child-bearing slot the parser fills, in "
                "source order, and writes the result back; every path of the enter/children/leave wrapper has the documented "
                "event sequence (path-sensitive on None tests, exception edge for SkipNode); ChainedVisitor threads and "
                "reverses; map_and_filter is an order-preserving None filter. Does not decide behaviour under arbitrary user "
                "visitors.",
        "note": COMMON_NOTE,
        "technique": "ast node-shape agreement, typestate over all CFG paths of the wrapper, registry table checks",
    },
    "C01": {
        "text": "Decides structural clauses: lexer tables equal the specification's punctuator/ignored/escape tables; no Unicode-aware predicate decides a lexical class; keyword comparisons on token values are guarded by a Name class test; syntax-error positions inside IndexError handlers cannot exceed the text; only GraphQLSyntaxError subclasses escape parse/parse_value/parse_type (explicit raises through resolved calls). Token-level and character-level language equivalence with the grammar is decided by the recogniser-extraction rules when present (G1/L2). Does not decide behaviour beyond the recursion budget.",
        "note": COMMON_NOTE,
        "technique": 'ast table agreement, guard dominance, interprocedural may-raise summaries, recogniser extraction + DFA equivalence',
    },
    "C02": {
        "text": 'Decides structural clauses: every parser construction supplies every constructor parameter incl. source/loc and parameters are slots; loc is _loc(first token of the production) evaluated after the last consumption; no reordering construct in the parser; number tokens carry the verbatim slice; escape table equals the specification; block-string helpers use no Unicode-aware splitting/stripping. Does not decide the body of the block-string algorithm.',
        "note": COMMON_NOTE,
        "technique": 'ast node-shape agreement, evaluation-order and def-use checks, table agreement',
    },
    "C04": {
        "text": 'Decides structural clauses only: selection-kind dispatch exhaustiveness; collect_fields skip/merge conditions as exhaustive truth tables (@skip/@include, type condition, visited fragments) and path typestate (nothing collected before the tests); complete_value dispatch order/exhaustiveness and the abstract-type path; error sites; request isolation of caches. Does not decide that execution computes the specified result.',
        "note": COMMON_NOTE,
        "technique": 'truth-table evaluation of conditions, typestate over loop-body paths, dispatch exhaustiveness, effect scan',
    },
    "C08": {
        "text": 'Decides per-callback obligations any schedule argument needs: runtime interface completeness; map_value/chain contract on every path (then once, else_ only for a matching exception of then, otherwise re-raise/set_exception); every done-callback path completes its future exactly once or re-arms; gather counter/partition discipline; asyncio gather bookkeeping; broad handlers never swallow; the two executors agree around a field. Does not decide interleavings or termination.',
        "note": COMMON_NOTE,
        "technique": 'path-sensitive typestate over all CFG paths incl. exception edges, sibling cross-check',
    },
    "C09": {
        "text": 'Decides: execute() selects the serial strategy exactly for mutations; the generic serial strategy is a continuation chain (single resolve_field site, re-entered only from the then-continuation of that call, store-before-next, front-of-queue order); the blocking strategy is an in-order loop. Does not decide that a deferred value completes only after its sub-selection (depends on C08 and user runtimes).',
        "note": COMMON_NOTE,
        "technique": 'closure/call-graph shape rules, typestate over continuation paths',
    },
    "C10": {
        "text": 'Decides: error dictionaries use exactly the response-format keys (message unconditional, line/column); located errors derive positions through index_to_loc guarded by loc/source; abort sites pass no data before execution and data=None after; every exception class explicitly raised by the execution stage functions is caught by process_graphql_query; Float serialisation rejects non-finite values. Does not decide one-to-one matching of nulls and errors nor user scalars.',
        "note": COMMON_NOTE,
        "technique": 'ast table checks, handler/raise class-hierarchy matching',
    },
    "C16": {
        "text": 'Decides on every CFG path (normal and exceptional): stage hooks in process_graphql_query are properly nested pairs ending in on_query_end; in execute/subscribe every path on which on_execution_start fired also fires on_execution_end (directly or via the continuation attached with map_value); resolve_field fires on_field_start before coercion/resolver and on_field_end exactly once on every returning path (closure summaries, else_ class vs may-raise of then); MultiInstrumentation forwards all hooks (ends reversed); middleware chain built in order and applied once per cache miss. Does not decide completion orders.',
        "note": COMMON_NOTE,
        "technique": 'typestate over CFG paths with exception edges and closure summaries, may-raise summaries',
    },
    "C17": {
        "text": 'Decides: the four refusals are raised on every path before the source stream / subscription resolver; per-event function clears errors before executing with the event as root and hands out a copy of the error list; the async stream adapter pulls one item per result, maps it once and cannot swallow StopAsyncIteration. Does not decide concurrent __anext__ calls or timing.',
        "note": COMMON_NOTE,
        "technique": 'path typestate with branch events (guard dominance), shape checks',
    },
    "C05": {
        "text": 'Decides: no exception other than SkipNode can leave any handler of the type-info visitor or of a registered rule (explicit raises through resolved calls, reasons kept for unreachable defensive raises); enter/leave pairs of stack-keeping visitors push and pop the same multiset on every path; no dead handlers; type-info first in the chain; SkipNode only after an error where an earlier visitor keeps state for that kind; definite assignment over the CFG (incl. exception edges) of every function in execution/** and utilities/**. Does not decide validator/executor soundness.',
        "note": COMMON_NOTE,
        "technique": 'interprocedural may-raise summaries, typestate (stack balance) over CFG paths, definite-assignment dataflow',
    },
    "C06": {
        "text": "Decides: the 26 rule classes are registered/exported and every specification rule has its class; directive-location and node-kind tables used by rules agree with the parser's and the AST classes (locations, directive-bearing nodes, value kinds); fragment closures iterate to a fixpoint; variable usages are recorded per occurrence; type references the visitor does not traverse are reported by a rule. Does not decide rule-by-rule equivalence with the specification nor order invariance in general.",
        "note": COMMON_NOTE,
        "technique": 'table/registry agreement against reference tables, fixpoint-construct recognition, cross-module coverage (visitor traversal x rule handlers)',
    },
    "C07": {
        "text": "Decides: the obligation table (null for NonNull, defaults for absent members, required members, python_name keys, enum mapping, list wrapping, unknown keys) holds structurally on each of the three coercion routes; coerce_int's accepted interval computed from its guard equals [-2^31, 2^31-1]; literal-kind tables of the five specified scalars; scalar error conversion. Does not decide equality of delivered values for all inputs nor custom scalars.",
        "note": COMMON_NOTE,
        "technique": 'sibling cross-check of three routes, interval evaluation of the range guard, table agreement',
    },
    "C11": {
        "text": 'Decides: every kind dispatch (builder, extender, schema visitor, SDL printer, validator) covers the six kinds; each builder reads every content slot of its definition node; the kind graph of eager (non-lazy) re-entries into the memoised builders has no cycle before the memo write; types carried into a new Schema are filtered only by justified predicates; only library errors escape build_schema/extend_schema (explicit raises), no exception constructed without raise. Does not decide attribute-by-attribute equality with the declaration.',
        "note": COMMON_NOTE,
        "technique": 'node-shape agreement, call-graph kind-cycle detection, may-raise summaries, flow of registry lists',
    },
    "C12": {
        "text": 'Decides: everything reachable from ASTSchemaPrinter.__call__ writes no long-lived state and reads no module-level single-use iterator; defaults and deprecation reasons are rendered through value->AST->printer; print_type covers all kinds and printers read all printable attributes; no set iteration feeds output, definition lists sorted by name. Does not decide the round trip.',
        "note": COMMON_NOTE,
        "technique": 'effect/iterator-hygiene scan over the print call graph, attribute-read coverage',
    },
    "C13": {
        "text": 'Decides: every validate_* method is reached and every kind dispatched; the six member loops agree on name checks, duplicate detection and input/output predicates; validator methods never raise and validate_schema raises iff errors; every resolver-assigning Schema method resets the memoised verdict on every path after the write; the invalidation flag of type/directive replacement accumulates. Does not decide accept/reject correctness of each rule.',
        "note": COMMON_NOTE,
        "technique": 'sibling cross-check of member loops, typestate over CFG paths (write then invalidate), flag-accumulation pattern',
    },
    "C14": {
        "text": 'Decides: every rebuild site passes every constructor parameter (nothing silently dropped); no visitor applied to a clone assigns attributes of member objects the shallow clone shares with its source; merge_resolvers and Schema.clone carry every attribute/slot; every type-reference attribute has a healing site; registry conservation on extension. Does not decide closure of the resulting type graph for all schemas.',
        "note": COMMON_NOTE,
        "technique": 'copy-constructor completeness, ownership/aliasing check (shared members x in-place writers), slot coverage',
    },
    "C15": {
        "text": "Decides: introspection enums equal the parser's location table and the eight type kinds, kind resolver maps each class to its kind; default-resolved meta fields name attributes that exist on every described class; default values formatted by the SDL printer's pipeline; the disable switch confined to the three meta fields and consulted first; includeDeprecated filters have the specified truth table; meta resolvers call nothing that raises library errors. Does not decide full equality of the introspection result with the schema.",
        "note": COMMON_NOTE,
        "technique": 'table agreement, attribute existence over MRO, truth tables, may-raise of resolver callees',
    },
    "C20": {
        "text": 'Decides: the input/output compatibility predicates do not cross polarity, handle Named/List/NonNull, relax/tighten only in the allowed direction and are used at the right sites; every change class is produced and every differ registered; severity table (removals/retyping BREAKING, required additions BREAKING, min_severity filter); no yielding loop over a set; the three default comparisons agree and have the specified truth table. Does not decide that no-breaking-change implies every old operation stays valid.',
        "note": COMMON_NOTE,
        "technique": 'call-graph separation, registry coverage, severity table agreement, truth tables',
    },
}
