"""What MANIFEST.json says about each property (kept next to the rules)."""

NOTES = (
    "Static analysis only: every check parses /repo/src/py_gql on each run and decides structural clauses of the "
    "property (listed per property in DESIGN.md §3); none decides the behaviour for all inputs. exit 2 + "
    "ANALYSIS-ERROR means the analysis could not run (anchor vanished / unsupported idiom), never a silent pass."
)

COMMON_NOTE = (
    "Trusted base: CPython's ast parser, the rule implementations in /verif/vf, the hand-written reference tables "
    "in /verif/vf/spec. Decides only the structural clauses named in the text; semantic correctness for all inputs "
    "is not decided (DESIGN.md §6)."
)

CLAIMS = {
    "C19": {
        "text": "Decides structural necessary conditions of depth limiting on the current source: no max()/min() over a "
                "possibly empty iterable on the measurement path (flat operations cannot raise), every class dispatch over "
                "selection lists in the depth walk covers Field/FragmentSpread/InlineFragment, the operation_name filter has "
                "the specified truth table and precedes measurement, and every member of a merged response-key group is "
                "descended into. Does not decide that the measured number equals the nesting depth for all documents.",
        "note": COMMON_NOTE,
        "technique": "ast dispatch-exhaustiveness, truth-table evaluation of the filter condition, call-graph reachability",
    },
    "C03": {
        "text": "Decides structural necessary conditions of print/parse round-tripping: the printer registry covers every node "
                "class the parser constructs; every print_X (and helper formatting a child directly) reads every content slot "
                "of its node class; the quoted-string encoder's escape classes each decode back to the same character in the "
                "lexer; _block_string guards its indexing and its terminator; the printer is stateless. Does not decide that "
                "the layout helpers always emit parseable text nor the identity itself.",
        "note": COMMON_NOTE,
        "technique": "ast node-shape agreement (parser constructions vs printer attribute reads), escape-class table, dominance of guards",
    },
    "C18": {
        "text": "Decides structural necessary conditions of visitor traversal: dispatch registries route every node kind and "
                "name existing, phase-matched handlers; each _visit_X traverses every child-bearing slot the parser fills, in "
                "source order, and writes the result back; every path of the enter/children/leave wrapper has the documented "
                "event sequence (path-sensitive on None tests, exception edge for SkipNode); ChainedVisitor threads and "
                "reverses; map_and_filter is an order-preserving None filter. Does not decide behaviour under arbitrary user "
                "visitors.",
        "note": COMMON_NOTE,
        "technique": "ast node-shape agreement, typestate over all CFG paths of the wrapper, registry table checks",
    },
}
