"""Context-parameter threading.

A function g that has a parameter p and hands it on, unchanged and under the
same name, to an optional parameter p of a callee f at one call site treats p
as *context* for f (variables, fragments, schema, ...).  Then every call from g
to f must hand p on: a call that leaves it to f's default silently evaluates
that sub-computation without the context (e.g. variables inside a literal are
no longer substituted).
"""
import ast

from .model import own_nodes


def _bind(callee, call, bound):
    a = callee.node.args
    params = [x.arg for x in a.posonlyargs + a.args]
    off = 1 if bound else 0
    out = {}
    for i, v in enumerate(call.args):
        if isinstance(v, ast.Starred):
            return None
        if i + off < len(params):
            out[params[i + off]] = v
    for k in call.keywords:
        if k.arg is None:
            return None
        out[k.arg] = k.value
    return out


def check(prog, funcs):
    """-> (instances, problems); problems: (caller, call node, callee, param)"""
    instances, problems = [], []
    for g in funcs:
        gparams = set(g.all_params)
        per_callee = {}
        for n in own_nodes(g.node):
            if not isinstance(n, ast.Call):
                continue
            res = prog.resolve_call(g, n)
            if len(res) != 1 or isinstance(res[0].node, ast.Lambda):
                continue
            f = res[0]
            bound = f.cls is not None and isinstance(n.func, ast.Attribute) and f.name != "__init__"
            if f.name == "__init__":
                bound = True
            b = _bind(f, n, bound)
            if b is None:
                continue
            per_callee.setdefault(id(f.node), (f, []))[1].append((n, b))
        for f, calls in per_callee.values():
            if len(calls) < 2:
                continue
            a = f.node.args
            pos = a.posonlyargs + a.args
            optional = {x.arg for x in pos[len(pos) - len(a.defaults):]} | {x.arg for x, d in zip(a.kwonlyargs, a.kw_defaults) if d is not None}
            for p in sorted(optional & gparams):
                passing = [n for n, b in calls if isinstance(b.get(p), ast.Name) and b[p].id == p]
                if not passing:
                    continue
                instances.append("%s -> %s threads `%s` (%d calls)" % (g.qualname, f.qualname, p, len(calls)))
                for n, b in calls:
                    if p not in b:
                        problems.append((g, n, f, p))
    return instances, problems


def check_named(prog, funcs, name):
    """Threading of one named context value (`variables`, `fragments`) through a set of functions (the call-graph closure of
    an entry point): whenever a function that holds a value under that name (parameter or local) calls a resolved callee that
    has a parameter of that name, the call binds it to an expression mentioning the caller's value.
    -> (instances, problems); problems: (caller, call node, callee, what)"""
    instances, problems = [], []
    for g in funcs:
        if isinstance(g.node, ast.Lambda):
            continue
        holds = name in set(g.all_params) or any(isinstance(n, ast.Name) and isinstance(n.ctx, ast.Store) and n.id == name for n in own_nodes(g.node))
        if not holds:
            continue
        for n in own_nodes(g.node):
            if not isinstance(n, ast.Call):
                continue
            res = prog.resolve_call(g, n)
            if len(res) != 1 or isinstance(res[0].node, ast.Lambda):
                continue
            f = res[0]
            a = f.node.args
            if name not in [x.arg for x in a.posonlyargs + a.args + a.kwonlyargs]:
                continue
            bound = (f.cls is not None and isinstance(n.func, ast.Attribute) and f.name != "__init__") or f.name == "__init__"
            if bound and any(isinstance(d, ast.Name) and d.id == "staticmethod" for d in getattr(f.node, "decorator_list", [])):
                bound = False
            b = _bind(f, n, bound)
            if b is None:
                continue
            instances.append("%s -> %s: `%s` = %s" % (g.qualname, f.qualname, name, ast.unparse(b[name]) if name in b else "<left to the default>"))
            if name not in b:
                problems.append((g, n, f, "left to the callee's default"))
            elif not any(isinstance(x, ast.Name) and x.id == name for x in ast.walk(b[name])):
                problems.append((g, n, f, "bound to `%s`, which is not the caller's `%s`" % (ast.unparse(b[name]), name)))
    return instances, problems
