"""Class dispatch by path enumeration.

"What does f do when its argument is an instance of K?" is answered by enumerating
the executions of f that are consistent with `x is exactly a K` (every isinstance /
type() / __class__ test on x decided from the class hierarchy), instead of reading
the if/elif chain's shape.  This is independent of elif-vs-early-return, of negated
tests with swapped branches, of the order of unrelated tests, and of De Morgan
rewrites.
"""
import ast
import re

from . import boolx
from .model import AnalysisError

_ISI = re.compile(r"^isinstance\((?P<var>[\w.]+), (?P<cls>.+)\)$")
_TYP = re.compile(r"^(?:type\((?P<v1>[\w.]+)\)|(?P<v2>[\w.]+)\.__class__) (?P<op>is|==|in) (?P<cls>.+)$")


def _names(txt):
    try:
        e = ast.parse(txt, mode="eval").body
    except SyntaxError:
        return None
    out = []
    for x in (e.elts if isinstance(e, (ast.Tuple, ast.List, ast.Set)) else [e]):
        if isinstance(x, ast.Attribute):
            out.append(x.attr)
        elif isinstance(x, ast.Name):
            out.append(x.id)
        else:
            return None
    return out


class Hierarchy:
    """Subclass relation by class *name* over the whole program (names are unique among the classes used in dispatches)."""

    def __init__(self, prog):
        self.anc = {}
        for c in prog.all_classes():
            self.anc.setdefault(c.name, set()).update(x.name for x in c.mro())
            self.anc[c.name].add(c.name)

    def is_a(self, cls, other):
        if cls not in self.anc:
            raise AnalysisError("dispatch: unknown class %s" % cls)
        return other in self.anc[cls]


def decide_for(hier, var, cls, extra=None):
    """decide() for boolx.walk_under: ``var`` is an instance of exactly ``cls``."""
    def decide(t):
        m = _ISI.match(t)
        if m and m.group("var") == var:
            ns = _names(m.group("cls"))
            if ns is not None:
                return any(hier.is_a(cls, n) for n in ns)
        m = _TYP.match(t)
        if m and (m.group("v1") or m.group("v2")) == var:
            ns = _names(m.group("cls"))
            if ns is not None:
                return cls in ns
        if extra is not None:
            return extra(t)
        return None
    return decide


def executions(prog_or_hier, fi, var, cls, extra=None, body=None):
    """Executions of ``fi`` (or of the statement list ``body`` taken from it, e.g. one loop body) when var is a cls."""
    hier = prog_or_hier if isinstance(prog_or_hier, Hierarchy) else Hierarchy(prog_or_hier)
    node = fi.node
    if body is not None:
        node = ast.FunctionDef(name="_body", args=ast.arguments(posonlyargs=[], args=[], kwonlyargs=[], kw_defaults=[], defaults=[]),
                               body=list(body), decorator_list=[], lineno=getattr(body[0], "lineno", 0), col_offset=0)
    try:
        _ev, exits = boolx.walk_under(node, decide_for(hier, var, cls, extra))
    except ValueError as e:
        raise AnalysisError("dispatch(%s, %s is %s): %s" % (fi.qualname, var, cls, e))
    return exits


def calls_for(prog_or_hier, fi, var, cls, extra=None):
    """(may, must, kinds): names called on some / on every non-raising execution of fi when var is a cls;
    kinds = set of exit kinds reached."""
    exits = executions(prog_or_hier, fi, var, cls, extra)
    may, must, kinds = set(), None, set()
    for kind, st, env in exits:
        kinds.add(kind)
        if kind == "raise":
            continue
        names = set()
        for c in env.get(boolx.CALLS, ()):
            if isinstance(c.func, ast.Attribute):
                names.add(c.func.attr)
            elif isinstance(c.func, ast.Name):
                names.add(c.func.id)
        may |= names
        must = names if must is None else (must & names)
    return may, (must or set()), kinds
