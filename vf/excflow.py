"""E5(a) — interprocedural may-raise summaries.

Sound for: explicit ``raise`` statements, re-raises, exceptions propagated
through *resolved* calls (direct names, ``self.m``, ``super().m``, module
functions, constructors, function values passed as arguments, and attribute
calls on unknown receivers resolved by method name when the name is defined by
at most ``BY_NAME_CAP`` repo classes), minus enclosing handlers (class
hierarchy aware).  Implicit raisers are covered only through the explicit
catalogue passed by the rule (``implicit`` callback).
"""
import ast
import builtins

from .model import own_nodes, AnalysisError

BY_NAME_CAP = 4
GENERIC_NAMES = set(dir(dict)) | set(dir(list)) | set(dir(str)) | set(dir(set)) | set(dir(tuple)) | {
    "format", "match", "search", "sub", "compile", "group", "send", "close", "throw", "result",
    "add_done_callback", "set_result", "set_exception", "cancel", "submit", "value", "name",
}


class ExcUniverse:
    def __init__(self, prog):
        self.prog = prog
        self.repo = {}
        for c in prog.all_classes():
            exts = c.ext_bases()
            if any(self._builtin_exc(e.split(".")[-1]) for e in exts):
                self.repo[c.name] = c

    @staticmethod
    def _builtin_exc(name):
        o = getattr(builtins, name, None)
        return isinstance(o, type) and issubclass(o, BaseException)

    def is_exc(self, name):
        return name in self.repo or self._builtin_exc(name)

    def ancestors(self, name):
        """All superclass names of exception class ``name`` (inclusive)."""
        out = [name]
        if name in self.repo:
            c = self.repo[name]
            for k in c.mro()[1:]:
                out.append(k.name)
            for e in c.ext_bases():
                b = e.split(".")[-1]
                if self._builtin_exc(b):
                    out.extend(x.__name__ for x in getattr(builtins, b).__mro__ if x is not object)
        elif self._builtin_exc(name):
            out.extend(x.__name__ for x in getattr(builtins, name).__mro__[1:] if x is not object)
        return out

    def is_subclass(self, name, of):
        return of in self.ancestors(name)


class MayRaise:
    def __init__(self, prog, implicit=None, by_name=True, extra_edges=None):
        self.prog = prog
        self.u = ExcUniverse(prog)
        self.implicit = implicit       # callback(fi, node) -> iterable of exception names
        self.by_name = by_name
        self.summaries = {}            # fi.key -> {exc name: witness}
        self.funcs = {f.key: f for f in prog.all_funcs()}
        self._stack = []
        self.extra_edges = extra_edges or {}

    # ---- public
    def of(self, fi):
        """dict exc name -> witness (list of 'file:line what' strings, outermost first)."""
        self._fixpoint(fi)
        return self.summaries.get(fi.key, {})

    # ---- fixpoint over the call graph reachable from fi
    def _fixpoint(self, root):
        reach = {}
        stack = [root]
        while stack:
            f = stack.pop()
            if f.key in reach:
                continue
            reach[f.key] = f
            for callee in self._callees_of(f):
                if callee.key not in reach:
                    stack.append(callee)
        for k in reach:
            self.summaries.setdefault(k, {})
        changed = True
        rounds = 0
        while changed:
            changed = False
            rounds += 1
            if rounds > 60:
                raise AnalysisError("may-raise fixpoint did not converge")
            for k, f in reach.items():
                new = self._analyse(f)
                old = self.summaries[k]
                if set(new) != set(old):
                    # keep old witnesses where present (stable)
                    merged = dict(new)
                    merged.update({e: w for e, w in old.items() if e in new})
                    self.summaries[k] = merged
                    changed = True

    def _callees_of(self, fi):
        out = []
        for n in own_nodes(fi.node):
            for c in self._targets(fi, n):
                if c not in out:
                    out.append(c)
        for nested in fi.nested.values():
            # nested defs are analysed when referenced; include for reachability
            if nested not in out:
                out.append(nested)
        return out

    def _targets(self, fi, n):
        """Functions that evaluating node ``n`` may invoke."""
        out = []
        if isinstance(n, ast.Call):
            res = self.prog.resolve_call(fi, n, dynamic=True)
            if not res and self.by_name and isinstance(n.func, ast.Attribute) and n.func.attr not in GENERIC_NAMES:
                cands = self.prog.methods_named(n.func.attr)
                if 0 < len(cands) <= BY_NAME_CAP:
                    res = cands
            if not res and isinstance(n.func, ast.Attribute):
                # obj.attr(...) where obj.attr is a property returning a callable: ignore
                pass
            if not res and isinstance(n.func, ast.Name) and n.func.id == "next" and n.args \
                    and isinstance(n.args[0], ast.Attribute) and n.args[0].attr.endswith("lexer"):
                # next(self._lexer): the only repo iterator driven through next() on a named attribute
                res = [m for m in self.prog.methods_named("__next__") if m.cls is not None and m.cls.name == "Lexer"]
            out.extend(res)
            # function values passed as arguments may be called by the callee
            for a in list(n.args) + [k.value for k in n.keywords]:
                tgt = a
                if isinstance(a, ast.Call) and ast.unparse(a.func) in ("ft.partial", "functools.partial") and a.args:
                    tgt = a.args[0]
                if isinstance(tgt, (ast.Attribute, ast.Name)):
                    for c in self.prog.resolve_callable(fi, tgt):
                        if c.name != "__init__" and c not in out:
                            out.append(c)
        elif isinstance(n, ast.Attribute) and isinstance(n.ctx, ast.Load):
            # property access on self
            cls = self.prog.enclosing_class(fi)
            sn = self.prog.self_name(fi)
            if cls is not None and sn and isinstance(n.value, ast.Name) and n.value.id == sn:
                m = cls.find_method(n.attr)
                if m is not None and any(ast.unparse(d) in ("property", "lazy", "cached_property") for d in m.node.decorator_list):
                    out.append(m)
                elif m is not None and not isinstance(getattr(n, "_parent", None), ast.Call) or (
                        m is not None and isinstance(getattr(n, "_parent", None), ast.Call) and n._parent.func is not n):
                    # bound method used as a value (dispatch table entry, callback): may be called
                    if m.name != "__init__":
                        out.append(m)
                        for sc in self.prog.subclasses(cls):
                            if n.attr in sc.methods and sc.methods[n.attr] not in out:
                                out.append(sc.methods[n.attr])
        key = fi.key
        return out

    # ---- intraprocedural
    def _exc_names_of_handler(self, h):
        if h.type is None:
            return ["BaseException"]
        ts = h.type.elts if isinstance(h.type, ast.Tuple) else [h.type]
        out = []
        for t in ts:
            nm = t.attr if isinstance(t, ast.Attribute) else (t.id if isinstance(t, ast.Name) else None)
            if nm:
                out.append(nm)
        return out

    def _raised_class(self, fi, e, handler_stack):
        """Exception class names produced by ``raise e``."""
        if e is None:
            # bare raise: re-raise what the innermost handler caught
            return list(handler_stack[-1][1]) if handler_stack else []
        if isinstance(e, ast.Call):
            f = e.func
            nm = f.attr if isinstance(f, ast.Attribute) else (f.id if isinstance(f, ast.Name) else None)
            if nm and self.u.is_exc(nm):
                return [nm]
            # helper returning an exception object: its returned constructors (through further helpers), else its return annotation
            return self._built_by(fi, e, 0) or ["Exception"]
        if isinstance(e, ast.Name):
            for var, names in reversed(handler_stack):
                if var == e.id:
                    return list(names)
            if self.u.is_exc(e.id):
                return [e.id]
            # a local that holds the exception object: `err = SomeError(...)` ... `raise err`
            defs = [n for n in own_nodes(fi.node) if isinstance(n, ast.Assign) and len(n.targets) == 1 and isinstance(n.targets[0], ast.Name)
                    and n.targets[0].id == e.id]
            if defs and all(isinstance(d.value, ast.Call) for d in defs):
                out = []
                for d in defs:
                    got = self._raised_class(fi, d.value, handler_stack)
                    out.extend(got)
                if out and "Exception" not in out:
                    return out
            return ["Exception"]
        if isinstance(e, ast.Attribute) and self.u.is_exc(e.attr):
            return [e.attr]
        return ["Exception"]

    def _built_by(self, fi, call, depth):
        """exception classes of the object a helper call hands back"""
        out = []
        for c in self.prog.resolve_call(fi, call):
            if isinstance(c.node, ast.Lambda):
                continue
            found = []
            for n in ast.walk(c.node):
                if isinstance(n, ast.Return) and isinstance(n.value, ast.Call):
                    g = n.value.func
                    nm2 = g.attr if isinstance(g, ast.Attribute) else (g.id if isinstance(g, ast.Name) else None)
                    if nm2 and self.u.is_exc(nm2):
                        found.append(nm2)
                    elif depth < 3:
                        found.extend(self._built_by(c, n.value, depth + 1))
            if not found and getattr(c.node, "returns", None) is not None:
                ann = ast.unparse(c.node.returns).strip("'\"").split(".")[-1]
                if self.u.is_exc(ann):
                    found.append(ann)
            out.extend(found)
        return out

    def _analyse(self, fi):
        out = {}

        def add(exc, wit):
            if exc not in out:
                out[exc] = wit

        def expr_raises(node, handler_stack):
            """exceptions from evaluating calls inside an expression/statement header."""
            res = {}
            for n in _walk_no_defs(node):
                for callee in self._targets(fi, n):
                    if isinstance(fi.node, ast.Lambda):
                        pass
                    for exc, wit in self.summaries.get(callee.key, {}).items():
                        if exc not in res:
                            res[exc] = ["%s calls %s" % (fi.where(n), callee.qualname)] + wit
                if self.implicit is not None:
                    for exc in self.implicit(fi, n) or ():
                        if exc not in res:
                            res[exc] = ["%s implicit: %s" % (fi.where(n), " ".join(ast.unparse(n).split())[:60])]
            return res

        def block(stmts, handler_stack):
            res = {}
            for st in stmts:
                for exc, wit in stmt(st, handler_stack).items():
                    res.setdefault(exc, wit)
            return res

        def stmt(st, handler_stack):
            res = {}
            if isinstance(st, (ast.FunctionDef, ast.AsyncFunctionDef, ast.ClassDef)):
                return res
            if isinstance(st, ast.Raise):
                res.update(expr_raises(st, handler_stack))
                for nm in self._raised_class(fi, st.exc, handler_stack):
                    res.setdefault(nm, ["%s raise %s" % (fi.where(st), nm)])
                return res
            if isinstance(st, ast.Try):
                body = block(st.body, handler_stack)
                caught_by = {}
                remaining = {}
                for exc, wit in body.items():
                    handled = False
                    for h in st.handlers:
                        hn = self._exc_names_of_handler(h)
                        if any(self.u.is_subclass(exc, x) for x in hn):
                            handled = True
                            caught_by.setdefault(id(h), set()).add(exc)
                            break
                        # a handler for a subclass may catch some instances; the superclass may still escape
                    if not handled:
                        remaining[exc] = wit
                res.update(remaining)
                for h in st.handlers:
                    hn = self._exc_names_of_handler(h)
                    # what the handler may re-raise: the declared classes (for bare raise)
                    # a bare `raise` re-raises what the body is known to raise (nothing known -> nothing added)
                    caught = caught_by.get(id(h), set())
                    hs = handler_stack + [(h.name, sorted(caught))]
                    for exc, wit in block(h.body, hs).items():
                        res.setdefault(exc, wit)
                for exc, wit in block(st.orelse, handler_stack).items():
                    res.setdefault(exc, wit)
                for exc, wit in block(st.finalbody, handler_stack).items():
                    res.setdefault(exc, wit)
                return res
            # compound statements: headers + bodies
            for field in ("test", "iter", "value", "targets", "target", "items", "exc", "msg", "subject"):
                v = getattr(st, field, None)
                if v is None:
                    continue
                for x in (v if isinstance(v, list) else [v]):
                    if isinstance(x, ast.AST):
                        res.update({k: w for k, w in expr_raises(x, handler_stack).items() if k not in res})
            for field in ("body", "orelse", "finalbody"):
                v = getattr(st, field, None)
                if isinstance(v, list) and v and isinstance(v[0], ast.stmt):
                    for exc, wit in block(v, handler_stack).items():
                        res.setdefault(exc, wit)
            for c in getattr(st, "cases", []) or []:
                for exc, wit in block(c.body, handler_stack).items():
                    res.setdefault(exc, wit)
            return res

        if isinstance(fi.node, ast.Lambda):
            return expr_raises(fi.node.body, [])
        body = block(fi.node.body, [])
        # generators: exceptions surface at iteration time, which is where the
        # caller consumes them; treated the same.
        return body


def _walk_no_defs(node):
    stack = [node]
    while stack:
        n = stack.pop()
        yield n
        for ch in ast.iter_child_nodes(n):
            if isinstance(ch, (ast.FunctionDef, ast.AsyncFunctionDef, ast.ClassDef)):
                continue
            if isinstance(ch, ast.Lambda):
                continue
            if isinstance(ch, ast.stmt) and not isinstance(node, ast.stmt):
                continue
            if isinstance(ch, ast.stmt):
                continue
            stack.append(ch)
