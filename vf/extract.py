"""E2 — recogniser extraction (token front-end): abstract interpretation of the
recursive-descent ``Parser`` into regular expressions over token atoms.

Every ``parse_*`` method is interpreted over an abstract cursor: consumed prefix
(list of regex items), knowledge about the not-yet-consumed tokens (atom set per
look-ahead offset), and variables bound to token references / token classes /
token values / booleans / lists with tracked emptiness / bound parse functions.
Calls are inlined except for a small set of recursion anchors, which appear in
the result as non-terminal symbols.  States are joined after every statement
(same look-ahead knowledge and same test-relevant variables) so the regex stays
factored.  Anything outside the supported idioms raises ``Unsupported`` -- the
caller turns that into an analysis error, never into a silent pass.
"""
import ast

from . import rx
from .model import AnalysisError

PARSER = "py_gql.lang.parser"
TOKEN = "py_gql.lang.token"
OTHER = "*"
SELF_NAMES = ("self", "parser")


class Unsupported(AnalysisError):
    pass


class Grammar:
    """Facts about the parser module shared by all interpretations."""

    def __init__(self, prog):
        self.prog = prog
        pm = prog.module(PARSER)
        tm = prog.module(TOKEN)
        self.module = pm
        self.consts = {}
        for name, exprs in pm.assigns.items():
            try:
                self.consts[name] = prog.fold(pm, exprs[-1])
            except Exception:
                pass
        cls = prog.get_class(PARSER, "Parser")
        self.cls = cls
        self.methods = {}
        for name, fi in cls.methods.items():
            self.methods[name] = fi.node
        self.functions = {name: fi.node for name, fi in pm.functions.items()}
        # names that denote the parser object: `self`, and any local of a module-level function bound to `Parser(...)`
        self.self_names = {"self"}
        for fn in self.functions.values():
            for n in ast.walk(fn):
                if isinstance(n, ast.Assign) and len(n.targets) == 1 and isinstance(n.targets[0], ast.Name) and isinstance(n.value, ast.Call) \
                        and isinstance(n.value.func, ast.Name) and n.value.func.id == "Parser":
                    self.self_names.add(n.targets[0].id)
        self.tokcls = {c.name: [getattr(b, "name", None) or b[1] for b in c.bases] for c in tm.classes.values()}
        self.const_tokens = sorted(k for k, b in self.tokcls.items() if b == ["ConstToken"])
        self.value_tokens = sorted(k for k, b in self.tokcls.items() if b == ["Token"])
        kws = set()
        for f in list(self.methods.values()) + list(self.functions.values()):
            for n in ast.walk(f):
                if isinstance(n, ast.Constant) and isinstance(n.value, str) and n.value.isidentifier() and len(n.value) < 30:
                    par = getattr(n, "_parent", None)
                    if isinstance(par, ast.Expr):
                        continue
                    kws.add(n.value)
        for v in self.consts.values():
            if isinstance(v, (tuple, frozenset)):
                kws.update(x for x in v if isinstance(x, str) and x.isidentifier())
        self.keywords = sorted(kws)
        atoms = set(self.const_tokens)
        for c in self.value_tokens:
            atoms.add((c, OTHER))
            if c in ("Name", "String", "BlockString"):
                for k in self.keywords:
                    atoms.add((c, k))
        self.atoms = frozenset(atoms)
        self.testvars = {name: test_vars(fn) for name, fn in list(self.methods.items()) + list(self.functions.items())}

    def cls_atoms(self, name):
        if name in self.const_tokens:
            return frozenset([name])
        return frozenset(a for a in self.atoms if isinstance(a, tuple) and a[0] == name)

    def val_atoms(self, values, negate=False):
        values = set(values)
        out = set()
        for a in self.atoms:
            inside = isinstance(a, tuple) and a[1] in values
            if inside != negate:
                out.add(a)
        return frozenset(out)


def test_vars(fn):
    names = set()

    def grab(e):
        for n in ast.walk(e):
            if isinstance(n, ast.Name):
                names.add(n.id)
    for n in ast.walk(fn):
        if isinstance(n, (ast.If, ast.While, ast.IfExp)):
            grab(n.test)
        elif isinstance(n, (ast.BoolOp, ast.Compare)):
            grab(n)
        elif isinstance(n, ast.Call):
            if isinstance(n.func, ast.Name):
                names.add(n.func.id)
            for a in n.args:
                grab(a)
            # the text a node is built from is tracked (`name.value in KEYWORDS` later on): a local handed to `value=`
            for k in n.keywords:
                if k.arg == 'value':
                    grab(k.value)
        elif isinstance(n, ast.Attribute):
            grab(n.value)
    return names


class State:
    __slots__ = ('out', 'c', 'know', 'env', 'epoch', 'pos', 'all_atoms', '_ret')

    def __init__(self, all_atoms=None):
        self.all_atoms = all_atoms
        self._ret = None
        self.out = []
        self.c = 0
        self.know = {}
        self.env = {}
        self.epoch = 0
        self.pos = {}

    def clone(self):
        s = State(self.all_atoms)
        s.out = list(self.out)
        s.c = self.c
        s.know = dict(self.know)
        s.env = dict(self.env)
        s.epoch = self.epoch
        s.pos = dict(self.pos)
        return s

    def k(self, idx):
        return self.know.get(idx, self.all_atoms)

    def new_epoch(self, first=None):
        self.epoch += 1
        self.c = 0
        self.know = {}
        self.pos = {}
        if first is not None:
            self.know[0] = first


ANCHORS = {('parse_selection_set', ()), ('parse_value_literal', (True,)), ('parse_value_literal', (False,)),
           ('parse_type_reference', ())}


class Interp:
    def __init__(self, grammar, config, anchors=None):
        self.g = grammar
        self.config = config  # dict attr -> bool
        self.anchors = ANCHORS if anchors is None else anchors
        self.stack = []
        self.joins = 0

    # ---- expressions -> list of (state, value)
    def ev(self, e, st):
        m = getattr(self, 'ev_' + type(e).__name__, None)
        if m is None:
            # an expression form the recogniser extraction has no rule for (subscript, arithmetic, ...): when nothing in it
            # can consume a token (no call on the parser, no call at all) its value is irrelevant to the language
            if not any(isinstance(x, (ast.Call, ast.Await, ast.Yield, ast.YieldFrom, ast.NamedExpr)) for x in ast.walk(e)):
                return [(st, ('opaque',))]
            raise Unsupported('expr %s at line %s' % (type(e).__name__, getattr(e, 'lineno', '?')))
        return m(e, st)

    def ev_Constant(self, e, st):
        return [(st, ('const', e.value))]

    def ev_Name(self, e, st):
        if e.id in st.env:
            return [(st, st.env[e.id])]
        if e.id in self.g.tokcls:
            return [(st, ('cls', e.id))]
        if e.id in self.g.consts:
            return [(st, ('const', self.g.consts[e.id]))]
        if e.id in ('cast', 'type', 'len', 'next'):
            return [(st, ('builtin', e.id))]
        raise Unsupported('name %s line %s' % (e.id, e.lineno))

    def ev_List(self, e, st):
        if e.elts:
            raise Unsupported('nonempty list literal')
        return [(st, ('list', False, None))]

    def ev_Tuple(self, e, st):
        res = [(st, [])]
        for el in e.elts:
            nxt = []
            for s, vals in res:
                for s2, v in self.ev(el, s):
                    nxt.append((s2, vals + [v]))
            res = nxt
        return [(s, ('tuple', tuple(v))) for s, v in res]

    def ev_Attribute(self, e, st):
        if isinstance(e.value, ast.Name) and e.value.id in self.g.self_names:
            if e.attr in self.config:
                return [(st, ('const', self.config[e.attr]))]
            if e.attr in self.g.methods:
                return [(st, ('fn', e.attr, ()))]
            if e.attr in ('_source', '_lexer'):
                return [(st, ('opaque',))]
            raise Unsupported('self.%s' % e.attr)
        if isinstance(e.value, ast.Name) and e.value.id == '_ast':
            return [(st, ('astcls', e.attr))]
        res = []
        for s, v in self.ev(e.value, st):
            if v[0] == 'tok':
                if e.attr == '__class__':
                    res.append((s, ('kind', v[1], v[2])))
                elif e.attr == 'value':
                    res.append((s, ('val', v[1], v[2])))
                elif e.attr in ('start', 'end'):
                    res.append((s, ('opaque',)))
                else:
                    raise Unsupported('tok.%s' % e.attr)
            elif v[0] == 'node' and e.attr == 'value' and len(v) > 2 and v[2] is not None:
                res.append((s, v[2]))
            elif v[0] == 'opaque' or v[0] == 'node':
                res.append((s, ('opaque',)))
            elif v[0] == 'stale' and e.attr in ('value', 'start', 'end'):
                # a token consumed before two paths were merged: what it was is no longer known, its text and
                # position are just some values (a later keyword test on them is refused, not guessed)
                res.append((s, ('opaque',)))
            else:
                raise Unsupported('attr %s on %s line %s' % (e.attr, v[0], e.lineno))
        return res

    def ev_IfExp(self, e, st):
        res = []
        for s, truth in self.cond(e.test, st):
            res.extend(self.ev(e.body if truth else e.orelse, s))
        return res

    def ev_BoolOp(self, e, st):
        # value context: `A and B` where A is truthy token/consume -> value of B
        if isinstance(e.op, ast.And):
            res = [(st, None)]
            for sub in e.values:
                nxt = []
                for s, _ in res:
                    nxt.extend(self.ev(sub, s))
                res = nxt
            return res
        raise Unsupported('or in value context')

    def ev_Compare(self, e, st):
        res = []
        for s_, t in self.cond(e, st):
            res.append((s_, ('const', t)))
        return res

    def ev_Lambda(self, e, st):
        return [(st, ('opaque',))]

    def ev_Call(self, e, st):
        f = e.func
        # self.<method>(...)
        if isinstance(f, ast.Attribute) and isinstance(f.value, ast.Name) and f.value.id in self.g.self_names:
            return self.call_self(f.attr, e, st)
        if isinstance(f, ast.Attribute) and isinstance(f.value, ast.Name) and f.value.id == '_ast':
            return self.construct(f.attr, e, st)
        if isinstance(f, ast.Attribute) and isinstance(f.value, ast.Name) and f.value.id == 'ft' and f.attr == 'partial':
            res = []
            for s, fn in self.ev(e.args[0], st):
                bound = []
                cur = [(s, [])]
                for a in e.args[1:]:
                    cur = [(s3, vs + [v]) for s2, vs in cur for s3, v in self.ev(a, s2)]
                for s2, vs in cur:
                    res.append((s2, ('fn', fn[1], fn[2] + tuple(self.constval(v) for v in vs))))
            return res
        if isinstance(f, ast.Attribute) and f.attr == 'append':
            # list.append(x)
            name = f.value.id
            res = []
            for s, v in self.ev(e.args[0], st):
                s = s.clone()
                s.env[name] = ('list', True, None)
                res.append((s, ('const', None)))
            return res
        if isinstance(f, ast.Name):
            if f.id == 'cast':
                return self.ev(e.args[1], st)
            if f.id == 'type':
                res = []
                for s, v in self.ev(e.args[0], st):
                    if v[0] != 'tok':
                        raise Unsupported('type() of non token')
                    res.append((s, ('kind', v[1], v[2])))
                return res
            if f.id in ('_unexpected_token', 'UnexpectedToken', 'UnexpectedEOF'):
                return [(st, ('exc',))]
            if f.id == 'Parser':
                return [(st, ('opaque',))]
            if f.id in st.env and st.env[f.id][0] == 'fn':
                fn = st.env[f.id]
                return self.invoke(fn[1], fn[2], st)
        raise Unsupported('call %s line %s' % (ast.unparse(f), e.lineno))

    def constval(self, v):
        if v[0] == 'const':
            return v[1]
        if v[0] == 'cls':
            return v
        raise Unsupported('non-const arg %r' % (v,))

    def construct(self, clsname, e, st):
        res = [(st, None)]
        for a in list(e.args):
            res = [(s2, al) for s, al in res for s2, _v in self.ev(a, s)]
        for k in e.keywords:
            nxt = []
            for s, al in res:
                for s2, v in self.ev(k.value, s):
                    nxt.append((s2, v if (k.arg == 'value' and v and v[0] == 'val') else al))
            res = nxt
        return [(s, ('node', clsname, al)) for s, al in res]

    def consume(self, st, atoms, prov):
        st = st.clone()
        have = st.k(st.c) & atoms
        if not have:
            return None
        st.pos[st.c] = len(st.out)
        st.out.append(rx.sym(have, prov))
        st.know.pop(st.c, None)
        st.c += 1
        return st

    def call_self(self, name, e, st):
        prov = '%s:%d' % (self.stack[-1] if self.stack else '?', e.lineno)
        if name == 'peek':
            k = 1
            if e.args:
                k = e.args[0].value
            return [(st, ('tok', st.epoch, st.c + k - 1))]
        if name == 'advance':
            s = self.consume(st, self.g.atoms, prov)
            return [(s, ('tok', s.epoch, s.c - 1))] if s else []
        if name == 'expect':
            res = []
            for s, v in self.ev(e.args[0], st):
                s2 = self.consume(s, self.g.cls_atoms(v[1]), prov)
                if s2:
                    res.append((s2, ('tok', s2.epoch, s2.c - 1)))
            return res
        if name == 'expect_keyword':
            res = []
            for s, v in self.ev(e.args[0], st):
                s2 = self.consume(s, frozenset([('Name', v[1])]), prov)
                if s2:
                    res.append((s2, ('tok', s2.epoch, s2.c - 1)))
            return res
        if name == 'skip':
            res = []
            for s, v in self.ev(e.args[0], st):
                atoms = self.g.cls_atoms(v[1])
                s2 = self.consume(s, atoms, prov)
                if s2:
                    res.append((s2, ('const', True)))
                s3 = s.clone()
                rest = s3.k(s3.c) - atoms
                if rest:
                    s3.know[s3.c] = rest
                    res.append((s3, ('const', False)))
            return res
        if name == '_loc':
            return [(st, ('opaque',))]
        if name in self.g.methods:
            # evaluate args
            cur = [(st, [])]
            for a in e.args:
                cur = [(s3, vs + [v]) for s2, vs in cur for s3, v in self.ev(a, s2)]
            res = []
            for s, vs in cur:
                res.extend(self.invoke(name, tuple(self.argval(v) for v in vs), s))
            return res
        raise Unsupported('self.%s()' % name)

    def argval(self, v):
        if v[0] in ('const',):
            return v[1]
        return v

    def invoke(self, name, args, st):
        key = (name, tuple(a for a in args if isinstance(a, bool)))
        if key in self.anchors and self.stack:
            s = st.clone()
            first = s.k(s.c)
            item = ('nt', key, first if first != self.g.atoms else None)
            s.out.append(item)
            s.new_epoch()
            return [(s, ('node', name, None))]
        if len(self.stack) > 40:
            raise Unsupported('inline depth')
        fn = self.g.methods[name]
        params = [a.arg for a in fn.args.args[1:]]
        defaults = fn.args.defaults
        s = st.clone()
        saved_env = s.env
        s.env = {}
        for i, p in enumerate(params):
            if i < len(args):
                v = args[i]
            else:
                d = defaults[i - (len(params) - len(defaults))]
                v = d.value
            s.env[p] = v if isinstance(v, tuple) and v and v[0] in ('fn', 'cls', 'tok', 'list', 'node', 'opaque') else ('const', v)
        self.stack.append(name)
        try:
            paths = self.block(fn.body, s)
        finally:
            self.stack.pop()
        res = []
        for s2, status, val in paths:
            if status == 'raise':
                continue
            if status == 'next':
                val = ('const', None)
            elif status != 'return':
                raise Unsupported('status %s escaping %s' % (status, name))
            s2 = s2.clone()
            s2.env = dict(saved_env)
            res.append((s2, val))
        return res

    # ---- conditions -> list of (state, bool)
    def cond(self, e, st):
        if isinstance(e, ast.BoolOp):
            if isinstance(e.op, ast.And):
                res = []
                cur = [st]
                for sub in e.values:
                    nxt = []
                    for s in cur:
                        for s2, t in self.cond(sub, s):
                            if t:
                                nxt.append(s2)
                            else:
                                res.append((s2, False))
                    cur = nxt
                res.extend((s, True) for s in cur)
                return res
            else:
                res = []
                cur = [st]
                for sub in e.values:
                    nxt = []
                    for s in cur:
                        for s2, t in self.cond(sub, s):
                            if t:
                                res.append((s2, True))
                            else:
                                nxt.append(s2)
                    cur = nxt
                res.extend((s, False) for s in cur)
                return res
        if isinstance(e, ast.UnaryOp) and isinstance(e.op, ast.Not):
            return [(s, not t) for s, t in self.cond(e.operand, st)]
        if isinstance(e, ast.Compare) and len(e.ops) == 1:
            op = e.ops[0]
            res = []
            for s, l in self.ev(e.left, st):
                for s2, r in self.ev(e.comparators[0], s):
                    res.extend(self.compare(l, op, r, s2, e))
            return res
        # truthiness of value
        res = []
        for s, v in self.ev(e, st):
            res.extend(self.truth(v, s, e))
        return res

    def truth(self, v, s, e):
        if v[0] == 'const':
            return [(s, bool(v[1]))]
        if v[0] in ('tok', 'node'):
            return [(s, True)]
        if v[0] == 'list':
            if v[1] is not None:
                return [(s, v[1])]
            idx = v[2]
            if idx is None:
                raise Unsupported('unknown list emptiness line %s' % e.lineno)
            item = s.out[idx]
            assert item[0] == 'star', item
            s1 = s.clone()
            s1.out[idx] = rx.plus(item[1])
            s2 = s.clone()
            s2.out[idx] = rx.EPS
            return [(s1, True), (s2, False)]
        raise Unsupported('truth of %r line %s' % (v, e.lineno))

    def refine(self, s, epoch, idx, atoms):
        if epoch != s.epoch:
            raise Unsupported('stale token reference')
        if idx < s.c:
            s = s.clone()
            p = s.pos[idx]
            item = s.out[p]
            have = item[1] & atoms
            if not have:
                return None
            s.out[p] = rx.sym(have, item[2])
            return s
        s = s.clone()
        have = s.k(idx) & atoms
        if not have:
            return None
        s.know[idx] = have
        return s

    def compare(self, l, op, r, s, e):
        def two(atoms_true, epoch, idx):
            out = []
            a = self.refine(s, epoch, idx, atoms_true)
            if a:
                out.append((a, True))
            b = self.refine(s, epoch, idx, self.g.atoms - atoms_true)
            if b:
                out.append((b, False))
            return out
        if l[0] == 'kind':
            if isinstance(op, (ast.Is, ast.Eq, ast.IsNot, ast.NotEq)) and r[0] == 'cls':
                res = two(self.g.cls_atoms(r[1]), l[1], l[2])
                if isinstance(op, (ast.IsNot, ast.NotEq)):
                    res = [(a, not t) for a, t in res]
                return res
            if isinstance(op, (ast.In, ast.NotIn)) and r[0] == 'tuple':
                atoms = frozenset().union(*[self.g.cls_atoms(x[1]) for x in r[1]])
                res = two(atoms, l[1], l[2])
                if isinstance(op, ast.NotIn):
                    res = [(a, not t) for a, t in res]
                return res
        if l[0] == 'val':
            if r[0] == 'const':
                vals = r[1]
                if isinstance(op, (ast.Eq, ast.NotEq)):
                    vals = [vals]
                res = two(self.g.val_atoms(vals), l[1], l[2])
                if isinstance(op, (ast.NotEq, ast.NotIn)):
                    res = [(a, not t) for a, t in res]
                return res
            if r[0] == 'tuple':
                vals = [x[1] for x in r[1]]
                res = two(self.g.val_atoms(vals), l[1], l[2])
                if isinstance(op, ast.NotIn):
                    res = [(a, not t) for a, t in res]
                return res
        if l[0] == 'const' and r[0] == 'const' and isinstance(op, (ast.Eq, ast.Is)):
            return [(s, l[1] == r[1])]
        if l[0] == 'nodeval' and r[0] == 'const' and isinstance(op, ast.In):
            # name.value in _DIRECTIVE_LOCATIONS where name came from the last consumed Name token
            raise Unsupported('nodeval')
        raise Unsupported('compare %r %s %r line %s' % (l, type(op).__name__, r, e.lineno))

    # ---- statements
    def block(self, stmts, st):
        cur = [st]
        done = []
        for stmt in stmts:
            nxt = []
            for s in cur:
                for s2, status, val in self.stmt(stmt, s):
                    if status == 'next':
                        nxt.append(s2)
                    else:
                        done.append((s2, status, val))
            cur = self.join(nxt)
            if not cur:
                break
        done.extend((s, 'next', None) for s in cur)
        return done

    def key(self, s):
        env = []
        for k, v in sorted(s.env.items()):
            env.append((k, v))
        know = tuple(sorted((i - s.c, a) for i, a in s.know.items()))
        return (tuple(env), know, s.epoch >= 0)

    def join(self, states):
        if len(states) < 2:
            return states
        groups = {}
        order = []
        for s in states:
            try:
                k = self.key(s)
                hash(k)
            except TypeError:
                k = id(s)
            if k not in groups:
                groups[k] = []
                order.append(k)
            groups[k].append(s)
        out = []
        for k in order:
            g = groups[k]
            if len(g) == 1:
                out.append(g[0])
                continue
            # common prefix by identity/equality of items
            n = min(len(x.out) for x in g)
            p = 0
            while p < n and all(x.out[p] is g[0].out[p] or x.out[p] == g[0].out[p] for x in g):
                p += 1
            # list vars referencing star items beyond prefix block the merge
            bad = any(v[0] == 'list' and v[1] is None and v[2] is not None and v[2] >= p for x in g for v in x.env.values())
            if bad:
                out.extend(g)
                continue
            m = g[0].clone()
            m.out = list(g[0].out[:p]) + [rx.alt(*[rx.cat(*[self.item_rx(i) for i in x.out[p:]]) for x in g])]
            m.pos = {}
            # re-base: consumed count differs; keep relative knowledge
            rel = {i - g[0].c: a for i, a in g[0].know.items()}
            m.c = 0
            m.know = {i: a for i, a in rel.items() if i >= 0}
            m.epoch = max(x.epoch for x in g) + 1
            # token refs in env from old epochs become stale: blank them
            for name, v in list(m.env.items()):
                if v and v[0] in ('tok', 'kind', 'val'):
                    m.env[name] = ('stale',)
            self.joins += 1
            out.append(m)
        return out

    def stmt(self, n, st):
        if isinstance(n, ast.Expr):
            if isinstance(n.value, ast.Constant):
                return [(st, 'next', None)]
            return [(s, 'next', None) for s, _ in self.ev(n.value, st)]
        if isinstance(n, ast.Assign):
            res = []
            for s, v in self.ev(n.value, st):
                s = s.clone()
                t = n.targets[0]
                rel = self.g.testvars.get(self.stack[-1] if self.stack else '', None)
                def norm(name, vv):
                    if rel is not None and name not in rel:
                        return ('opaque',)
                    return vv
                if isinstance(t, ast.Name):
                    s.env[t.id] = norm(t.id, v)
                elif isinstance(t, ast.Tuple) and all(isinstance(el, ast.Name) for el in t.elts):
                    if isinstance(v, tuple) and len(v) > 1 and v[0] == 'tuple' and len(v[1]) == len(t.elts):
                        for el, vv in zip(t.elts, v[1]):
                            s.env[el.id] = norm(el.id, vv)
                    else:
                        for el in t.elts:          # unpacking something that is not a tuple display: the parts are unknown values
                            s.env[el.id] = ('opaque',)
                else:
                    raise Unsupported('assign target')
                res.append((s, 'next', None))
            return res
        if isinstance(n, ast.Return):
            if n.value is None:
                return [(st, 'return', ('const', None))]
            return [(s, 'return', v) for s, v in self.ev(n.value, st)]
        if isinstance(n, ast.Raise):
            return [(st, 'raise', None)]
        if isinstance(n, ast.If):
            res = []
            for s, t in self.cond(n.test, st):
                res.extend(self.block(n.body if t else n.orelse, s))
            return res
        if isinstance(n, ast.Pass):
            return [(st, 'next', None)]
        if isinstance(n, ast.While):
            return self.loop(n, st)
        if isinstance(n, ast.Break):
            return [(st, 'break', None)]
        if isinstance(n, ast.Continue):
            return [(st, 'continue', None)]
        raise Unsupported('stmt %s line %s' % (type(n).__name__, n.lineno))

    def loop(self, n, st):
        # a flag-controlled loop `more = True` / `while more: BODY; more = E` is the loop `while True: BODY; if not E: break`
        if isinstance(n.test, ast.Name) and n.body and not n.orelse:
            v = n.test.id
            last = n.body[-1]
            stores = [x for b in n.body for x in ast.walk(b) if isinstance(x, ast.Name) and x.id == v and isinstance(x.ctx, ast.Store)]
            val = st.env.get(v)
            if isinstance(last, ast.Assign) and len(last.targets) == 1 and isinstance(last.targets[0], ast.Name) and last.targets[0].id == v \
                    and len(stores) == 1 and val is not None and val[0] == 'const' and val[1] is True \
                    and not any(isinstance(x, ast.Continue) for b in n.body for x in ast.walk(b)):
                brk = ast.copy_location(ast.If(test=ast.copy_location(ast.UnaryOp(op=ast.Not(), operand=last.value), last),
                                               body=[ast.copy_location(ast.Break(), last)], orelse=[]), last)
                n2 = ast.copy_location(ast.While(test=ast.copy_location(ast.Constant(value=True), n.test), body=list(n.body[:-1]) + [brk], orelse=[]), n)
                ast.fix_missing_locations(n2)
                return self.loop(n2, st)
        # the summary below evaluates the test on the state at loop entry: a test that reads a variable the body assigns cannot be
        # summarised that way - refuse rather than drop the exits
        test_names = {x.id for x in ast.walk(n.test) if isinstance(x, ast.Name)}
        body_stores = {x.id for b in n.body for x in ast.walk(b) if isinstance(x, ast.Name) and isinstance(x.ctx, ast.Store)}
        if test_names & body_stores:
            raise Unsupported('loop test reads %s, assigned in the loop body, line %s' % (sorted(test_names & body_stores), n.lineno))
        # summarise: star(iter) . exit
        base = st.clone()
        pre_len = len(base.out)
        # fresh iteration state
        it0 = base.clone()
        it0.out = []
        it0.new_epoch()
        iters, exits = [], []
        always_true = isinstance(n.test, ast.Constant) and n.test.value is True
        tests = [(it0, True)] if always_true else self.cond(n.test, it0)
        list_vars_before = {k: v for k, v in base.env.items() if v[0] == 'list'}
        for s, t in tests:
            if not t:
                exits.append(s)
                continue
            for s2, status, val in self.block(n.body, s):
                if status in ('next', 'continue'):
                    iters.append(s2)
                elif status == 'break':
                    exits.append(s2)
                elif status == 'raise':
                    pass
                elif status == 'return':
                    s2 = s2.clone()
                    s2._ret = val
                    exits.append(s2)
                else:
                    raise Unsupported('status %s inside loop line %s' % (status, n.lineno))
        def seq(s):
            return rx.cat(*[self.item_rx(i) for i in s.out])
        r_iter = rx.alt(*[seq(s) for s in iters]) if iters else rx.EMPTY
        res = []
        for ex in exits:
            s = base.clone()
            star_idx = len(s.out)
            s.out.append(rx.star(r_iter) if r_iter != rx.EMPTY else rx.EPS)
            s.out.append(seq(ex))
            s.new_epoch()
            s.know = dict(ex.know)
            s.c = 0
            # re-index knowledge relative to consumption in exit path
            s.know = {k - ex.c: v for k, v in ex.know.items() if k - ex.c >= 0}
            # list emptiness
            for name, v in ex.env.items():
                if v[0] == 'list':
                    before = list_vars_before.get(name)
                    if before is not None and before[1] is False:
                        appended_in_iter = all(si.env.get(name, ('list', False, None))[1] for si in iters) if iters else False
                        appended_in_exit = v[1] is True
                        if always_true:
                            s.env[name] = ('list', True if (appended_in_exit or appended_in_iter) else None, None)
                        elif appended_in_iter and s.out[star_idx] != rx.EPS and s.out[star_idx][0] == 'star':
                            s.env[name] = ('list', None, star_idx)
                        else:
                            s.env[name] = ('list', False if not appended_in_exit else True, None)
                    else:
                        s.env[name] = v
            if getattr(ex, '_ret', None) is not None:
                res.append((s, 'return', ex._ret if ex._ret[0] in ('const', 'opaque', 'node') else ('opaque',)))
            else:
                res.append((s, 'next', None))
        return res

    def item_rx(self, item):
        if item[0] == 'nt':
            return ('sym', frozenset([('NT',) + item[1]]), None) if item[2] is None else ('sym', frozenset([('NT',) + item[1] + ('first', item[2])]), None)
        return item

    def method_rx(self, name, args=()):
        st = State(self.g.atoms)
        self.stack = []
        fn = self.g.methods[name]
        paths = self.invoke_top(name, args, st)
        return rx.alt(*[rx.cat(*[self.item_rx(i) for i in s.out]) for s, v in paths])

    def invoke_top(self, name, args, st):
        self.stack = []
        fn = self.g.methods[name]
        params = [a.arg for a in fn.args.args[1:]]
        defaults = fn.args.defaults
        s = st.clone()
        for i, p in enumerate(params):
            if i < len(args):
                v = args[i]
            else:
                v = defaults[i - (len(params) - len(defaults))].value
            tagged = isinstance(v, tuple) and v and v[0] in ('fn', 'cls', 'tok', 'list', 'node', 'opaque')
            s.env[p] = v if tagged else ('const', v)
        self.stack.append(name)
        paths = self.block(fn.body, s)
        self.stack.pop()
        return [(s2, val) for s2, status, val in paths if status in ('return', 'next')]

    def function_rx(self, name):
        """Language of a module-level entry point (parse_value / parse_type): `parser = Parser(...)` is the cursor."""
        fn = self.g.functions[name]
        st = State(self.g.atoms)
        self.stack = [name]
        s = st.clone()
        for a in fn.args.args:
            s.env[a.arg] = ('opaque',)
        if fn.args.kwarg:
            s.env[fn.args.kwarg.arg] = ('opaque',)
        paths = self.block(fn.body, s)
        self.stack = []
        return rx.alt(*[rx.cat(*[self.item_rx(i) for i in s2.out]) for s2, status, val in paths if status in ('return', 'next')])


def show(r, kw=(), depth=0):
    k = r[0]
    if k == 'eps':
        return 'ε'
    if k == 'empty':
        return '∅'
    if k == 'sym':
        atoms = r[1]
        if len(atoms) == 1:
            a = next(iter(atoms))
            return str(a) if not isinstance(a, tuple) else '%s[%s]' % (a[0], ','.join(map(str, a[1:])))
        by = {}
        for a in atoms:
            if isinstance(a, tuple):
                by.setdefault(a[0], set()).add(a[1])
            else:
                by.setdefault(a, set())
        parts = []
        for c, vs in sorted(by.items()):
            if not vs:
                parts.append(c)
            elif len(vs) == len(kw) + 1 or (c in ('Integer', 'Float')):
                parts.append(c)
            elif OTHER in vs:
                parts.append('%s[^%s]' % (c, ','.join(sorted(set(kw) - vs))))
            else:
                parts.append('%s[%s]' % (c, ','.join(sorted(vs))))
        return '<' + '|'.join(parts) + '>'
    if k == 'cat':
        return ' '.join(show(x, kw, 1) for x in r[1])
    if k == 'alt':
        s = ' | '.join(show(x, kw, 1) for x in r[1])
        return '(' + s + ')'
    if k == 'star':
        return '(' + show(r[1], kw) + ')*'


