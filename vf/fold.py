"""Constant folding of small pure functions on sample inputs.

A rule sometimes has to know what a leaf function makes of a *value* (which
branch a bool / an int / None takes, what text comes back).  When the function's
tests and returned expressions are pure expressions over its inputs — builtins,
str / int methods, whitelisted standard-library functions, no call into py_gql —
they can be folded on sample values the way a compiler folds constants.  Nothing
of py_gql is imported or called: the only code evaluated is the expression text
found in the source, with the inputs bound to the samples and the namespace
restricted to ``allowed``.  An expression that needs anything else raises
FoldError (the caller decides: abort the analysis, or skip the row).
"""
import ast

from . import boolx


class FoldError(Exception):
    pass


class _Bind(ast.NodeTransformer):
    def __init__(self, texts):
        self.texts = texts

    def generic_visit(self, node):
        if isinstance(node, (ast.Attribute, ast.Name, ast.Subscript)) and isinstance(getattr(node, "ctx", None), ast.Load):
            t = ast.unparse(node)
            if t in self.texts:
                return ast.copy_location(ast.Name(id=self.texts[t], ctx=ast.Load()), node)
        return super().generic_visit(node)


def fold_expr(expr, inputs, allowed):
    """value of ``expr`` (an ast expression or its text) with every sub-expression whose text is a key of ``inputs`` bound to
    that value; names resolve in ``allowed`` only"""
    if isinstance(expr, str):
        expr = ast.parse(expr, mode="eval").body
    names = {t: "_in%d" % i for i, t in enumerate(inputs)}
    e = ast.Expression(_Bind(names).visit(boolx._clone_expr(expr)))
    ast.fix_missing_locations(e)
    bound = {x.id for c in ast.walk(e) if isinstance(c, ast.comprehension) for x in ast.walk(c.target) if isinstance(x, ast.Name)}
    for n in ast.walk(e):
        if isinstance(n, ast.Name) and n.id not in names.values() and n.id not in allowed and n.id not in bound:
            raise FoldError("name `%s` in `%s` is neither an input nor an allowed pure function" % (n.id, ast.unparse(expr)))
        if isinstance(n, (ast.Lambda, ast.Await, ast.Yield, ast.YieldFrom, ast.NamedExpr)):
            raise FoldError("`%s` is not a plain expression" % ast.unparse(expr))
        if isinstance(n, ast.Attribute) and n.attr.startswith("__"):
            raise FoldError("dunder attribute in `%s`" % ast.unparse(expr))
    env = {names[t]: v for t, v in inputs.items()}
    try:
        # one namespace (comprehension scopes resolve free names in the globals only)
        return eval(compile(e, "<fold>", "eval"), dict(allowed, __builtins__={}, **env))   # a pure expression on constants
    except FoldError:
        raise
    except Exception as ex:      # the expression itself raises on this sample: that is its value
        return ex


def fold_function(fn_node, inputs, allowed):
    """Outcomes [(kind, value)] of the executions of ``fn_node`` on the sample ``inputs`` (expression text -> value): every
    test is decided by folding it, so there is normally exactly one.  kind is 'return' / 'raise' / 'fall'."""
    def decide(t, env, e):
        # the test as written, its locals replaced by what this execution assigned to them
        val = boolx.path_subst(e, boolx.path_env(env.get(boolx.STMTS, ())))
        neg = boolx.canonical_atom(e)[1]
        try:
            v = fold_expr(val, inputs, allowed)
        except FoldError:
            # a test evaluated per element inside a comprehension / lambda does not choose the path through the statements
            cur = e
            while getattr(cur, "_parent", None) is not None:
                cur = cur._parent
                if isinstance(cur, (ast.ListComp, ast.SetComp, ast.DictComp, ast.GeneratorExp, ast.Lambda)):
                    return None
            raise
        if isinstance(v, Exception):
            raise FoldError("test `%s` raises %r on the sample" % (t, v))
        return bool(v) != neg
    decide.wants_env = True
    try:
        _ev, exits = boolx.walk_under(fn_node, decide)
    except ValueError as e:
        raise FoldError(str(e))
    out = []
    for kind, st, env in exits:
        if kind == "return" and st is not None and getattr(st, "value", None) is not None:
            val = boolx.path_subst(st.value, boolx.path_env(env.get(boolx.STMTS, ()), st))
            out.append((kind, fold_expr(val, inputs, allowed)))
        else:
            out.append((kind, None))
    return out
