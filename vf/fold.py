"""Constant folding of small pure functions on sample inputs.

A rule sometimes has to know what a leaf function makes of a *value* (which
branch a bool / an int / None takes, what text comes back).  When the function's
tests and returned expressions are pure expressions over its inputs — builtins,
str / int methods, whitelisted standard-library functions, no call into py_gql —
they can be folded on sample values the way a compiler folds constants.  Nothing
of py_gql is imported or called: the only code evaluated is the expression text
found in the source, with the inputs bound to the samples and the namespace
restricted to ``allowed``.  An expression that needs anything else raises
FoldError (the caller decides: abort the analysis, or skip the row).
"""
import ast

from . import boolx


class FoldError(Exception):
    pass


class _Bind(ast.NodeTransformer):
    def __init__(self, texts):
        self.texts = texts

    def generic_visit(self, node):
        if isinstance(node, (ast.Attribute, ast.Name, ast.Subscript)) and isinstance(getattr(node, "ctx", None), ast.Load):
            t = ast.unparse(node)
            if t in self.texts:
                return ast.copy_location(ast.Name(id=self.texts[t], ctx=ast.Load()), node)
        return super().generic_visit(node)


def fold_expr(expr, inputs, allowed):
    """value of ``expr`` (an ast expression or its text) with every sub-expression whose text is a key of ``inputs`` bound to
    that value; names resolve in ``allowed`` only"""
    if isinstance(expr, str):
        expr = ast.parse(expr, mode="eval").body
    names = {t: "_in%d" % i for i, t in enumerate(inputs)}
    e = ast.Expression(_Bind(names).visit(boolx._clone_expr(expr)))
    ast.fix_missing_locations(e)
    bound = {x.id for c in ast.walk(e) if isinstance(c, ast.comprehension) for x in ast.walk(c.target) if isinstance(x, ast.Name)}
    for n in ast.walk(e):
        if isinstance(n, ast.Name) and n.id not in names.values() and n.id not in allowed and n.id not in bound:
            raise FoldError("name `%s` in `%s` is neither an input nor an allowed pure function" % (n.id, ast.unparse(expr)))
        if isinstance(n, (ast.Lambda, ast.Await, ast.Yield, ast.YieldFrom, ast.NamedExpr)):
            raise FoldError("`%s` is not a plain expression" % ast.unparse(expr))
        if isinstance(n, ast.Attribute) and n.attr.startswith("__"):
            raise FoldError("dunder attribute in `%s`" % ast.unparse(expr))
    env = {names[t]: v for t, v in inputs.items()}
    try:
        # one namespace (comprehension scopes resolve free names in the globals only)
        return eval(compile(e, "<fold>", "eval"), dict(allowed, __builtins__={}, **env))   # a pure expression on constants
    except FoldError:
        raise
    except Exception as ex:      # the expression itself raises on this sample: that is its value
        return ex


def fold_function(fn_node, inputs, allowed):
    """Outcomes [(kind, value)] of the executions of ``fn_node`` on the sample ``inputs`` (expression text -> value): every
    test is decided by folding it, so there is normally exactly one.  kind is 'return' / 'raise' / 'fall'."""
    def decide(t, env, e):
        # the test as written, its locals replaced by what this execution assigned to them
        val = boolx.path_subst(e, boolx.path_env(env.get(boolx.STMTS, ())))
        neg = boolx.canonical_atom(e)[1]
        try:
            v = fold_expr(val, inputs, allowed)
        except FoldError:
            # a test evaluated per element inside a comprehension / lambda does not choose the path through the statements
            cur = e
            while getattr(cur, "_parent", None) is not None:
                cur = cur._parent
                if isinstance(cur, (ast.ListComp, ast.SetComp, ast.DictComp, ast.GeneratorExp, ast.Lambda)):
                    return None
            raise
        if isinstance(v, Exception):
            raise FoldError("test `%s` raises %r on the sample" % (t, v))
        return bool(v) != neg
    decide.wants_env = True
    try:
        _ev, exits = boolx.walk_under(fn_node, decide)
    except ValueError as e:
        raise FoldError(str(e))
    out = []
    for kind, st, env in exits:
        if kind == "return" and st is not None and getattr(st, "value", None) is not None:
            val = boolx.path_subst(st.value, boolx.path_env(env.get(boolx.STMTS, ()), st))
            out.append((kind, fold_expr(val, inputs, allowed)))
        else:
            out.append((kind, None))
    return out


def module_namespace(prog, modname, allowed, max_depth=40):
    """``allowed`` extended with what a pure function of module ``modname`` may name besides builtins: the module's literal
    constants (folded by the program model) and its own module-level functions, each as a wrapper that *folds* the callee on
    the argument values (interprocedural constant folding; recursion on constants is followed to ``max_depth``).  Nothing
    is imported: a callee is folded from its source like the function that calls it."""
    from .model import AnalysisError
    mod = prog.module(modname)
    ns = dict(allowed)
    depth = [0]
    for name in sorted(getattr(mod, "assigns", {})):
        if name in ns:
            continue
        try:
            ns[name] = prog.fold_name(modname, name)
        except (AnalysisError, Exception):
            pass

    def wrapper(fi):
        def call(*args, **kwargs):
            a = fi.node.args
            if a.vararg or a.kwarg or a.posonlyargs:
                raise FoldError("%s has star / positional-only parameters" % fi.qualname)
            params = [p.arg for p in a.args]
            values = {}
            defaults = dict(zip(params[len(params) - len(a.defaults):], a.defaults))
            for p, d in list(defaults.items()) + [(k.arg, d) for k, d in zip(a.kwonlyargs, a.kw_defaults) if d is not None]:
                values[p] = fold_expr(d, {}, ns)
            if len(args) > len(params):
                raise FoldError("too many arguments for %s" % fi.qualname)
            values.update(zip(params, args))
            values.update(kwargs)
            missing = [p for p in params + [k.arg for k in a.kwonlyargs] if p not in values]
            if missing:
                raise FoldError("%s called without %s" % (fi.qualname, missing))
            depth[0] += 1
            try:
                if depth[0] > max_depth:
                    raise FoldError("folding %s: recursion deeper than %d" % (fi.qualname, max_depth))
                outs = fold_function(fi.node, values, ns)
            finally:
                depth[0] -= 1
            if len(outs) != 1:
                raise FoldError("%s has %d outcomes on constant arguments" % (fi.qualname, len(outs)))
            kind, val = outs[0]
            if kind == "raise":
                raise FoldError("%s raises on constant arguments" % fi.qualname)
            if isinstance(val, Exception):
                raise val
            return val
        return call
    for f in prog.all_funcs():
        if f.module is mod and f.cls is None and getattr(f, "parent", None) is None and not isinstance(f.node, ast.Lambda) and f.name not in ns:
            if any(isinstance(x, (ast.Yield, ast.YieldFrom, ast.Await, ast.Global, ast.Nonlocal)) for x in ast.walk(f.node)):
                continue
            ns[f.name] = wrapper(f)
    return ns
