"""Hygiene bundle: six generic necessary conditions, run over the modules a property is anchored in.

Every property here reads "the outcome is a function of the inputs (and of nothing else), and failures surface as
the documented errors".  Independently of what the function computes, that needs:

Z1  no memoisation whose key can conflate inputs: a function carrying a caching decorator has only parameters annotated
    as str/bytes (immutable and type-stable); anything else (nodes, documents, schemas, types, Any, numbers — True == 1 ==
    1.0 share a slot) answers from an earlier call.
Z2  no class-level mutable container written by methods (state shared by all instances and all calls), except the
    allow-listed pure memo tables.
Z3  context threading: a parameter handed on under its own name at one call site of a callee is handed on at all of them.
Z4  sentinel handlers (except IndexError/KeyError/StopIteration) guard only the lookup.
Z5  every loop / comprehension variable is read.
Z6  exact-class tests (`type(x) is C`, `x.__class__ is C`, a dict keyed by type(x)) only against the closed hierarchies
    the library instantiates itself (lang.token, lang.ast); schema types, exceptions and instrumentations are open to
    user subclasses and must be tested with isinstance.

All six hold with zero exceptions on the whole package today, which is what makes them exact rather than ranked.
"""
import ast

from . import ctxparams
from .model import own_nodes

SAFE_ANN = {"str", "bytes", "Optional[str]", "Optional[bytes]"}
CLOSED_MODULES = ("py_gql.lang.token", "py_gql.lang.ast")
SENTINELS = {"IndexError", "KeyError", "StopIteration", "LookupError"}
PURE_METHODS = {"pop", "popleft", "get", "index", "split", "rsplit", "appendleft", "append", "items", "keys", "values"}
ALLOWED_CLASS_STATE = {}


def _mods(files):
    out = set()
    for f in files:
        m = f.replace("src/", "").replace(".py", "").replace("/", ".")
        if m.endswith(".__init__"):
            m = m[:-9]
        out.add(m)
    return out


def run_bundle(prog, run, files, floors=None):
    mods = _mods(files)
    funcs = [f for f in prog.all_funcs() if f.module.name in mods]
    classes = [c for c in prog.all_classes() if c.module.name in mods]
    scope = ", ".join(sorted(m.replace("py_gql.", "") for m in mods))
    floors = floors or {}

    # Z1
    r = run.rule("Z1", "anchored modules (%s): a function carrying a caching decorator (lru_cache / cache / cached_property / *memo*) has "
                       "only str/bytes parameters; with a node, document, schema, type, number or unannotated parameter the cached answer "
                       "outlives in-place changes of the argument or is shared by equal values of different type (True == 1 == 1.0)" % scope,
                 floors.get("Z1", max(3, len(funcs) // 2)))
    for f in funcs:
        r.instance(f.qualname, nontrivial=False)
        for d in getattr(f.node, "decorator_list", []):
            txt = ast.unparse(d)
            head = txt.split("(")[0].split(".")[-1].lower()
            if "cache" in head or "memo" in head:
                a = f.node.args
                ps = [x for x in a.posonlyargs + a.args + a.kwonlyargs if x.arg not in ("self", "cls")]
                unsafe = [x.arg for x in ps if x.annotation is None or ast.unparse(x.annotation) not in SAFE_ANN]
                if "cached_property" in head or (f.cls is not None and not ps):
                    unsafe = ["self"]
                if unsafe and "typed=True" not in txt.replace(" ", ""):
                    run.report(r, "%s:%s:memoised(%s)" % (f.module.name, f.qualname, txt.split("(")[0]), f.where(),
                               "%s is decorated with @%s and its parameter(s) %s are not plain str/bytes: the remembered answer is reused "
                               "after the argument was changed in place, or for an equal value of another type" % (f.qualname, txt, ", ".join(unsafe)))

    # Z2
    r = run.rule("Z2", "anchored modules (%s): no class keeps a mutable container (set/dict/list literal or constructor call in the class "
                       "body) that its own or its subclasses' methods write: such state is shared by every instance and every call" % scope,
                 floors.get("Z2", max(1, len(classes) // 2)))
    for c in classes:
        r.instance(c.name, nontrivial=False)
        for an, av in c.attrs.items():
            if an.startswith("__"):
                continue
            mutable = isinstance(av, (ast.Dict, ast.List, ast.Set, ast.ListComp, ast.DictComp, ast.SetComp)) or (
                isinstance(av, ast.Call) and isinstance(av.func, ast.Name) and av.func.id in ("dict", "list", "set", "OrderedDict", "defaultdict", "deque"))
            if not mutable or (c.module.name, c.name, an) in ALLOWED_CLASS_STATE:
                continue
            written = any(
                (isinstance(n, ast.Call) and isinstance(n.func, ast.Attribute) and isinstance(n.func.value, ast.Attribute) and n.func.value.attr == an
                 and n.func.attr in ("add", "append", "update", "clear", "pop", "setdefault", "extend", "discard", "remove", "insert"))
                or (isinstance(n, ast.Subscript) and isinstance(n.ctx, ast.Store) and isinstance(n.value, ast.Attribute) and n.value.attr == an)
                for k in [c] + prog.subclasses(c) for m in k.methods.values() for n in ast.walk(m.node))
            # an instance attribute of the same name assigned in __init__ shadows the class attribute
            shadowed = any(isinstance(n, ast.Assign) and any(isinstance(t, ast.Attribute) and t.attr == an and isinstance(t.value, ast.Name)
                                                             and t.value.id == "self" for t in n.targets)
                           for k in c.mro() for mn, m in k.methods.items() if mn == "__init__" for n in ast.walk(m.node))
            if written and not shadowed:
                run.report(r, "%s:%s:class-level-state(%s)" % (c.module.name, c.name, an), c.module.relpath,
                           "%s.%s is a mutable container created in the class body and written by methods: all instances share it" % (c.name, an))

    # Z3
    r = run.rule("Z3", "anchored modules (%s): context threading — a parameter handed on unchanged under its own name to an optional "
                       "parameter of a callee at one call site is handed on at every call site of that callee in the same function" % scope,
                 floors.get("Z3", 0))
    inst, probs = ctxparams.check(prog, funcs)
    r.instance("%d functions scanned" % len(funcs), nontrivial=False)
    for i in inst:
        r.instance(i)
    for g, n, f, p in probs:
        run.report(r, "%s:%s:drops-context(%s->%s)" % (g.module.name, g.qualname, p, f.qualname), g.where(n),
                   "`%s` calls %s without `%s` although its other calls pass it on" % (" ".join(ast.unparse(n).split())[:80], f.qualname, p))

    # Z4
    r = run.rule("Z4", "anchored modules (%s): a `try` whose handler catches IndexError / KeyError / StopIteration contains only the "
                       "lookup (no repository call, no method of self, no local callable): the handler cannot swallow an unrelated "
                       "exception of that class raised deeper down" % scope, floors.get("Z4", 0))
    r.instance("%d functions scanned" % len(funcs), nontrivial=False)
    for f in funcs:
        for n in own_nodes(f.node):
            if not isinstance(n, ast.Try):
                continue
            caught = set()
            for h in n.handlers:
                if h.type is not None:
                    caught |= {x.id for x in ast.walk(h.type) if isinstance(x, ast.Name)}
            if not (caught & SENTINELS):
                continue
            r.instance("%s: try guarding `%s`" % (f.qualname, " ".join(ast.unparse(n.body[0]).split())[:50]))
            for st in n.body:
                for c in ast.walk(st):
                    if not isinstance(c, ast.Call):
                        continue
                    fn = c.func
                    ok = (isinstance(fn, ast.Name) and fn.id in ("next", "len", "int", "str", "iter", "tuple", "list", "cast", "type", "id", "hash", "repr", "isinstance", "getattr", "frozenset", "set", "dict", "min", "max", "sorted")) or (
                        isinstance(fn, ast.Attribute) and fn.attr in PURE_METHODS and not (isinstance(fn.value, ast.Name) and fn.value.id == "self"))
                    if not ok:
                        run.report(r, "%s:%s:wide-sentinel-handler(%s)" % (f.module.name, f.qualname, " ".join(ast.unparse(fn).split())), f.where(c),
                                   "`%s` is called inside a try whose handler reads %s as 'nothing found'" % (
                                       " ".join(ast.unparse(c).split())[:80], "/".join(sorted(caught & SENTINELS))))

    # Z5
    r = run.rule("Z5", "anchored modules (%s): every loop / comprehension variable is read inside its loop (names starting with `_` "
                       "exempt): an unread one means the body works on another, stale variable once per item" % scope, floors.get("Z5", 1))

    def names(n):
        return {x.id for x in ast.walk(n) if isinstance(x, ast.Name)}
    for f in funcs:
        for n in own_nodes(f.node):
            if isinstance(n, (ast.ListComp, ast.SetComp, ast.GeneratorExp, ast.DictComp)):
                elts = [n.key, n.value] if isinstance(n, ast.DictComp) else [n.elt]
                for i, g in enumerate(n.generators):
                    used = set()
                    for e in elts:
                        used |= names(e)
                    for c in g.ifs:
                        used |= names(c)
                    for g2 in n.generators[i + 1:]:
                        used |= names(g2.iter)
                        for c in g2.ifs:
                            used |= names(c)
                    r.instance("comprehension in %s" % f.qualname, nontrivial=False)
                    for t in sorted(names(g.target)):
                        if t not in used and not t.startswith("_"):
                            run.report(r, "%s:%s:unused-iteration-variable(%s)" % (f.module.name, f.qualname, t), f.where(n),
                                       "`%s` never reads its variable `%s`" % (" ".join(ast.unparse(n).split())[:90], t))
            elif isinstance(n, (ast.For, ast.AsyncFor)):
                used = set()
                for st in n.body:
                    used |= names(st)
                r.instance("for in %s" % f.qualname, nontrivial=False)
                for t in sorted(names(n.target)):
                    if t not in used and not t.startswith("_"):
                        run.report(r, "%s:%s:unused-iteration-variable(%s)" % (f.module.name, f.qualname, t), f.where(n),
                                   "the loop over `%s` never reads its variable `%s`" % (ast.unparse(n.iter), t))

    # Z6
    r = run.rule("Z6", "anchored modules (%s): exact-class tests against a named class (`type(x) is C`, `x.__class__ == C`, membership of "
                       "type(x) in a literal tuple, a dict subscripted with type(x)) are used only for the closed hierarchies lang.token "
                       "and lang.ast; classes users may subclass (schema types, errors, instrumentations) are tested with isinstance" % scope,
                 floors.get("Z6", 0))
    r.instance("%d functions scanned" % len(funcs), nontrivial=False)

    def class_targets(f, e):
        out = []
        for x in ([e] if not isinstance(e, (ast.Tuple, ast.List, ast.Set)) else e.elts):
            if isinstance(x, (ast.Name, ast.Attribute)):
                rr = prog.resolve_expr(f.module, x) if isinstance(x, ast.Attribute) else prog.resolve_name(f.module, x.id)
                if rr and rr[0] == "class":
                    out.append(rr[1])
        return out
    for f in funcs:
        for n in own_nodes(f.node):
            tested = None
            if isinstance(n, ast.Compare) and len(n.ops) == 1 and isinstance(n.ops[0], (ast.Is, ast.IsNot, ast.Eq, ast.NotEq, ast.In, ast.NotIn)):
                l = n.left
                if (isinstance(l, ast.Call) and isinstance(l.func, ast.Name) and l.func.id == "type" and len(l.args) == 1) or (
                        isinstance(l, ast.Attribute) and l.attr == "__class__"):
                    tested = class_targets(f, n.comparators[0])
            elif isinstance(n, ast.Subscript) and isinstance(n.slice, ast.Call) and isinstance(n.slice.func, ast.Name) and n.slice.func.id == "type" \
                    and isinstance(n.value, ast.Name):
                rr = prog.resolve_name(f.module, n.value.id)
                if rr and rr[0] == "assign" and isinstance(rr[1], ast.Dict):
                    tested = [c for k in rr[1].keys if k is not None for c in class_targets(f, k)]
            if not tested:
                continue
            r.instance("%s: `%s`" % (f.qualname, " ".join(ast.unparse(n).split())[:60]))
            for c in tested:
                if c.module.name not in CLOSED_MODULES:
                    run.report(r, "%s:%s:exact-class-test(%s)" % (f.module.name, f.qualname, c.name), f.where(n),
                               "`%s` matches %s by exact class: an instance of a subclass (the library's own RegexType, a user's "
                               "ResolverError or ScalarType subclass) is not recognised" % (" ".join(ast.unparse(n).split())[:80], c.name))
