"""Hygiene bundle, second part (Z7-Z10): state that outlives the unit of work it belongs to.

Every property reads "the outcome is a function of the inputs of *this* request / node / iteration".  Four ways in which
an earlier request, node or iteration leaks into the next one, each visible in the shape of the code:

Z7   hand-written memo tables (`try: return C[k] except KeyError: ... C[k] = v`, `if k in C: return C[k]`): the key must
     determine the remembered value.  A key component `id(x)` / `hash(x)` / `len(x)` / `str(x)` / `repr(x)` does not
     (ids are recycled once the object is freed — unless the table belongs to a request context that itself keeps the
     schema object or document node x alive; the others conflate distinct values); a component `type(x)` /
     `x.__class__` does only when the miss path uses `x` through type-determined predicates alone (isinstance,
     issubclass, inspect.isawaitable / iscoroutine*, type()).
Z8   a class that has a method re-initialising one of its memo tables (an invalidation method) re-initialises all of
     them there: a table left out keeps answering from before the change.
Z9   a local that carries state from one loop iteration to the next and is dead outside the loop is one of the
     idioms the package uses: the control variable of a `while`, a running counter (only augmented assignments), a
     duplicate-detection set (only `.add` and membership tests), or an accumulator that is read where the loop is left
     (after it, or in a block ending in return / raise inside it).
     Anything else (a dict filled per item and looked up by later items, a value assigned on some paths only and read on
     all) makes the result for one element depend on the elements before it.
Z10  visitor classes: an attribute assigned in `enter_K` from the node (not a fresh container) is assigned again in
     `leave_K`: otherwise it still describes node K while its siblings and the rest of the document are visited.

Like Z1-Z6 these hold without exception on the anchored modules of every property today.
"""
import ast

from .canon import Canon
from .hygiene import _mods

LOSSY = {"id", "hash", "len", "str", "repr"}
TYPE_PREDICATES = {"isinstance", "issubclass", "isawaitable", "iscoroutine", "iscoroutinefunction", "isfuture", "type", "callable"}
MUT = {"append", "add", "update", "extend", "setdefault", "pop", "remove", "insert", "clear", "discard", "popitem", "appendleft", "popleft"}
FN = (ast.FunctionDef, ast.AsyncFunctionDef, ast.Lambda, ast.ClassDef)
FRESH_CALLS = {"set", "dict", "list", "OrderedDict", "defaultdict", "DefaultOrderedDict", "deque", "frozenset", "tuple"}


def own_walk(node):
    stack = [node]
    while stack:
        n = stack.pop()
        yield n
        for ch in ast.iter_child_nodes(n):
            if isinstance(ch, FN):
                continue
            stack.append(ch)


def _txt(e):
    return " ".join(ast.unparse(e).split())


def _fresh_container(v):
    if isinstance(v, (ast.Dict, ast.List, ast.Set, ast.ListComp, ast.SetComp, ast.DictComp)):
        return True
    if isinstance(v, ast.Call):
        f = v.func
        name = f.id if isinstance(f, ast.Name) else f.attr if isinstance(f, ast.Attribute) else None
        return name in FRESH_CALLS
    return False


# ------------------------------------------------------------------------------------------------ memo sites
class MemoSite:
    def __init__(self, fi, container, key, store, lookups):
        self.fi, self.container, self.key, self.store, self.lookups = fi, container, key, store, lookups


def _default_containers(fn):
    """parameters whose default is a fresh container (`cache={}`): state shared by every call"""
    out = set()
    a = fn.args
    pos = a.posonlyargs + a.args
    for p, d in zip(pos[len(pos) - len(a.defaults):], a.defaults):
        if _fresh_container(d):
            out.add(p.arg)
    for p, d in zip(a.kwonlyargs, a.kw_defaults):
        if d is not None and _fresh_container(d):
            out.add(p.arg)
    return out


def memo_sites(fi):
    """Hand-written memo tables of one function: (container text, key expr, store node, lookup nodes).  The container
    is an attribute of self, a module-level name or a parameter with a mutable default; the function both stores
    `C[k] = v` and answers from `C[k]` (returned directly or through a local)."""
    fn = fi.node
    if isinstance(fn, ast.Lambda):
        return []
    cn = Canon(fn)
    defaults = _default_containers(fn)
    params = {a.arg for a in fn.args.posonlyargs + fn.args.args + fn.args.kwonlyargs}

    def container_of(e):
        c = cn.expr(e)
        if isinstance(c, ast.Attribute) and isinstance(c.value, ast.Name) and c.value.id in ("self", "cls"):
            return _txt(c)
        if isinstance(c, ast.Name) and (c.id in defaults or (c.id not in params and fi.module.names.get(c.id, (None,))[0] == "assign")):
            return c.id
        return None
    stores, loads, tests = {}, {}, {}
    for n in own_walk(fn):
        if isinstance(n, ast.Subscript):
            c = container_of(n.value)
            if c is None:
                continue
            if isinstance(n.ctx, ast.Store):
                stores.setdefault(c, []).append(n)
            elif isinstance(n.ctx, ast.Load):
                loads.setdefault(c, []).append(n)
        elif isinstance(n, ast.Compare) and len(n.ops) == 1 and isinstance(n.ops[0], (ast.In, ast.NotIn)):
            c = container_of(n.comparators[0])
            if c is not None:
                tests.setdefault(c, []).append(n)
        elif isinstance(n, ast.Call) and isinstance(n.func, ast.Attribute) and n.func.attr == "get" and n.args:
            c = container_of(n.func.value)
            if c is not None:
                loads.setdefault(c, []).append(n)
    out = []
    for c, sts in sorted(stores.items()):
        lks = loads.get(c, []) + tests.get(c, [])
        if not lks:
            continue
        # the table answers the caller: some lookup value is returned (directly, or the function returns inside the
        # branch guarded by the membership test)
        returned = False
        for r in own_walk(fn):
            if isinstance(r, ast.Return) and r.value is not None:
                rv = cn.expr(r.value)
                for x in ast.walk(rv):
                    if isinstance(x, ast.Subscript) and container_of(x.value) == c:
                        returned = True
                    if isinstance(x, ast.Call) and isinstance(x.func, ast.Attribute) and x.func.attr == "get" and container_of(x.func.value) == c:
                        returned = True
        if not returned:
            continue
        for s in sts:
            key = s.slice
            out.append(MemoSite(fi, c, key, s, lks))
    return out


def _key_components(cn, key):
    k = cn.expr(key)
    if isinstance(k, ast.Name):
        # a local assigned more than once (`key = None` ... `key = a, type(b)`): every value it is given
        vals = [n.value for n in ast.walk(cn.fn) if isinstance(n, ast.Assign) and len(n.targets) == 1 and isinstance(n.targets[0], ast.Name)
                and n.targets[0].id == k.id and not (isinstance(n.value, ast.Constant) and n.value.value is None)]
        if vals:
            out = []
            for v in vals:
                v = cn.expr(v)
                out.extend(v.elts if isinstance(v, ast.Tuple) else [v])
            return out
    return list(k.elts) if isinstance(k, ast.Tuple) else [k]


def _call_name(c, fn):
    """name of a called function, following parameters defaulted to a builtin (`__isinstance=isinstance`)"""
    f = c.func
    name = f.id if isinstance(f, ast.Name) else f.attr if isinstance(f, ast.Attribute) else None
    if isinstance(f, ast.Name) and not isinstance(fn, ast.Lambda):
        a = fn.args
        pos = a.posonlyargs + a.args
        for p, d in list(zip(pos[len(pos) - len(a.defaults):], a.defaults)) + [(p, d) for p, d in zip(a.kwonlyargs, a.kw_defaults) if d is not None]:
            if p.arg == f.id and isinstance(d, (ast.Name, ast.Attribute)):
                name = d.id if isinstance(d, ast.Name) else d.attr
    return name


def _kept_alive(prog, f, site, arg):
    """id(P) is a sound key component when the table cannot outlive P: the table is an attribute of a request context (a
    class whose __init__ stores both the schema and the document it works on) and P is a parameter annotated as a schema
    object or a document node — both are referenced by that context for as long as the table exists."""
    if not (site.container.startswith("self.") and f.cls is not None and isinstance(arg, ast.Name)):
        return False
    holds = set()
    for c in f.cls.mro():
        init = c.methods.get("__init__") if hasattr(c, "methods") else None
        if init is None:
            continue
        for n in own_walk(init.node):
            if isinstance(n, ast.Attribute) and isinstance(n.ctx, ast.Store) and isinstance(n.value, ast.Name) and n.value.id == "self":
                holds.add(n.attr)
    if not {"schema", "document"} <= holds:
        return False
    for a in f.node.args.posonlyargs + f.node.args.args + f.node.args.kwonlyargs:
        if a.arg == arg.id and a.annotation is not None:
            for x in ast.walk(a.annotation):
                nm = x.id if isinstance(x, ast.Name) else x.attr if isinstance(x, ast.Attribute) else None
                if nm is None:
                    continue
                rr = prog.resolve_name(f.module, nm) if isinstance(x, ast.Name) else prog.resolve_expr(f.module, x)
                if rr and rr[0] == "class" and rr[1].module.name in ("py_gql.schema.types", "py_gql.lang.ast"):
                    return True
    return False


def check_memo_keys(prog, run, funcs, scope, floor):
    r = run.rule("Z7", "anchored modules (%s): the key of every hand-written memo table determines the remembered value — no key "
                       "component is id()/hash()/len()/str()/repr() of an object (ids are reused once the object is freed, the others "
                       "conflate values), and a component type(x) / x.__class__ is used only when the miss path looks at x through "
                       "type-determined predicates (isinstance, issubclass, isawaitable, ...) alone; a parameter defaulting to a "
                       "mutable container is such a memo table and nothing else" % scope, floor)
    sites = []
    for f in funcs:
        if isinstance(f.node, ast.Lambda):
            continue
        for s in memo_sites(f):
            sites.append(s)
    # a mutable default argument is state shared by every call: the only use the package makes of one is a memo table
    memo_containers = {(s.fi.key, s.container) for s in sites}
    for f in funcs:
        if isinstance(f.node, ast.Lambda):
            continue
        for pname in sorted(_default_containers(f.node)):
            if (f.key, pname) not in memo_containers:
                run.report(r, "%s:%s:mutable-default(%s)" % (f.module.name, f.qualname, pname), f.where(),
                           "the parameter `%s` of %s defaults to a container created once, at definition time: whatever one call puts "
                           "into it is there for every later call" % (pname, f.qualname))
    seen = set()
    for s in sites:
        f = s.fi
        cn = Canon(f.node)
        comps = _key_components(cn, s.key)
        ident = (f.key, s.container)
        if ident not in seen:
            r.instance("%s: table %s keyed by (%s)" % (f.qualname, s.container, ", ".join(_txt(c) for c in comps)))
            seen.add(ident)
        for c in comps:
            for x in ast.walk(c):
                if isinstance(x, ast.Call) and isinstance(x.func, ast.Name) and x.func.id == "id" and x.args and _kept_alive(prog, f, s, x.args[0]):
                    continue     # a request-scoped table keyed by the identity of an object the request itself keeps alive
                if isinstance(x, ast.Call) and isinstance(x.func, ast.Name) and x.func.id in LOSSY and x.args:
                    run.report(r, "%s:%s:memo-key(%s:%s)" % (f.module.name, f.qualname, s.container, x.func.id), f.where(s.store),
                               "the memo table %s is keyed by `%s`: %s, so a later, different argument is answered with the value "
                               "remembered for an earlier one" % (s.container, _txt(x), "the id of an object is handed out again once the "
                               "object is freed (the table does not keep it alive)" if x.func.id == "id" else "distinct values share one key"))
            # class-of-x components
            for x in ast.walk(c):
                subj = None
                if isinstance(x, ast.Call) and isinstance(x.func, ast.Name) and x.func.id == "type" and len(x.args) == 1 and isinstance(x.args[0], ast.Name):
                    subj = x.args[0].id
                elif isinstance(x, ast.Attribute) and x.attr == "__class__" and isinstance(x.value, ast.Name):
                    subj = x.value.id
                if subj is None:
                    continue
                bad = []
                for n in own_walk(f.node):
                    if isinstance(n, ast.Name) and n.id == subj and isinstance(n.ctx, ast.Load):
                        par = getattr(n, "_parent", None)
                        if isinstance(par, ast.Call) and n in par.args and par.args and par.args[0] is n and _call_name(par, f.node) in TYPE_PREDICATES:
                            continue
                        if isinstance(par, ast.Attribute) and par.attr == "__class__":
                            continue
                        bad.append(n)
                if bad:
                    run.report(r, "%s:%s:memo-key(%s:class-of-%s)" % (f.module.name, f.qualname, s.container, "value"), f.where(bad[0]),
                               "the memo table %s is keyed by the class of `%s`, but the remembered value is computed from `%s` itself "
                               "(`%s`): two values of one class that differ in what is read get the answer of whichever came first"
                               % (s.container, subj, subj, _txt(getattr(bad[0], "_parent", bad[0]))[:80]))
    return sites


def check_memo_reset(prog, run, classes, scope, floor):
    r = run.rule("Z8", "anchored modules (%s): a method (other than __init__) that re-initialises one memo table of its class "
                       "re-initialises every memo table of the class; a table left out keeps answering from before the change" % scope, floor)
    for c in classes:
        tables = {}
        for m in c.methods.values():
            if m.name == "__init__" or isinstance(m.node, ast.Lambda):
                continue
            for s in memo_sites(m):
                if s.container.startswith("self."):
                    tables.setdefault(s.container, m)
        if not tables:
            continue
        r.instance("%s: memo tables %s" % (c.name, ", ".join(sorted(tables))), nontrivial=False)
        for m in c.methods.values():
            if m.name == "__init__":
                continue
            reset, kept = set(), set()
            for n in own_walk(m.node):
                if isinstance(n, (ast.Assign, ast.AnnAssign)):
                    tg = n.targets if isinstance(n, ast.Assign) else [n.target]
                    for t in tg:
                        if isinstance(t, ast.Attribute) and isinstance(t.value, ast.Name) and t.value.id == "self" and n.value is not None \
                                and _fresh_container(n.value):
                            # a table rebuilt *from itself* (a filtering comprehension over its own items) is not started afresh:
                            # whatever the filter keeps still answers from before the change
                            carried = any(isinstance(x, ast.Attribute) and x.attr == t.attr and isinstance(x.value, ast.Name) and x.value.id == "self"
                                          and isinstance(x.ctx, ast.Load) for x in ast.walk(n.value))
                            if carried:
                                kept.add("self." + t.attr)
                            else:
                                reset.add("self." + t.attr)
                elif isinstance(n, ast.Call) and isinstance(n.func, ast.Attribute) and n.func.attr == "clear" and _txt(n.func.value) in tables:
                    reset.add(_txt(n.func.value))
            if reset & set(tables):
                r.instance("%s.%s resets %s" % (c.name, m.name, ", ".join(sorted(reset & set(tables)))))
                for t in sorted(set(tables) - reset):
                    run.report(r, "%s:%s.%s:memo-not-reset(%s)" % (c.module.name, c.name, m.name, t), m.where(),
                               "%s.%s starts %s afresh but not %s (filled by %s): after the change it invalidates for, %s still "
                               "answers with what it remembered before" % (c.name, m.name, ", ".join(sorted(reset & set(tables))), t,
                                                                           tables[t].qualname, t))


# ------------------------------------------------------------------------------------------------ loop-carried state
def _target_names(t):
    return {n.id for n in ast.walk(t) if isinstance(n, ast.Name) and isinstance(n.ctx, ast.Store)}


class _Scan:
    """definite-assignment walk of one loop body: names of `watch` read where this iteration has not assigned them"""

    def __init__(self, watch):
        self.watch = watch
        self.carried = {}

    def expr(self, e, A):
        if e is None:
            return
        bound = set()
        for n in own_walk(e):
            if isinstance(n, ast.comprehension):
                bound |= _target_names(n.target)
        for n in ast.walk(e):
            if isinstance(n, ast.Name) and isinstance(n.ctx, ast.Load) and n.id in self.watch and n.id not in A and n.id not in bound:
                self.carried.setdefault(n.id, n)

    def block(self, stmts, A):
        for st in stmts:
            A = self.stmt(st, A)
            if A is None:
                return None
        return A

    def stmt(self, st, A):
        if isinstance(st, FN):
            self.expr(st, A)
            return A | {st.name}
        if isinstance(st, (ast.Assign, ast.AnnAssign)):
            self.expr(st.value, A)
            tgts = st.targets if isinstance(st, ast.Assign) else [st.target]
            new = set()
            for t in tgts:
                for n in own_walk(t):
                    if isinstance(n, ast.Name) and isinstance(n.ctx, ast.Load):
                        self.expr(n, A)
                if st.value is not None:
                    new |= _target_names(t)
            return A | new
        if isinstance(st, ast.AugAssign):
            self.expr(st.value, A)
            if isinstance(st.target, ast.Name):
                if st.target.id in self.watch and st.target.id not in A:
                    self.carried.setdefault(st.target.id, st.target)
            else:
                self.expr(st.target, A)
            return A
        if isinstance(st, ast.If):
            self.expr(st.test, A)
            a1 = self.block(st.body, set(A))
            a2 = self.block(st.orelse, set(A))
            if a1 is None:
                return a2
            if a2 is None:
                return a1
            return a1 & a2
        if isinstance(st, (ast.For, ast.AsyncFor)):
            self.expr(st.iter, A)
            self.block(st.body, A | _target_names(st.target))
            self.block(st.orelse, set(A))
            return A
        if isinstance(st, ast.While):
            self.expr(st.test, A)
            self.block(st.body, set(A))
            self.block(st.orelse, set(A))
            return A
        if isinstance(st, ast.Try):
            ab = self.block(st.body, set(A))
            outs = []
            if ab is not None:
                ao = self.block(st.orelse, set(ab))
                if ao is not None:
                    outs.append(ao)
            for h in st.handlers:
                self.expr(h.type, A)
                ah = self.block(h.body, set(A) | ({h.name} if h.name else set()))
                if ah is not None:
                    outs.append(ah)
            if not outs:
                self.block(st.finalbody, set(A))
                return None
            return self.block(st.finalbody, set.intersection(*outs))
        if isinstance(st, (ast.With, ast.AsyncWith)):
            new = set()
            for it in st.items:
                self.expr(it.context_expr, A)
                if it.optional_vars is not None:
                    new |= _target_names(it.optional_vars)
            return self.block(st.body, A | new)
        if isinstance(st, (ast.Return, ast.Raise)):
            for ch in ast.iter_child_nodes(st):
                self.expr(ch, A)
            return None
        if isinstance(st, (ast.Continue, ast.Break)):
            return None
        for ch in ast.iter_child_nodes(st):
            self.expr(ch, A)
        return A


def loop_carried(fn):
    """yields (loop, name, kind, first carried read, ops) for every local that carries state across iterations of a loop
    of fn and is dead outside that loop (reads in a return / raise inside the loop count as 'outside': the loop is left)."""
    if isinstance(fn, ast.Lambda):
        return
    params = {a.arg for a in fn.args.posonlyargs + fn.args.args + fn.args.kwonlyargs} | \
             ({fn.args.vararg.arg} if fn.args.vararg else set()) | ({fn.args.kwarg.arg} if fn.args.kwarg else set())
    nonlocals = {n for x in ast.walk(fn) if isinstance(x, (ast.Nonlocal, ast.Global)) for n in x.names}
    loops = [n for n in own_walk(fn) if isinstance(n, (ast.For, ast.AsyncFor, ast.While))]
    for L in loops:
        stored, mut = set(), {}
        for s in L.body:
            for n in own_walk(s):
                if isinstance(n, ast.Name) and isinstance(n.ctx, ast.Store):
                    stored.add(n.id)
                if isinstance(n, ast.Call) and isinstance(n.func, ast.Attribute) and n.func.attr in MUT and isinstance(n.func.value, ast.Name):
                    mut.setdefault(n.func.value.id, set()).add(n.func.attr)
                if isinstance(n, ast.Subscript) and isinstance(n.ctx, (ast.Store, ast.Del)) and isinstance(n.value, ast.Name):
                    mut.setdefault(n.value.id, set()).add("[]=")
        sc = _Scan(stored)
        A0 = _target_names(L.target) if not isinstance(L, ast.While) else set()
        sc.block(L.body, set(A0))
        control = {n.id for n in ast.walk(L.test) if isinstance(n, ast.Name)} if isinstance(L, ast.While) else set()
        inside = {id(n) for n in ast.walk(L)}
        exits = set()
        for n in own_walk(L):
            # a statement list that ends by leaving the function: everything it reads is read "where the loop is left"
            for field in ("body", "orelse", "finalbody"):
                blk = getattr(n, field, None)
                if isinstance(blk, list) and blk and isinstance(blk[-1], (ast.Return, ast.Raise)):
                    for st in blk:
                        exits |= {id(x) for x in ast.walk(st)}
        aug_only = set()
        for v in stored:
            kinds = set()
            for s in L.body:
                for n in own_walk(s):
                    if isinstance(n, ast.Name) and n.id == v and isinstance(n.ctx, ast.Store):
                        kinds.add(type(getattr(n, "_parent", None)).__name__)
            if kinds == {"AugAssign"}:
                aug_only.add(v)       # a running counter / sum: carrying is what an augmented assignment says

        def reads_outside(v):
            return [n for n in ast.walk(fn) if isinstance(n, ast.Name) and n.id == v and isinstance(n.ctx, ast.Load)
                    and (id(n) not in inside or id(n) in exits)]
        for v, node in sorted(sc.carried.items()):
            if v in params or v in nonlocals or v in control or v in aug_only or reads_outside(v):
                continue
            yield L, v, "value", node, set()
        for v, ops in sorted(mut.items()):
            if v in stored or v in params or v in nonlocals:
                continue
            reads = []
            for s in L.body:
                for n in ast.walk(s):
                    if isinstance(n, ast.Name) and n.id == v and isinstance(n.ctx, ast.Load):
                        par = getattr(n, "_parent", None)
                        if isinstance(par, ast.Attribute) and par.attr in MUT and isinstance(getattr(par, "_parent", None), ast.Call):
                            continue
                        if isinstance(par, ast.Subscript) and isinstance(par.ctx, (ast.Store, ast.Del)):
                            continue
                        reads.append(n)
            if not reads or reads_outside(v):
                continue
            yield L, v, "container", reads[0], ops


def _dedupe_set(fn, v, _depth=0):
    """every use of v in fn is its creation as a set (or as another local that is such a set: a helper that builds the set is
    analysed inlined and hands it over through a local), `.add(..)`, or a membership test"""
    for n in ast.walk(fn):
        if isinstance(n, ast.Name) and n.id == v:
            par = getattr(n, "_parent", None)
            if isinstance(n.ctx, ast.Store):
                val = getattr(par, "value", None)
                if isinstance(par, (ast.Assign, ast.AnnAssign)) and (isinstance(val, (ast.Set, ast.SetComp)) or (
                        isinstance(val, ast.Call) and isinstance(val.func, ast.Name) and val.func.id == "set")):
                    continue
                if isinstance(par, (ast.Assign, ast.AnnAssign)) and isinstance(val, ast.Name) and val.id != v and _depth < 2 \
                        and _dedupe_set_source(fn, val.id, v, _depth + 1):
                    continue
                return False
            if isinstance(par, ast.Attribute) and par.attr == "add":
                continue
            if isinstance(par, ast.Compare) and len(par.ops) == 1 and isinstance(par.ops[0], (ast.In, ast.NotIn)) and par.comparators[0] is n:
                continue
            return False
    return True


def _dedupe_set_source(fn, src, heir, depth):
    """src is created as a set, only .add-ed to / tested, and then handed to ``heir`` (its only other use)"""
    for n in ast.walk(fn):
        if isinstance(n, ast.Name) and n.id == src:
            par = getattr(n, "_parent", None)
            if isinstance(n.ctx, ast.Store):
                val = getattr(par, "value", None)
                if isinstance(par, (ast.Assign, ast.AnnAssign)) and (isinstance(val, (ast.Set, ast.SetComp)) or (
                        isinstance(val, ast.Call) and isinstance(val.func, ast.Name) and val.func.id == "set")):
                    continue
                return False
            if isinstance(par, ast.Attribute) and par.attr == "add":
                continue
            if isinstance(par, ast.Compare) and len(par.ops) == 1 and isinstance(par.ops[0], (ast.In, ast.NotIn)) and par.comparators[0] is n:
                continue
            if isinstance(par, (ast.Assign, ast.AnnAssign)) and par.value is n and all(isinstance(t, ast.Name) and t.id == heir for t in
                                                                                      (par.targets if isinstance(par, ast.Assign) else [par.target])):
                continue
            return False
    return True


def check_loop_state(prog, run, funcs, scope, floor):
    r = run.rule("Z9", "anchored modules (%s): a local that carries state from one loop iteration to the next (a value that may be "
                       "read before this iteration assigned it, or a container created before the loop, changed and read inside it) "
                       "and is dead outside the loop is the control variable of a `while` or a duplicate-detection set (only .add and "
                       "membership tests); anything else lets the result for one element depend on the elements visited before it" % scope, floor)
    n_loops = 0
    for f in funcs:
        if isinstance(f.node, ast.Lambda):
            continue
        n_loops += sum(1 for n in own_walk(f.node) if isinstance(n, (ast.For, ast.AsyncFor, ast.While)))
        reported = set()
        for L, v, kind, node, ops in loop_carried(f.node):
            if kind == "container" and _dedupe_set(f.node, v):
                r.instance("%s: duplicate-detection set in the loop over `%s`" % (f.qualname, _txt(L.iter if not isinstance(L, ast.While) else L.test)[:50]))
                continue
            role = "%s(%s)" % (kind, ",".join(sorted(ops))) if ops else kind
            if (role,) in reported:
                continue
            reported.add((role,))
            run.report(r, "%s:%s:loop-carried-%s" % (f.module.name, f.qualname, role), f.where(node),
                       "`%s` is %s in the loop over `%s` and read there (`%s`) without being used outside the loop: "
                       "what one iteration leaves in it is seen by the following ones"
                       % (v, "a container created before the loop and changed (%s)" % ", ".join(sorted(ops)) if kind == "container"
                          else "assigned on some paths only", _txt(L.iter if not isinstance(L, ast.While) else L.test)[:60],
                          _txt(getattr(node, "_parent", node))[:70]))
    # a parameter overwritten inside a `for` body with a value that does not depend on it (not the fold `x = f(x)`): what the
    # caller passed is gone for the iterations that follow
    for f in funcs:
        if isinstance(f.node, ast.Lambda):
            continue
        params = set(f.all_params)
        for L in own_walk(f.node):
            if not isinstance(L, (ast.For, ast.AsyncFor)):
                continue
            for st in L.body:
                for x in ast.walk(st):
                    if isinstance(x, (ast.FunctionDef, ast.AsyncFunctionDef, ast.Lambda)):
                        continue
                    if isinstance(x, ast.Assign) and len(x.targets) == 1 and isinstance(x.targets[0], ast.Name) and x.targets[0].id in params:
                        p_ = x.targets[0].id
                        if any(isinstance(y, ast.Name) and y.id == p_ for y in ast.walk(x.value)):
                            continue
                        reads = [y for s2 in L.body for y in ast.walk(s2) if isinstance(y, ast.Name) and y.id == p_ and isinstance(y.ctx, ast.Load)]
                        if reads:
                            run.report(r, "%s:%s:parameter-overwritten-in-loop(%s)" % (f.module.name, f.qualname, p_), f.where(x),
                                       "the parameter `%s` is overwritten inside the loop over `%s` (`%s`) and read there: the iterations that "
                                       "follow see the value one element left behind instead of what the caller passed"
                                       % (p_, _txt(L.iter)[:50], _txt(x)[:70]))
    r.instance("%d loops scanned" % n_loops, nontrivial=False)


# ------------------------------------------------------------------------------------------------ visitor scopes
def check_visitor_scopes(prog, run, classes, scope, floor):
    r = run.rule("Z10", "anchored modules (%s): in a class with enter_K / leave_K hooks, an attribute that enter_K assigns from the node "
                        "or to a constant (not a fresh container) is assigned again in leave_K (own or inherited): otherwise it still "
                        "describes node K while the rest of the document is visited, and the verdict depends on the order of "
                        "definitions" % scope, floor)
    for c in classes:
        hooks = {n: m for n, m in c.methods.items() if n.startswith("enter_") or n.startswith("leave_")}
        if not hooks:
            continue
        r.instance("%s: %d hooks" % (c.name, len(hooks)), nontrivial=False)
        for name, m in sorted(hooks.items()):
            if not name.startswith("enter_"):
                continue
            kind = name[len("enter_"):]
            assigned = {}
            for n in own_walk(m.node):
                if isinstance(n, (ast.Assign, ast.AnnAssign)) and n.value is not None:
                    for t in (n.targets if isinstance(n, ast.Assign) else [n.target]):
                        if isinstance(t, ast.Attribute) and isinstance(t.value, ast.Name) and t.value.id == "self" and not _fresh_container(n.value):
                            assigned.setdefault(t.attr, n)
            if not assigned:
                continue
            leave = c.find_method("leave_" + kind)
            left = set()
            if leave is not None:
                for n in own_walk(leave.node):
                    if isinstance(n, (ast.Assign, ast.AnnAssign, ast.AugAssign)):
                        for t in (n.targets if isinstance(n, ast.Assign) else [n.target]):
                            if isinstance(t, ast.Attribute) and isinstance(t.value, ast.Name) and t.value.id == "self":
                                left.add(t.attr)
            for a, n in sorted(assigned.items()):
                r.instance("%s.%s sets self.%s" % (c.name, name, a))
                if a not in left:
                    run.report(r, "%s:%s.%s:scoped-attribute-not-reset(%s)" % (c.module.name, c.name, name, a), m.where(n),
                               "%s.%s assigns self.%s but %s: the value keeps describing that node after it was left, for every "
                               "sibling and every later definition" % (c.name, name, a,
                                                                        "leave_%s does not assign it" % kind if leave is not None else "the class has no leave_%s" % kind))


# ------------------------------------------------------------------------------------------------ search loops
def check_search_loops(prog, run, funcs, scope, floor):
    r = run.rule("Z11", "anchored modules (%s): a `for` loop over a collection never leaves with `break` (or returns an 'absent' "
                        "constant) because the current element FAILS to match — the break is not under `<element> != / not in / is not "
                        "…` nor in the else-branch of an equality test on the element: giving up at the first non-matching element "
                        "makes the answer depend on what happens to come first (a directive found only when it is written first)" % scope, floor)
    from . import shapes
    n = 0
    for f in funcs:
        if isinstance(f.node, ast.Lambda):
            continue
        for L in own_walk(f.node):
            if not isinstance(L, (ast.For, ast.AsyncFor)):
                continue
            n += 1
            lv = _target_names(L.target)
            if not lv:
                continue

            def mentions_elem(e, lv=lv):
                return any(isinstance(x, ast.Name) and x.id in lv for x in ast.walk(e))
            for b in own_walk(L):
                if not isinstance(b, ast.Break):
                    continue
                # only breaks of THIS loop
                cur, inner = getattr(b, "_parent", None), False
                chain = []
                child = b
                while cur is not None and cur is not L:
                    if isinstance(cur, (ast.For, ast.AsyncFor, ast.While)):
                        inner = True
                    if isinstance(cur, ast.If):
                        chain.append((cur, any(child is x for x in cur.body)))
                    child, cur = cur, getattr(cur, "_parent", None)
                if inner:
                    continue
                for test_if, in_body in chain:
                    for term, pos in shapes.signed_subterms(test_if.test, lambda e: isinstance(e, ast.Compare) and len(e.ops) == 1
                                                            and isinstance(e.ops[0], (ast.Eq, ast.NotEq, ast.In, ast.NotIn, ast.Is, ast.IsNot))):
                        if not (mentions_elem(term.left) and isinstance(term.left, (ast.Attribute, ast.Name, ast.Subscript))):
                            continue
                        if isinstance(term.comparators[0], ast.Constant) and term.comparators[0].value is None:
                            continue          # `x is None` / `x is not None` is not a match test
                        negative_op = isinstance(term.ops[0], (ast.NotEq, ast.NotIn, ast.IsNot))
                        mismatch = (negative_op == pos) == in_body
                        if mismatch:
                            run.report(r, "%s:%s:break-on-mismatch(%s)" % (f.module.name, f.qualname, _txt(term)[:50]), f.where(b),
                                       "the loop over `%s` stops at the first element for which `%s` %s: elements after it are never "
                                       "examined" % (_txt(L.iter)[:50], _txt(term)[:60], "holds" if (negative_op == pos) else "fails"))
    r.instance("%d for-loops scanned" % n, nontrivial=False)


# ------------------------------------------------------------------------------------------------ substring tests
def check_char_class_tests(prog, run, funcs, scope, floor):
    r = run.rule("Z12", "anchored modules (%s): `E in S` / `E not in S` with S a string constant (a literal, adjacent literals the parser "
                        "glues together, or a module-level string) is a character-class test and E is a single character — a local "
                        "assigned only from single-index subscripts; with a token's text or a name on the left it is a SUBSTRING test "
                        "(`value in (\"true\" \"false\")` accepts `e`, `als`, `ruefa`)" % scope, floor)
    for f in funcs:
        if isinstance(f.node, ast.Lambda):
            continue
        for n in own_walk(f.node):
            if not (isinstance(n, ast.Compare) and len(n.ops) == 1 and isinstance(n.ops[0], (ast.In, ast.NotIn))):
                continue
            right = n.comparators[0]
            is_str = isinstance(right, ast.Constant) and isinstance(right.value, str)
            if isinstance(right, ast.Name):
                rr = prog.resolve_name(f.module, right.id)
                if rr and rr[0] == "assign" and isinstance(rr[1], ast.Constant) and isinstance(rr[1].value, str):
                    is_str = True
            if not is_str:
                continue
            left = n.left
            r.instance("%s: `%s`" % (f.qualname, _txt(n)[:60]))
            ok = False
            if isinstance(left, ast.Constant) and isinstance(left.value, str) and len(left.value) == 1:
                ok = True
            elif isinstance(left, ast.Subscript) and not isinstance(left.slice, ast.Slice):
                ok = True
            elif isinstance(left, ast.Name):
                defs = [x for x in ast.walk(f.node) if isinstance(x, ast.Name) and x.id == left.id and isinstance(x.ctx, ast.Store)]
                vals = []
                for d in defs:
                    par = getattr(d, "_parent", None)
                    if isinstance(par, (ast.Assign, ast.AnnAssign)) and par.value is not None and (par.targets[0] if isinstance(par, ast.Assign) else par.target) is d:
                        vals.append(par.value)
                    elif isinstance(par, (ast.For, ast.comprehension)) and par.target is d:
                        vals.append(ast.Subscript(value=par.iter, slice=ast.Constant(value=0), ctx=ast.Load()))   # an element of the iterable
                    else:
                        vals.append(None)
                def one_char(v, depth=0, owner=f):
                    if isinstance(v, ast.Subscript) and not isinstance(v.slice, ast.Slice):
                        return True
                    if isinstance(v, ast.Call) and depth < 2:
                        # a helper every return of which hands back one character (or None): `char = self._peek_char()`
                        cal = [c for c in prog.resolve_call(owner, v) if c.name != "__init__" and not isinstance(c.node, ast.Lambda)]
                        if cal:
                            def rets(c):
                                return [x.value for x in own_walk(c.node) if isinstance(x, ast.Return)]
                            return all(rets(c) and all(rv is None or one_char(rv, depth + 1, c) for rv in rets(c)) for c in cal)
                    if isinstance(v, ast.Name) and depth < 3:
                        ds = [getattr(x, "_parent", None) for x in ast.walk(owner.node) if isinstance(x, ast.Name) and x.id == v.id and isinstance(x.ctx, ast.Store)]
                        if ds and all(isinstance(d_, ast.Assign) and len(d_.targets) == 1 and d_.value is not None and one_char(d_.value, depth + 1, owner) for d_ in ds):
                            return True
                    return isinstance(v, ast.Constant) and (v.value is None or (isinstance(v.value, str) and len(v.value) <= 1))
                ok = bool(vals) and all(one_char(v) for v in vals)
            if not ok:
                run.report(r, "%s:%s:substring-test(%s)" % (f.module.name, f.qualname, _txt(n)[:50]), f.where(n),
                           "`%s` tests `%s` for being a substring of the text %r: every fragment of it passes, not only the listed "
                           "words" % (_txt(n)[:70], _txt(left)[:30], right.value if isinstance(right, ast.Constant) else right.id))


def check_record_and_go_on(prog, run, funcs, scope, floor):
    r = run.rule("Z13", "anchored modules (%s): a loop that records a problem for the current element (`errors.append(..)`, `add_error(..)`, "
                        "`<...err...>.add/extend(..)`) goes on with the next element - the statement after the record is never `break`: every "
                        "element is examined and every problem reported, whichever comes first (13 record-then-continue sites today, no "
                        "record-then-break)" % scope, floor)
    n = 0
    for f in funcs:
        if isinstance(f.node, ast.Lambda):
            continue
        for L in own_walk(f.node):
            if not isinstance(L, (ast.For, ast.AsyncFor, ast.While)):
                continue
            n += 1
            for blk_owner in ast.walk(L):
                for field in ("body", "orelse", "finalbody"):
                    blk = getattr(blk_owner, field, None)
                    if not (isinstance(blk, list) and blk and isinstance(blk[0], ast.stmt)):
                        continue
                    for i, st in enumerate(blk[:-1]):
                        if not (isinstance(st, ast.Expr) and isinstance(st.value, ast.Call) and isinstance(st.value.func, ast.Attribute)):
                            continue
                        fn = st.value.func
                        recv = _txt(fn.value).lower()
                        records = fn.attr == "add_error" or (fn.attr in ("append", "add", "extend") and "err" in recv)
                        if not records:
                            continue
                        nxt = blk[i + 1]
                        if isinstance(nxt, ast.Continue):
                            r.instance("%s: `%s` then continue" % (f.qualname, _txt(st)[:50]))
                        if isinstance(nxt, ast.Break):
                            # the break must belong to L (no loop in between)
                            cur, inner = getattr(nxt, "_parent", None), False
                            while cur is not None and cur is not L:
                                if isinstance(cur, (ast.For, ast.AsyncFor, ast.While)):
                                    inner = True
                                cur = getattr(cur, "_parent", None)
                            if inner:
                                continue
                            run.report(r, "%s:%s:stops-at-first-problem(%s)" % (f.module.name, f.qualname, _txt(fn)[:40]), f.where(nxt),
                                       "after `%s` the loop is left with `break`: the elements that follow are never examined, so which "
                                       "problems are reported (and whether later elements are processed at all) depends on their order"
                                       % _txt(st)[:70])
    r.instance("%d loops scanned" % n, nontrivial=False)


def check_lazy_values(prog, run, classes, scope, floor):
    r = run.rule("Z14", "anchored modules (%s): a lazily computed attribute (`if self._c is None: self._c = E`) is assigned again by every "
                        "method that assigns something E is computed from (attributes E reads, directly or through a property of the "
                        "class): the setter of the source resets what was derived from it, or the derived value keeps describing the "
                        "members the object had before" % scope, floor)

    def self_attrs(node, ctx):
        return {x.attr for x in ast.walk(node) if isinstance(x, ast.Attribute) and isinstance(x.ctx, ctx) and isinstance(x.value, ast.Name) and x.value.id == "self"}
    for c in classes:
        # every def of the class body (a property's getter and setter share a name: the method table keeps one of them)
        defs = []
        for k in [c] + [b for b in c.mro()[1:] if hasattr(b, "node")]:
            for st in k.node.body:
                if isinstance(st, (ast.FunctionDef, ast.AsyncFunctionDef)):
                    defs.append((k, st))
        own_defs = [(k, d) for k, d in defs if k is c]
        getters = {}
        for k, d in defs:
            if any(_txt(x) in ("property", "lazy", "cached_property") for x in d.decorator_list):
                getters.setdefault(d.name, d)
        caches = {}
        for k, d in own_defs:
            for n in ast.walk(d):
                if isinstance(n, ast.If) and isinstance(n.test, ast.Compare) and len(n.test.ops) == 1 and isinstance(n.test.ops[0], ast.Is) \
                        and isinstance(n.test.comparators[0], ast.Constant) and n.test.comparators[0].value is None \
                        and isinstance(n.test.left, ast.Attribute) and isinstance(n.test.left.value, ast.Name) and n.test.left.value.id == "self":
                    cname = n.test.left.attr
                    for st in n.body:
                        if isinstance(st, ast.Assign) and any(isinstance(t, ast.Attribute) and t.attr == cname and isinstance(t.value, ast.Name)
                                                              and t.value.id == "self" for t in st.targets):
                            deps = set(self_attrs(st.value, ast.Load))
                            for _ in range(2):
                                for a in sorted(deps):
                                    if a in getters:
                                        deps |= self_attrs(getters[a], ast.Load)
                            deps.discard(cname)
                            caches[cname] = (d, deps)
        for cname, (m, deps) in sorted(caches.items()):
            r.instance("%s.%s computed from %s" % (c.name, cname, sorted(deps)))
            for k, w in defs:
                if w.name == "__init__" or w is m:
                    continue
                stored = self_attrs(w, ast.Store)
                hit = sorted(stored & deps)
                if hit and cname not in stored:
                    run.report(r, "%s:%s.%s:derived-value-not-reset(%s)" % (c.module.name, c.name, w.name, cname),
                               "%s:%d" % (k.module.relpath, w.lineno),
                               "%s.%s assigns %s, which self.%s (computed in %s) is derived from, without assigning self.%s again: the "
                               "remembered value keeps describing the old %s" % (c.name, w.name, ", ".join("self." + h for h in hit), cname, m.name, cname, hit[0]))


_CONTAINER_CALLS = {"dict", "list", "set", "defaultdict", "OrderedDict", "WeakKeyDictionary", "WeakValueDictionary", "deque", "Counter"}
_MUTATORS = {"append", "add", "update", "setdefault", "clear", "pop", "popitem", "extend", "insert", "remove", "discard", "appendleft"}


def check_module_state(prog, run, funcs, scope, floor):
    r = run.rule("Z15", "anchored modules (%s): no function writes into a module-level mutable container (a dict / list / set / weak "
                        "dictionary bound at module level: item stores, .setdefault / .add / .append / .clear ...): such a table outlives "
                        "the request, document and schema it was filled for, so a later call is answered from an earlier one (a "
                        "validation verdict remembered for other validators, a result for another schema). The package has no such "
                        "write today" % scope, floor)
    tables = {}
    for f in funcs:
        m = f.module
        if m.name in tables:
            continue
        t = {}
        for st in m.tree.body:
            if isinstance(st, (ast.Assign, ast.AnnAssign)) and st.value is not None:
                v = st.value
                fresh = isinstance(v, (ast.Dict, ast.List, ast.Set, ast.DictComp, ast.ListComp, ast.SetComp)) or (
                    isinstance(v, ast.Call) and (v.func.id if isinstance(v.func, ast.Name) else v.func.attr if isinstance(v.func, ast.Attribute) else None) in _CONTAINER_CALLS)
                if fresh:
                    for x in (st.targets if isinstance(st, ast.Assign) else [st.target]):
                        if isinstance(x, ast.Name):
                            t[x.id] = st
        tables[m.name] = t
        r.instance("%s: %d module-level containers" % (m.name, len(t)), nontrivial=False)
    for f in funcs:
        if isinstance(f.node, ast.Lambda):
            continue
        t = tables.get(f.module.name, {})
        if not t:
            continue
        local = {x.id for x in own_walk(f.node) if isinstance(x, ast.Name) and isinstance(x.ctx, ast.Store)} | set(f.all_params)
        aliases = {}
        for n in own_walk(f.node):
            # `table = _TABLE.setdefault(key, {})` / `table = _TABLE[key]`: what is written into `table` lives in _TABLE
            if isinstance(n, ast.Assign) and len(n.targets) == 1 and isinstance(n.targets[0], ast.Name):
                root = n.value
                while isinstance(root, (ast.Call, ast.Attribute, ast.Subscript)):
                    root = root.func if isinstance(root, ast.Call) else root.value
                if isinstance(root, ast.Name) and root.id in t and root.id not in local:
                    aliases[n.targets[0].id] = root.id
        for n in own_walk(f.node):
            nm = None
            if isinstance(n, ast.Call) and isinstance(n.func, ast.Attribute) and n.func.attr in _MUTATORS and isinstance(n.func.value, ast.Name):
                nm = n.func.value.id
            elif isinstance(n, ast.Subscript) and isinstance(n.ctx, (ast.Store, ast.Del)) and isinstance(n.value, ast.Name):
                nm = n.value.id
            if nm is None:
                continue
            table = nm if (nm in t and nm not in local) else aliases.get(nm)
            if table is not None:
                run.report(r, "%s:%s:module-state(%s)" % (f.module.name, f.qualname, table), f.where(n),
                           "%s writes into the module-level container `%s` (`%s`): what one call leaves there is seen by every later "
                           "call in the process" % (f.qualname, table, _txt(getattr(n, "_parent", n))[:70]))


def run_bundle(prog, run, files, floors=None):
    mods = _mods(files)
    funcs = [f for f in prog.all_funcs() if f.module.name in mods]
    classes = [c for c in prog.all_classes() if c.module.name in mods]
    scope = ", ".join(sorted(m.replace("py_gql.", "") for m in mods))
    floors = floors or {}
    check_memo_keys(prog, run, funcs, scope, floors.get("Z7", 0))
    check_memo_reset(prog, run, classes, scope, floors.get("Z8", 0))
    check_loop_state(prog, run, funcs, scope, floors.get("Z9", 0))
    check_visitor_scopes(prog, run, classes, scope, floors.get("Z10", 0))
    check_search_loops(prog, run, funcs, scope, floors.get("Z11", 0))
    check_char_class_tests(prog, run, funcs, scope, floors.get("Z12", 0))
    check_record_and_go_on(prog, run, funcs, scope, floors.get("Z13", 0))
    check_lazy_values(prog, run, classes, scope, floors.get("Z14", 0))
    check_module_state(prog, run, funcs, scope, floors.get("Z15", 0))
