"""Transparent helpers: an analysis-time view of the program in which small private helpers the rules do not
know by name are inlined into their callers.

Why.  Almost every rule reasons about one function (its paths, its calls, the value it returns).  "Extract the
condition / the loop body / the error construction into a small private helper" is the most common harmless
refactoring, and it moves exactly the code a rule looks at out of the function the rule looks at.  Following
helpers rule by rule does not scale; instead the program model offers this *view*: every call of a **transparent**
helper is replaced by the helper's body (parameters substituted, locals renamed apart, returns turned into
assignments), before any rule runs.  The code is never executed — the view only has to be behaviourally
equivalent, and the transformation is the textbook one.

Transparent = a module-level function or a method, private (leading underscore, not dunder), undecorated, small,
non-recursive, without yield/await/global/nonlocal/nested defs/star-arguments, whose returns are all in tail
position (after turning guard clauses into if/else), **and which does not exist in the pinned tree**
(`vf/baseline_funcs.json`, the list of today's functions): the helpers of today's tree are the rules' vocabulary
(`_merge`, `_skip_selection`, `_handle_non_nullable_value`, `_visit_*`, `_read_*`, `_build_*` ... are found by name, by
prefix or through dispatch) and stay calls, so the view of the unchanged tree is the tree itself; a helper that a
later change introduces is new code and is analysed where it is called.
A generator helper consumed as `for x in helper(..): yield x` is spliced in as well.

Call sites handled: `T = h(..)`, `return h(..)`, `h(..)` as a statement, `if h(..):` / `if not h(..):` (hoisted into a
temporary first), a call nested in the expression of a simple statement when the helper's body is one returned
expression (substituted in place) or, outside conditional sub-expressions, hoisted into a temporary.  Anything else
stays a call (and the rules treat it as they did before).
"""
import ast
import copy
import os
import re

from .model import own_nodes

MAX_STMTS = 30


def _clone(node):
    """deep copy of an AST (or list of ASTs) following AST fields only (the model's `_parent` back-links are not followed)."""
    if isinstance(node, list):
        return [_clone(x) for x in node]
    if not isinstance(node, ast.AST):
        return node
    new = node.__class__()
    for field, val in ast.iter_fields(node):
        setattr(new, field, _clone(val))
    for attr in ("lineno", "col_offset", "end_lineno", "end_col_offset"):
        if hasattr(node, attr):
            setattr(new, attr, getattr(node, attr))
    return new


# ------------------------------------------------------------------------------------------------ baseline vocabulary
_KNOWN = None


def known_names():
    """Keys (module:qualname) of every function of the pinned tree.  The rules' vocabulary is today's set of
    functions (they find helpers by name, by prefix, through dispatch tables ...); a private helper that is not in
    this list is new code, and new helpers are analysed as if written inline."""
    global _KNOWN
    if _KNOWN is None:
        import json
        here = os.path.dirname(os.path.abspath(__file__))
        with open(os.path.join(here, "baseline_funcs.json")) as f:
            _KNOWN = set(json.load(f)["functions"])
    return _KNOWN


# ------------------------------------------------------------------------------------------------ eligibility
def _stmts(fn):
    body = list(fn.body)
    if body and isinstance(body[0], ast.Expr) and isinstance(body[0].value, ast.Constant) and isinstance(body[0].value.value, str):
        body = body[1:]
    return body


def _has(node_or_list, kinds):
    nodes = node_or_list if isinstance(node_or_list, list) else [node_or_list]
    for n in nodes:
        for x in ast.walk(n):
            if isinstance(x, kinds):
                return True
    return False


def _leaves(stmts):
    if not stmts:
        return False
    last = stmts[-1]
    if isinstance(last, (ast.Return, ast.Raise, ast.Continue, ast.Break)):
        return True
    if isinstance(last, ast.If) and last.orelse:
        return _leaves(last.body) and _leaves(last.orelse)
    return False


def _guards_to_else(stmts):
    """Make every Return a tail: `if c: return A` + rest  ->  `if c: return A else: rest`; in general the statements
    following an if/try that contains a return are moved (duplicated where needed) to every point where control falls
    out of it.  Behaviour preserving."""
    stmts = list(stmts)
    for st in stmts:
        if isinstance(st, ast.If):
            st.body = _guards_to_else(st.body)
            st.orelse = _guards_to_else(st.orelse)
        elif isinstance(st, ast.Try):
            st.body = _guards_to_else(st.body)
            st.orelse = _guards_to_else(st.orelse)
            for h in st.handlers:
                h.body = _guards_to_else(h.body)
    for i, st in enumerate(stmts):
        rest = stmts[i + 1:]
        if rest and isinstance(st, (ast.If, ast.Try)) and _has(st, ast.Return):
            if isinstance(st, ast.If) and not st.orelse:
                st.orelse = []
            tails = []
            if not _tails([st], tails):
                return stmts
            rest = _guards_to_else(rest)
            if isinstance(st, ast.Try) and not st.orelse and any(t is st.body for t in tails):
                # falling out of the try body: the continuation must not be covered by the handlers
                tails = [t for t in tails if t is not st.body]
                st.orelse = []
                tails.append(st.orelse)
            for k, t in enumerate(tails):
                t.extend(rest if k == 0 else _clone(rest))
            return stmts[:i + 1]
    return stmts


def _ends_in_return(stmts):
    """always leaves through return/raise (not break/continue)"""
    if not stmts:
        return False
    last = stmts[-1]
    if isinstance(last, (ast.Return, ast.Raise)):
        return True
    if isinstance(last, ast.If) and last.orelse:
        return _ends_in_return(last.body) and _ends_in_return(last.orelse)
    if isinstance(last, ast.Try) and not last.finalbody:
        tails = [last.orelse if last.orelse else last.body] + [h.body for h in last.handlers]
        return all(_ends_in_return(t) for t in tails)
    return False


def _tail_form(stmts):
    """every Return sits in tail position (through if/else and try at the tail)."""
    for st in stmts[:-1]:
        if not isinstance(st, (ast.FunctionDef, ast.AsyncFunctionDef)) and _has(st, ast.Return):
            return False      # (the returns of a nested definition are its own)
    if not stmts:
        return True
    last = stmts[-1]
    if isinstance(last, ast.Return):
        return True
    if isinstance(last, ast.If):
        return _tail_form(last.body) and _tail_form(last.orelse)
    if isinstance(last, ast.Try):
        if last.finalbody and _has(last.finalbody, ast.Return):
            return False
        if last.orelse:
            if _has(last.body, ast.Return):
                return False
            return _tail_form(last.orelse) and all(_tail_form(h.body) for h in last.handlers)
        return _tail_form(last.body) and all(_tail_form(h.body) for h in last.handlers)
    return not _has(last, ast.Return)


def eligible(fi, known):
    n = fi.node
    if not isinstance(n, ast.FunctionDef) or fi.parent is not None:
        return False
    name = fi.name
    if not name.startswith("_") or name.startswith("__") or fi.key in known:
        return False
    if n.decorator_list:
        return False
    a = n.args
    if a.vararg or a.kwarg or getattr(a, "posonlyargs", []):
        return False
    for d in list(a.defaults) + [d for d in a.kw_defaults if d is not None]:
        if not isinstance(d, (ast.Constant, ast.Name)):
            return False
    body = _stmts(n)
    if not body or sum(1 for _ in ast.walk(ast.Module(body=body, type_ignores=[])) if isinstance(_, ast.stmt)) > MAX_STMTS:
        return False
    # a closure factory - `def inner(..): ...` followed by `return inner` - is the one shape with a nested definition that is
    # transparent: at the call site it is the nested definition itself (the factory's parameters are the caller's values)
    factory = len(body) == 2 and isinstance(body[0], ast.FunctionDef) and not body[0].decorator_list and isinstance(body[1], ast.Return) \
        and isinstance(body[1].value, ast.Name) and body[1].value.id == body[0].name \
        and not _has(body[0].body, (ast.Await, ast.Global, ast.Nonlocal, ast.FunctionDef, ast.AsyncFunctionDef, ast.ClassDef, ast.YieldFrom, ast.NamedExpr, ast.Lambda))
    if not factory and _has(body, (ast.Await, ast.Global, ast.Nonlocal, ast.FunctionDef, ast.AsyncFunctionDef, ast.ClassDef, ast.YieldFrom, ast.NamedExpr)):
        return False
    for c in ast.walk(n):
        if isinstance(c, ast.Call) and isinstance(c.func, ast.Name) and c.func.id in ("locals", "vars", "eval", "exec", "super"):
            return False
        if isinstance(c, ast.Call) and ((isinstance(c.func, ast.Name) and c.func.id == name) or (isinstance(c.func, ast.Attribute) and c.func.attr == name)):
            return False   # recursive
    is_gen = _has(body, ast.Yield)
    if is_gen:
        return not _has(body, ast.Return) and "generator"
    # returns inside loops / with blocks cannot be converted
    for x in ast.walk(ast.Module(body=body, type_ignores=[])):
        if isinstance(x, (ast.For, ast.While, ast.With, ast.AsyncFor, ast.AsyncWith)) and _has(list(ast.iter_child_nodes(x)), ast.Return):
            return False
    norm = _guards_to_else(_clone(body))
    if not _tail_form(norm):
        return False
    return "function"


# ------------------------------------------------------------------------------------------------ the transformation
class _Subst(ast.NodeTransformer):
    def __init__(self, mapping, rename):
        self.mapping = mapping      # param name -> expression AST
        self.rename = rename        # local name -> new local name

    def visit_Name(self, node):
        if node.id in self.mapping and isinstance(node.ctx, ast.Load):
            return ast.copy_location(_clone(self.mapping[node.id]), node)
        if node.id in self.rename:
            return ast.copy_location(ast.Name(id=self.rename[node.id], ctx=node.ctx), node)
        return node

    def visit_ExceptHandler(self, node):
        if node.name and node.name in self.rename:
            node.name = self.rename[node.name]
        return self.generic_visit(node)

    def visit_FunctionDef(self, node):
        if node.name in self.rename:
            node.name = self.rename[node.name]
        return self.generic_visit(node)


def _simple(e):
    while isinstance(e, ast.Attribute):
        e = e.value
    return isinstance(e, (ast.Name, ast.Constant))


def _relocate(stmts, site):
    """Inlined code is *at the call site*: every node gets the call statement's line (columns increase in source
    order, so rules that order constructs by position see the helper's statements where the call was)."""
    k = [0]

    def rec(n):
        if hasattr(n, "lineno") or isinstance(n, (ast.stmt, ast.expr)):
            n.lineno = site.lineno
            n.end_lineno = getattr(site, "end_lineno", site.lineno)
            n.col_offset = getattr(site, "col_offset", 0) + k[0]
            n.end_col_offset = n.col_offset + 1
            k[0] += 1
        for ch in ast.iter_child_nodes(n):
            rec(ch)
    for st in stmts:
        rec(st)
    return stmts


class Inliner:
    def __init__(self, prog):
        self.prog = prog
        self.known = known_names()
        self.kind = {}
        for fi in prog.all_funcs():
            k = eligible(fi, self.known)
            if k:
                self.kind[fi.key] = (fi, k)
        self.counter = 0
        self.inlined = {}     # helper key -> set of caller keys
        self._overridden = {}

    # -- resolution
    def resolve(self, caller, call):
        f = call.func
        cand = None
        top = caller
        while top.parent is not None:
            top = top.parent
        if isinstance(f, ast.Name):
            fi = caller.module.functions.get(f.id)
            # shadowed by a local / parameter of the caller?
            if fi is not None and not self._bound_locally(caller, f.id):
                cand = fi
        elif isinstance(f, ast.Attribute) and isinstance(f.value, ast.Name) and top.cls is not None:
            selfname = top.node.args.args[0].arg if top.node.args.args else None
            if f.value.id == selfname and not self._bound_locally(caller, selfname, ignore_param_of=top):
                m = top.cls.find_method(f.attr)
                if m is not None and m.module is caller.module and not self._has_override(top.cls, m, f.attr):
                    cand = m
        if cand is None or cand.key not in self.kind or cand is caller or cand is top:
            return None
        if call.keywords and any(k.arg is None for k in call.keywords):
            return None
        if any(isinstance(a, ast.Starred) for a in call.args):
            return None
        return cand

    def _bound_locally(self, caller, name, ignore_param_of=None):
        cur = caller
        while cur is not None:
            if cur is not ignore_param_of and name in cur.all_params:
                return True
            for n in own_nodes(cur.node):
                if isinstance(n, ast.Name) and n.id == name and isinstance(n.ctx, ast.Store):
                    return True
            cur = cur.parent
        return False

    def _has_override(self, cls, m, name):
        key = (cls.key, name)
        if key not in self._overridden:
            owner = m.cls
            self._overridden[key] = any(name in sc.methods for sc in self.prog.subclasses(owner)) if owner is not None else False
        return self._overridden[key]

    # -- binding
    def bind(self, helper, call, caller, target_name=None):
        a = helper.node.args
        params = [x.arg for x in a.args]
        selfexpr = None
        if helper.cls is not None and params:
            selfexpr = call.func.value if isinstance(call.func, ast.Attribute) else None
            if selfexpr is None:
                return None
            self_param, params = params[0], params[1:]
        if len(call.args) > len(params):
            return None
        values = {}
        for p, arg in zip(params, call.args):
            values[p] = arg
        defaults = dict(zip(params[len(params) - len(a.defaults):], a.defaults)) if a.defaults else {}
        # keyword-only parameters (`def _merge(groups, *, into)`): bound by keyword or by their own default
        for kp, kd in zip(a.kwonlyargs, a.kw_defaults):
            params.append(kp.arg)
            if kd is not None:
                defaults[kp.arg] = kd
        for k in call.keywords:
            if k.arg not in params or k.arg in values:
                return None
            values[k.arg] = k.value
        for p in params:
            if p not in values:
                if p in defaults:
                    values[p] = defaults[p]
                else:
                    return None
        self.counter += 1
        tag = "__inl%d" % self.counter
        body = _stmts(helper.node)
        if any(isinstance(st, ast.FunctionDef) for st in body):
            # closure factory: the nested definition will close over the caller's names directly - only plain names / constants /
            # attribute chains that the caller does not re-bind afterwards keep the meaning
            for v in values.values():
                if not _simple(v):
                    return None
                root = v
                while isinstance(root, ast.Attribute):
                    root = root.value
                if isinstance(root, ast.Name):
                    stores = sum(1 for x in ast.walk(caller.node) if isinstance(x, ast.Name) and x.id == root.id and isinstance(x.ctx, ast.Store))
                    if stores > 1:
                        return None
        assigned = set()
        comp_only = set()
        for st in body:
            comp_targets = {id(t) for c in ast.walk(st) if isinstance(c, ast.comprehension) for t in ast.walk(c.target)}
            for x in ast.walk(st):
                if isinstance(x, ast.Name) and isinstance(x.ctx, (ast.Store, ast.Del)):
                    if id(x) in comp_targets:
                        comp_only.add(x.id)
                    else:
                        assigned.add(x.id)
                elif isinstance(x, ast.ExceptHandler) and x.name:
                    assigned.add(x.name)
                elif isinstance(x, ast.FunctionDef):
                    assigned.add(x.name)
        # comprehension variables live in their own scope: renamed only when an argument expression mentions the name
        arg_names = {x.id for v in values.values() for x in ast.walk(v) if isinstance(x, ast.Name)}
        assigned |= {nm for nm in comp_only - assigned if nm in arg_names}
        # comprehension / lambda variables are their own scope but renaming them consistently is harmless
        uses = {}
        for st in body:
            for x in ast.walk(st):
                if isinstance(x, ast.Name) and isinstance(x.ctx, ast.Load):
                    uses[x.id] = uses.get(x.id, 0) + 1
        mapping, rename, pre = {}, {}, []
        for p in params:
            v = values[p]
            vnames = {x.id for x in ast.walk(v) if isinstance(x, ast.Name)}
            others = {x.id for q in params if q != p for x in ast.walk(values[q]) if isinstance(x, ast.Name)}
            if p not in assigned and (_simple(v) or uses.get(p, 0) <= 1 and not _has(v, (ast.Yield, ast.Await))):
                mapping[p] = v
            elif target_name is not None and p in assigned and vnames == {target_name} and target_name not in others \
                    and not _has(v, (ast.Call, ast.Yield, ast.Await)) and target_name not in rename.values():
                # `v = helper(.., f(v), ..)` where the helper updates that parameter and the result goes back into v:
                # the parameter *is* the caller's variable (the cursor threaded through a scanning helper)
                rename[p] = target_name
                pre.append(ast.copy_location(ast.Assign(targets=[ast.Name(id=target_name, ctx=ast.Store())], value=_clone(v), lineno=call.lineno), call))
            else:
                new = p + tag
                rename[p] = new
                pre.append(ast.copy_location(ast.Assign(targets=[ast.Name(id=new, ctx=ast.Store())], value=_clone(v), lineno=call.lineno), call))
        for nm in assigned:
            if nm not in params:
                rename[nm] = nm + tag
        if selfexpr is not None:
            mapping[self_param] = selfexpr
        return pre, mapping, rename, tag

    # -- return conversion
    def _convert_returns(self, stmts, make):
        """replace every (tail) Return by make(value) statements; append make(None) where control falls off the end."""
        out = list(stmts)
        if not out:
            return make(None)
        last = out[-1]
        if isinstance(last, ast.Return):
            out[-1:] = make(last.value)
        elif isinstance(last, ast.If):
            last.body = self._convert_returns(last.body, make)
            last.orelse = self._convert_returns(last.orelse, make)
        elif isinstance(last, ast.Try):
            if last.orelse:
                last.orelse = self._convert_returns(last.orelse, make)
            else:
                last.body = self._convert_returns(last.body, make)
            for h in last.handlers:
                h.body = self._convert_returns(h.body, make)
        elif isinstance(last, ast.Raise):
            pass
        else:
            out.extend(make(None))
        return out

    def expand(self, helper, call, caller, kind, target_stmt):
        """statements replacing ``target_stmt`` (whose call ``call`` resolves to ``helper``)."""
        tname = None
        if kind == "assign" and isinstance(target_stmt, ast.Assign) and len(target_stmt.targets) == 1 and isinstance(target_stmt.targets[0], ast.Name):
            tname = target_stmt.targets[0].id
        b = self.bind(helper, call, caller, tname)
        if b is None:
            return None
        pre, mapping, rename, tag = b
        hb = _stmts(helper.node)
        if tname is not None and len(hb) == 2 and isinstance(hb[0], ast.FunctionDef) and isinstance(hb[1], ast.Return) \
                and sum(1 for x in ast.walk(caller.node) if isinstance(x, ast.Name) and x.id == tname and isinstance(x.ctx, ast.Store)) == 1 \
                and not any(isinstance(x, (ast.FunctionDef, ast.AsyncFunctionDef)) and x.name == tname for x in ast.walk(caller.node)):
            # `cb = _make_cb(..)`: the closure the factory builds is the caller's `cb` (no alias left behind)
            rename[hb[0].name] = tname
        body = _guards_to_else(_clone(_stmts(helper.node)))
        sub = _Subst(mapping, rename)
        body = [sub.visit(st) for st in body]

        def loc(n):
            return ast.copy_location(n, target_stmt)
        if kind == "return":
            def make(v):
                return [loc(ast.Return(value=v if v is not None else ast.Constant(value=None)))]
        elif kind == "expr":
            def make(v):
                if v is not None and _has(v, (ast.Call, ast.Await, ast.Yield)):
                    return [loc(ast.Expr(value=v))]
                return [loc(ast.Pass())]
        else:
            tgt = target_stmt

            def make(v):
                val = v if v is not None else ast.Constant(value=None)
                if isinstance(tgt, ast.AnnAssign):
                    return [loc(ast.AnnAssign(target=_clone(tgt.target), annotation=tgt.annotation, value=val, simple=tgt.simple))]
                return [loc(ast.Assign(targets=_clone(tgt.targets), value=val, type_comment=getattr(tgt, "type_comment", None)))]
        body = self._convert_returns(body, make)
        self.inlined.setdefault(helper.key, set()).add(caller.key)
        return _relocate(pre + body, target_stmt)

    def expr_body(self, helper):
        body = _stmts(helper.node)
        if len(body) == 1 and isinstance(body[0], ast.Return) and body[0].value is not None:
            return body[0].value
        return None

    # -- per function
    def process_function(self, fi):
        changed = False
        for _pass in range(4):
            new_body, ch = self.block(fi, fi.node.body)
            if not ch:
                break
            fi.node.body = new_body
            changed = True
        return changed

    def block(self, fi, stmts):
        out, changed = [], False
        for st in stmts:
            if isinstance(st, (ast.FunctionDef, ast.AsyncFunctionDef, ast.ClassDef)):
                out.append(st)
                continue
            for field in ("body", "orelse", "finalbody"):
                sub = getattr(st, field, None)
                if isinstance(sub, list) and sub and isinstance(sub[0], ast.stmt):
                    nb, ch = self.block(fi, sub)
                    if ch:
                        setattr(st, field, nb)
                        changed = True
            for h in getattr(st, "handlers", []):
                nb, ch = self.block(fi, h.body)
                if ch:
                    h.body = nb
                    changed = True
            repl = self.statement(fi, st)
            if repl is not None:
                out.extend(repl)
                changed = True
            else:
                out.append(st)
        return out, changed

    def statement(self, fi, st):
        # generator forwarding: for v in helper(..): yield v
        if isinstance(st, ast.For) and isinstance(st.iter, ast.Call) and not st.orelse and len(st.body) == 1 \
                and isinstance(st.body[0], ast.Expr) and isinstance(st.body[0].value, ast.Yield) \
                and isinstance(st.body[0].value.value, ast.Name) and isinstance(st.target, ast.Name) and st.body[0].value.value.id == st.target.id:
            h = self.resolve(fi, st.iter)
            if h is not None and self.kind[h.key][1] == "generator":
                b = self.bind(h, st.iter, fi)
                if b is not None:
                    pre, mapping, rename, tag = b
                    body = [_Subst(mapping, rename).visit(x) for x in _clone(_stmts(h.node))]
                    self.inlined.setdefault(h.key, set()).add(fi.key)
                    return _relocate(pre + body, st)
            return None
        call, kind = None, None
        if isinstance(st, (ast.Assign, ast.AnnAssign)) and isinstance(st.value, ast.Call):
            call, kind = st.value, "assign"
        elif isinstance(st, ast.Return) and isinstance(st.value, ast.Call):
            call, kind = st.value, "return"
        elif isinstance(st, ast.Expr) and isinstance(st.value, ast.Call):
            call, kind = st.value, "expr"
        if call is not None:
            h = self.resolve(fi, call)
            if h is not None and self.kind[h.key][1] == "function":
                if kind == "assign" and isinstance(st, ast.Assign) and len(st.targets) != 1:
                    return None
                res = self.expand(h, call, fi, kind, st)
                if res is not None:
                    return res
        # if helper(..): / if not helper(..):  -> temp first
        if isinstance(st, ast.If):
            t = st.test
            inner = t.operand if isinstance(t, ast.UnaryOp) and isinstance(t.op, ast.Not) else t
            if isinstance(inner, ast.Call):
                h = self.resolve(fi, inner)
                if h is not None and self.kind[h.key][1] == "function":
                    eb = self.expr_body(h)
                    if eb is not None and self._subst_in_place(fi, st, only=st.test):
                        return [st]
                    self.counter += 1
                    tmp = "_inl_t%d" % self.counter
                    asg = ast.copy_location(ast.Assign(targets=[ast.Name(id=tmp, ctx=ast.Store())], value=inner), st)
                    res = self.expand(h, inner, fi, "assign", asg)
                    if res is not None:
                        newt = ast.copy_location(ast.Name(id=tmp, ctx=ast.Load()), inner)
                        st.test = ast.copy_location(ast.UnaryOp(op=ast.Not(), operand=newt), t) if inner is not t else newt
                        return res + [st]
        # expression-bodied helpers in the header of a compound statement
        if isinstance(st, (ast.For, ast.While, ast.If)):
            hdr = st.iter if isinstance(st, ast.For) else st.test
            if self._subst_in_place(fi, st, only=hdr):
                return [st]
            return None
        if isinstance(st, ast.With):
            ch = False
            for it in st.items:
                ch = self._subst_in_place(fi, it, only=it.context_expr) or ch
            return [st] if ch else None
        # nested calls inside the expressions of a simple statement
        if isinstance(st, (ast.Assign, ast.AnnAssign, ast.AugAssign, ast.Return, ast.Expr, ast.Raise)):
            if self._subst_in_place(fi, st):
                return [st]
            hoisted = self._hoist_nested(fi, st)
            if hoisted is not None:
                return hoisted
        return None

    def _subst_in_place(self, fi, st, only=None):
        """replace calls of expression-bodied helpers inside ``st`` (or inside ``only``) by the helper's expression."""
        inl = self
        done = [False]

        class T(ast.NodeTransformer):
            def visit_Call(self, node):
                self.generic_visit(node)
                h = inl.resolve(fi, node)
                if h is None or inl.kind[h.key][1] != "function":
                    return node
                eb = inl.expr_body(h)
                if eb is None:
                    return node
                b = inl.bind(h, node, fi)
                if b is None:
                    return node
                pre, mapping, rename, tag = b
                if pre:
                    return node
                new = _Subst(mapping, rename).visit(_clone(eb))
                inl.inlined.setdefault(h.key, set()).add(fi.key)
                done[0] = True
                return ast.copy_location(new, node)
        if only is not None:
            new = T().visit(only)
            if done[0]:
                for field, val in ast.iter_fields(st):
                    if val is only:
                        setattr(st, field, new)
            return done[0]
        for field, val in list(ast.iter_fields(st)):
            if isinstance(val, ast.AST) and not isinstance(val, (ast.expr_context, ast.operator)):
                if field in ("targets", "target"):
                    continue
                setattr(st, field, T().visit(val))
        return done[0]

    def _hoist_nested(self, fi, st):
        """`x = f(a, helper(b))` with a multi-statement helper: hoist the helper call into a temporary evaluated just
        before the statement, unless the call sits in a conditionally evaluated sub-expression."""
        target = None

        def scan(e, conditional):
            nonlocal target
            if target is not None or isinstance(e, (ast.Lambda, ast.ListComp, ast.SetComp, ast.DictComp, ast.GeneratorExp)):
                return
            if isinstance(e, ast.Call) and not conditional:
                h = self.resolve(fi, e)
                if h is not None and self.kind[h.key][1] == "function" and self.expr_body(h) is None:
                    target = (e, h)
                    return
            if isinstance(e, ast.BoolOp):
                for i, v in enumerate(e.values):
                    scan(v, conditional or i > 0)
                return
            if isinstance(e, ast.IfExp):
                scan(e.test, conditional)
                scan(e.body, True)
                scan(e.orelse, True)
                return
            for ch in ast.iter_child_nodes(e):
                if isinstance(ch, ast.expr):
                    scan(ch, conditional)
        for field, val in ast.iter_fields(st):
            if field in ("targets", "target"):
                continue
            if isinstance(val, ast.expr):
                scan(val, False)
        if target is None:
            return None
        call, h = target
        self.counter += 1
        tmp = "_inl_t%d" % self.counter
        asg = ast.copy_location(ast.Assign(targets=[ast.Name(id=tmp, ctx=ast.Store())], value=call), st)
        res = self.expand(h, call, fi, "assign", asg)
        if res is None:
            return None

        class R(ast.NodeTransformer):
            def visit_Call(self, node):
                if node is call:
                    return ast.copy_location(ast.Name(id=tmp, ctx=ast.Load()), node)
                return self.generic_visit(node)
        for field, val in list(ast.iter_fields(st)):
            if isinstance(val, ast.expr) and field not in ("targets", "target"):
                setattr(st, field, R().visit(val))
        return res + [st]


def _all_with_nested(prog):
    return list(prog.all_funcs())     # already includes nested functions


# ------------------------------------------------------------------------------------------------ threading
def _tails(stmts, out):
    """the statement lists in which control can fall off the end of ``stmts`` (tail positions), or None if unknown"""
    if not stmts:
        out.append(stmts)
        return True
    last = stmts[-1]
    if isinstance(last, (ast.Return, ast.Raise, ast.Continue, ast.Break)):
        return True
    if isinstance(last, ast.If):
        return _tails(last.body, out) and _tails(last.orelse, out)
    if isinstance(last, ast.Try):
        if last.finalbody:
            return False
        ok = _tails(last.orelse if last.orelse else last.body, out)
        for h in last.handlers:
            ok = ok and _tails(h.body, out)
        return ok
    if isinstance(last, (ast.For, ast.While, ast.With, ast.AsyncFor, ast.AsyncWith, ast.Match if hasattr(ast, "Match") else ast.With)):
        return False
    out.append(stmts)
    return True


def _simple_test_var(test):
    """variable tested by `v`, `not v`, `v is None`, `v is not None`"""
    t = test.operand if isinstance(test, ast.UnaryOp) and isinstance(test.op, ast.Not) else test
    if isinstance(t, ast.Name):
        return t.id
    if isinstance(t, ast.Compare) and len(t.ops) == 1 and isinstance(t.ops[0], (ast.Is, ast.IsNot)) and isinstance(t.left, ast.Name) \
            and isinstance(t.comparators[0], ast.Constant) and t.comparators[0].value is None:
        return t.left.id
    return None


def _static_truth(test, var, const):
    t, neg = (test.operand, True) if isinstance(test, ast.UnaryOp) and isinstance(test.op, ast.Not) else (test, False)
    if isinstance(t, ast.Name):
        v = bool(const)
    else:
        v = (const is None) if isinstance(t.ops[0], ast.Is) else (const is not None)
    return (not v) if neg else v


class _ConstSubst(ast.NodeTransformer):
    def __init__(self, var, node):
        self.var, self.node = var, node

    def visit_Name(self, n):
        if n.id == self.var and isinstance(n.ctx, ast.Load):
            return ast.copy_location(_clone(self.node), n)
        return n

    def visit_Lambda(self, n):
        return n


def thread(stmts):
    """Tail duplication ("case of case"): `S1; if <simple test of v>: B else: E` where every tail of S1 (an if/try)
    ends by assigning v becomes S1 with a copy of the test folded into each tail — decided on the spot where the tail
    assigned a constant.  Behaviour preserving; it turns the flag variables left behind by inlining predicate helpers
    (`t = False` / `t = True`; `if not t: return`) back into the control flow they encode."""
    changed = False
    for st in stmts:
        for field in ("body", "orelse", "finalbody"):
            sub = getattr(st, field, None)
            if isinstance(sub, list) and sub and isinstance(sub[0], ast.stmt) and not isinstance(st, (ast.FunctionDef, ast.AsyncFunctionDef, ast.ClassDef)):
                changed = thread(sub) or changed
        for h in getattr(st, "handlers", []):
            changed = thread(h.body) or changed
    i = 0
    while i + 1 < len(stmts):
        s1, s2 = stmts[i], stmts[i + 1]
        var = _simple_test_var(s2.test) if isinstance(s2, ast.If) else None
        if var is not None and isinstance(s1, (ast.If, ast.Try)):
            tails = []
            if _tails([s1], tails) and tails and all(t and isinstance(t[-1], ast.Assign) and len(t[-1].targets) == 1 and isinstance(t[-1].targets[0], ast.Name)
                                                   and t[-1].targets[0].id == var for t in tails) \
                    and any(isinstance(t[-1].value, ast.Constant) for t in tails) and _try_tails_ok(s1, tails):
                for t in tails:
                    val = t[-1].value
                    if isinstance(s1, ast.Try) and t is s1.body:
                        # what follows the try statement is not covered by its handlers: it continues in the `else` clause
                        if isinstance(val, ast.Constant):
                            taken = s2.body if _static_truth(s2.test, var, val.value) else s2.orelse
                            s1.orelse.extend(_ConstSubst(var, val).visit(x) for x in _clone(taken))
                        else:
                            s1.orelse.append(_clone(s2))
                        continue
                    if isinstance(val, ast.Constant):
                        taken = s2.body if _static_truth(s2.test, var, val.value) else s2.orelse
                        t.extend(_ConstSubst(var, val).visit(x) for x in _clone(taken))
                    else:
                        t.append(_clone(s2))
                del stmts[i + 1]
                changed = True
                continue
        i += 1
    return changed


def _try_tails_ok(s1, tails):
    """Code that follows a `try` may be threaded into the handlers' tails and - as an `else` clause - after the body, never
    into the protected body itself (the handlers would start catching what the moved code raises)."""
    if not isinstance(s1, ast.Try):
        return True
    if s1.orelse or s1.finalbody:
        return False
    inside_body = {id(x) for st in s1.body for x in ast.walk(st)}
    for t in tails:
        if t is s1.body:
            continue
        if t and id(t[-1]) in inside_body:
            return False
    return True


def tidy(fn_node):
    """Cosmetic normal form after inlining (behaviour preserving): drop `x = x`, drop assignments to inlining
    temporaries that are never read, and turn `if c: <leaves> else: REST` back into the guard clause `if c: <leaves>`
    followed by REST — the style the code base (and therefore the shape-sensitive rules) use."""
    loads = {}
    for n in ast.walk(fn_node):
        if isinstance(n, ast.Name) and isinstance(n.ctx, ast.Load):
            loads[n.id] = loads.get(n.id, 0) + 1

    def block(stmts):
        out = []
        for st in stmts:
            if isinstance(st, (ast.FunctionDef, ast.AsyncFunctionDef, ast.ClassDef)):
                out.append(st)
                continue
            for field in ("body", "orelse", "finalbody"):
                sub = getattr(st, field, None)
                if isinstance(sub, list) and sub and isinstance(sub[0], ast.stmt):
                    setattr(st, field, block(sub) or [ast.copy_location(ast.Pass(), st)])
            for h in getattr(st, "handlers", []):
                h.body = block(h.body) or [ast.copy_location(ast.Pass(), st)]
            if isinstance(st, ast.Assign) and len(st.targets) == 1 and isinstance(st.targets[0], ast.Name):
                t = st.targets[0].id
                if isinstance(st.value, ast.Name) and st.value.id == t:
                    continue
                if (t.startswith("_inl_t") or "__inl" in t) and loads.get(t, 0) == 0 and not _has(st.value, (ast.Call, ast.Await, ast.Yield)):
                    continue
            if isinstance(st, ast.If) and st.orelse and _leaves(st.body) and not (len(st.orelse) == 1 and isinstance(st.orelse[0], ast.If)):
                rest, st.orelse = st.orelse, []
                out.append(st)
                out.extend(rest)
                continue
            if isinstance(st, ast.If) and len(st.body) == 1 and isinstance(st.body[0], ast.Pass) and not st.orelse and not _has(st.test, (ast.Call, ast.Await)):
                continue
            # `t = E` immediately followed by `if t:` / `if not t:` / `return t` / `x = t` with t a single-use temporary
            if out and isinstance(out[-1], ast.Assign) and len(out[-1].targets) == 1 and isinstance(out[-1].targets[0], ast.Name):
                t = out[-1].targets[0].id
                if (t.startswith("_inl_t") or "__inl" in t) and loads.get(t, 0) == 1:
                    def is_t(e):
                        return isinstance(e, ast.Name) and e.id == t
                    if isinstance(st, ast.If) and (is_t(st.test) or (isinstance(st.test, ast.UnaryOp) and isinstance(st.test.op, ast.Not) and is_t(st.test.operand))):
                        val = out.pop().value
                        st.test = val if is_t(st.test) else ast.copy_location(ast.UnaryOp(op=ast.Not(), operand=val), st.test)
                    elif isinstance(st, (ast.Return, ast.Assign)) and st.value is not None and is_t(st.value):
                        st.value = out.pop().value
            out.append(st)
        return out
    fn_node.body = block(fn_node.body) or [ast.Pass(lineno=fn_node.lineno, col_offset=fn_node.col_offset)]
    fn_node.body = block(fn_node.body) or [ast.Pass(lineno=fn_node.lineno, col_offset=fn_node.col_offset)]


def normalize_guards(prog):
    """Analysis-time normal form applied to every function before anything else: `if c: <ends in return / raise /
    continue / break> else: REST` is read as the guard clause `if c: ...` followed by REST (an `elif` chain is left
    alone).  The two spellings are equivalent; the code base writes guard clauses, and a rule that looks for "the loop in
    the function body" must find it whichever way a later edit writes the early exit.  Returns the number of rewrites."""
    count = 0

    def block(stmts):
        nonlocal count
        out = []
        for st in stmts:
            if isinstance(st, ast.ClassDef):
                st.body = block(st.body)
                out.append(st)
                continue
            for field in ("body", "orelse", "finalbody"):
                sub = getattr(st, field, None)
                if isinstance(sub, list) and sub and isinstance(sub[0], ast.stmt):
                    setattr(st, field, block(sub))
            for h in getattr(st, "handlers", []):
                h.body = block(h.body)
            if isinstance(st, ast.If) and st.orelse and _leaves(st.body) \
                    and not (len(st.orelse) == 1 and isinstance(st.orelse[0], ast.If) and st.orelse[0].col_offset == st.col_offset):
                rest, st.orelse = st.orelse, []
                out.append(st)
                out.extend(rest)
                count += 1
                continue
            out.append(st)
        return out
    for m in prog.modules.values():
        m.tree.body = block(m.tree.body)
        for n in ast.walk(m.tree):
            for ch in ast.iter_child_nodes(n):
                ch._parent = n
    return count


def apply(prog):
    """Inline transparent helpers everywhere (helpers first, so that helpers of helpers are flattened); returns the
    report {helper key: sorted caller keys}."""
    inl = Inliner(prog)
    if not inl.kind:
        return {}
    funcs = _all_with_nested(prog)
    # helpers first (two rounds), then everything else
    helpers = [fi for fi, _k in inl.kind.values()]
    for _round in range(2):
        for fi in helpers:
            inl.process_function(fi)
    for fi in funcs:
        if fi.key in inl.kind:
            continue
        inl.process_function(fi)
    # fold the flag variables left by predicate helpers back into control flow (only where something was inlined)
    touched = {c for callers in inl.inlined.values() for c in callers}
    by_key = {fi.key: fi for fi in funcs}
    for k in sorted(touched):
        fi = by_key.get(k)
        if fi is not None:
            for _round in range(3):
                if not thread(fi.node.body):
                    break
            tidy(fi.node)
    # nested definitions created by inlined closure factories become nested functions of their callers
    from .model import FuncInfo, _own_statements
    for fi in funcs:
        if isinstance(fi.node, ast.Lambda):
            continue
        for st in _own_statements(fi.node):
            if isinstance(st, (ast.FunctionDef, ast.AsyncFunctionDef)) and (st.name not in fi.nested or fi.nested[st.name].node is not st):
                fi.nested[st.name] = FuncInfo(fi.module, st, cls=None, parent=fi)
    # a helper whose every call was inlined is no longer a function of the analysed program
    for hk in list(inl.inlined):
        h = inl.kind[hk][0]
        m = h.module
        refs = 0
        for n in ast.walk(m.tree):
            if isinstance(n, ast.Name) and n.id == h.name and isinstance(n.ctx, ast.Load):
                refs += 1
            elif isinstance(n, ast.Attribute) and n.attr == h.name and isinstance(n.ctx, ast.Load):
                refs += 1
        if refs == 0:
            if h.cls is not None:
                h.cls.methods.pop(h.name, None)
                body = h.cls.node.body
            else:
                m.functions.pop(h.name, None)
                m.names.pop(h.name, None)
                body = m.tree.body
            if h.node in body:
                body.remove(h.node)
                if not body:
                    body.append(ast.Pass(lineno=h.node.lineno, col_offset=h.node.col_offset))
    # re-link parents and fix locations in the functions that changed
    for m in prog.modules.values():
        ast.fix_missing_locations(m.tree)
        for n in ast.walk(m.tree):
            for ch in ast.iter_child_nodes(n):
                ch._parent = n
    prog._all_funcs = None
    return {k: sorted(v) for k, v in sorted(inl.inlined.items())}
