"""Every iteration variable is used.

A `for` loop or comprehension whose target is never read inside it repeats the
same computation once per item of the iterable — almost always because the body
reads a *different*, stale variable (`for ext in extensions: ... extension.interfaces`).
The package has no such loop today (0 of ~450), so the rule is exact here.
Targets starting with `_` are exempt by convention.
"""
import ast

from .model import own_nodes


def _names(n):
    return {x.id for x in ast.walk(n) if isinstance(x, ast.Name)}


def check(prog, run, rule_id, prefixes, floor, consequence):
    r = run.rule(rule_id, "in %s every loop / comprehension variable is read inside its loop (element, filters, later generators or "
                          "body): an unread one means the body works on some other, stale variable and repeats that once per item — %s"
                          % (", ".join(p + "/**" for p in prefixes), consequence), floor)
    for f in prog.all_funcs():
        if not any(f.module.name == p or f.module.name.startswith(p + ".") for p in prefixes):
            continue
        for n in own_nodes(f.node):
            if isinstance(n, (ast.ListComp, ast.SetComp, ast.GeneratorExp, ast.DictComp)):
                elts = [n.key, n.value] if isinstance(n, ast.DictComp) else [n.elt]
                for i, g in enumerate(n.generators):
                    used = set()
                    for e in elts:
                        used |= _names(e)
                    for c in g.ifs:
                        used |= _names(c)
                    for g2 in n.generators[i + 1:]:
                        used |= _names(g2.iter)
                        for c in g2.ifs:
                            used |= _names(c)
                    r.instance("%s: comprehension over %s" % (f.qualname, ast.unparse(g.iter)[:40]), nontrivial=False)
                    for t in sorted(_names(g.target)):
                        if t not in used and not t.startswith("_"):
                            run.report(r, "%s:%s:unused-iteration-variable(%s)" % (f.module.name, f.qualname, t), f.where(n),
                                       "`%s` iterates `%s` as `%s` but never reads `%s`: what it reads instead does not change from one "
                                       "item to the next" % (" ".join(ast.unparse(n).split())[:90], ast.unparse(g.iter), t, t))
            elif isinstance(n, (ast.For, ast.AsyncFor)):
                used = set()
                for st in n.body:
                    used |= _names(st)
                r.instance("%s: for over %s" % (f.qualname, ast.unparse(n.iter)[:40]), nontrivial=False)
                for t in sorted(_names(n.target)):
                    if t not in used and not t.startswith("_"):
                        run.report(r, "%s:%s:unused-iteration-variable(%s)" % (f.module.name, f.qualname, t), f.where(n),
                                   "the loop over `%s` never reads its variable `%s`" % (ast.unparse(n.iter), t))
