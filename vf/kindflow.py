"""Node-kind attribute agreement: a handler registered for AST node classes K
receives a node of class K; every attribute read on that parameter — in the
handler or in any resolved callee it passes the node to — must exist on every
class in K (``__slots__`` incl. inherited, methods, class attributes), unless
the read is inside a ``try`` whose handlers catch AttributeError (then the
handler bodies are checked in turn) or the class set has been narrowed by an
``isinstance`` test.  This is the "typed" part of "validation never raises":
AttributeError is an implicit raise the explicit-raise analysis cannot see.
"""
import ast

from .model import own_nodes, norm_stmt
from .excflow import BY_NAME_CAP, GENERIC_NAMES

OBJECT_ATTRS = set(dir(object))


def _class_names(prog, fi, e):
    out = set()
    for n in ast.walk(e):
        if isinstance(n, ast.Attribute) and isinstance(n.value, ast.Name) and n.value.id in ("_ast", "ast"):
            out.add(n.attr)
        elif isinstance(n, ast.Name) and n is not e or isinstance(e, ast.Name) and n is e:
            if n.id[:1].isupper():
                out.add(n.id)
    return out


class KindFlow:
    def __init__(self, prog, ncs, abstract, max_depth=5):
        self.prog = prog
        self.ncs = ncs
        self.abstract = abstract      # name -> ClassInfo of abstract node classes
        self.max_depth = max_depth
        self.reads = 0
        self.visited = set()
        self.problems = []            # (fi, node, attr, missing classes, chain)

    def has_attr(self, cname, attr):
        nc = self.ncs.get(cname)
        if nc is None:
            return True
        if attr in nc.slots or attr in OBJECT_ATTRS:
            return True
        for k in nc.ci.mro():
            if attr in k.methods or k.find_attr(attr):
                return True
        return False

    def expand(self, names):
        out = set()
        for n in names:
            if n in self.ncs:
                out.add(n)
            elif n in self.abstract:
                a = self.abstract[n]
                out |= {c for c, nc in self.ncs.items() if nc.ci.is_subclass_of(a)}
        return out

    def _narrow(self, fi, node, p, classes):
        cur = node
        cls = set(classes)
        while getattr(cur, "_parent", None) is not None and cur is not fi.node:
            par = cur._parent
            if isinstance(par, (ast.If, ast.IfExp)) and cur is not par.test:
                body = par.body if isinstance(par.body, list) else [par.body]
                in_body = any(cur is b for b in body)
                t = par.test
                neg = False
                if isinstance(t, ast.UnaryOp) and isinstance(t.op, ast.Not):
                    t, neg = t.operand, True
                tests = t.values if isinstance(t, ast.BoolOp) and isinstance(t.op, ast.And) and not neg else [t]
                for tt in tests:
                    if isinstance(tt, ast.Call) and isinstance(tt.func, ast.Name) and tt.func.id == "isinstance" and len(tt.args) == 2 \
                            and isinstance(tt.args[0], ast.Name) and tt.args[0].id == p:
                        named = self.expand(_class_names(self.prog, fi, tt.args[1]))
                        if named:
                            if in_body != neg:
                                cls &= named
                            elif len(tests) == 1:
                                cls -= named
            if isinstance(par, ast.BoolOp) and isinstance(par.op, ast.And):
                idx = par.values.index(cur)
                for tt in par.values[:idx]:
                    if isinstance(tt, ast.Call) and isinstance(tt.func, ast.Name) and tt.func.id == "isinstance" and len(tt.args) == 2 \
                            and isinstance(tt.args[0], ast.Name) and tt.args[0].id == p:
                        named = self.expand(_class_names(self.prog, fi, tt.args[1]))
                        if named:
                            cls &= named
            cur = par
        # early exits: `if not isinstance(p, X): return/raise/continue` earlier in an enclosing block
        cur = node
        while getattr(cur, "_parent", None) is not None and cur is not fi.node:
            par = cur._parent
            for field in ("body", "orelse", "finalbody"):
                blk = getattr(par, field, None)
                if isinstance(blk, list) and any(cur is b for b in blk):
                    for st in blk:
                        if st is cur:
                            break
                        if isinstance(st, ast.If) and st.body and isinstance(st.body[-1], (ast.Return, ast.Raise, ast.Continue, ast.Break)) and not st.orelse:
                            t = st.test
                            neg = False
                            if isinstance(t, ast.UnaryOp) and isinstance(t.op, ast.Not):
                                t, neg = t.operand, True
                            if isinstance(t, ast.Call) and isinstance(t.func, ast.Name) and t.func.id == "isinstance" and len(t.args) == 2 \
                                    and isinstance(t.args[0], ast.Name) and t.args[0].id == p:
                                named = self.expand(_class_names(self.prog, fi, t.args[1]))
                                if named:
                                    cls = (cls & named) if neg else (cls - named)
            cur = par
        return cls

    @staticmethod
    def _hasattr_test(t, p, attr):
        """(is hasattr(p, 'attr') test, negated)"""
        neg = False
        if isinstance(t, ast.UnaryOp) and isinstance(t.op, ast.Not):
            t, neg = t.operand, True
        ok = isinstance(t, ast.Call) and isinstance(t.func, ast.Name) and t.func.id == "hasattr" and len(t.args) == 2 \
            and isinstance(t.args[0], ast.Name) and t.args[0].id == p and isinstance(t.args[1], ast.Constant) and t.args[1].value == attr
        return ok, neg

    def _guarded(self, fi, node):
        """Inside the body of a try that catches AttributeError, or dominated by a hasattr test of the same attribute?"""
        if isinstance(node, ast.Attribute) and isinstance(node.value, ast.Name):
            p, attr = node.value.id, node.attr
            cur = node
            while getattr(cur, "_parent", None) is not None and cur is not fi.node:
                par = cur._parent
                if isinstance(par, (ast.If, ast.IfExp)) and cur is not par.test:
                    body = par.body if isinstance(par.body, list) else [par.body]
                    ok, neg = self._hasattr_test(par.test, p, attr)
                    if ok and (any(cur is b for b in body) != neg):
                        return True
                for field in ("body", "orelse", "finalbody"):
                    blk = getattr(par, field, None)
                    if isinstance(blk, list) and any(cur is b for b in blk):
                        for st in blk:
                            if st is cur:
                                break
                            if isinstance(st, ast.If) and not st.orelse and st.body and isinstance(st.body[-1], (ast.Return, ast.Raise, ast.Continue, ast.Break)):
                                ok, neg = self._hasattr_test(st.test, p, attr)
                                if ok and neg:
                                    return True
                cur = par
        cur = node
        while getattr(cur, "_parent", None) is not None and cur is not fi.node:
            par = cur._parent
            if isinstance(par, ast.Try) and any(cur is b for b in par.body):
                for h in par.handlers:
                    names = {"BaseException"} if h.type is None else {n.id for n in ast.walk(h.type) if isinstance(n, ast.Name)} | \
                        {n.attr for n in ast.walk(h.type) if isinstance(n, ast.Attribute)}
                    if names & {"AttributeError", "Exception", "BaseException"}:
                        return True
            cur = par
        return False

    def _callees(self, fi, call):
        res = self.prog.resolve_call(fi, call, dynamic=True)
        if not res and isinstance(call.func, ast.Attribute) and call.func.attr not in GENERIC_NAMES:
            cands = self.prog.methods_named(call.func.attr)
            if 0 < len(cands) <= BY_NAME_CAP:
                res = cands
        return res

    def flow(self, fi, p, classes, chain=()):
        key = (fi.key, p, frozenset(classes))
        if key in self.visited or len(chain) > self.max_depth or not classes:
            return
        self.visited.add(key)
        chain = chain + ("%s(%s)" % (fi.qualname, p),)
        # re-binding of the parameter ends the tracking in this function
        rebound = any(isinstance(n, ast.Name) and n.id == p and isinstance(n.ctx, ast.Store) for n in own_nodes(fi.node))
        if rebound:
            return
        for n in own_nodes(fi.node):
            if isinstance(n, ast.Attribute) and isinstance(n.ctx, ast.Load) and isinstance(n.value, ast.Name) and n.value.id == p:
                self.reads += 1
                cls = self._narrow(fi, n, p, classes)
                missing = sorted(c for c in cls if not self.has_attr(c, n.attr))
                if missing and not self._guarded(fi, n):
                    self.problems.append((fi, n, n.attr, missing, chain))
            elif isinstance(n, ast.Call):
                hits = [(i, None) for i, a in enumerate(n.args) if isinstance(a, ast.Name) and a.id == p] + \
                       [(None, k.arg) for k in n.keywords if k.arg and isinstance(k.value, ast.Name) and k.value.id == p]
                if not hits:
                    continue
                cls = self._narrow(fi, n, p, classes)
                for callee in self._callees(fi, n):
                    a = callee.node.args
                    params = [x.arg for x in a.posonlyargs + a.args]
                    is_bound = callee.cls is not None and not any(ast.unparse(d) == "staticmethod" for d in callee.node.decorator_list)
                    # an explicit `Class.method(self, ...)` call passes self positionally
                    explicit_self = is_bound and isinstance(n.func, ast.Attribute) and isinstance(n.func.value, ast.Name) and \
                        n.func.value.id[:1].isupper()
                    off = 1 if (is_bound and not explicit_self) else 0
                    for i, kw in hits:
                        if kw is not None:
                            if kw in params or kw in [x.arg for x in a.kwonlyargs]:
                                self.flow(callee, kw, cls, chain)
                        elif i + off < len(params):
                            self.flow(callee, params[i + off], cls, chain)
