"""E2 — recogniser extraction, character front-end: abstract interpretation of
``Lexer.__next__`` (everything inlined) into a regular expression over
character-class atoms, ending in a look-ahead symbol (what is known about the
next, unconsumed character) and the class of the token returned.

Supported idioms (anything else raises ``Unsupported``): reads
``self._source[<cursor expr>]`` inside ``try/except IndexError``; cursor
arithmetic on ``self._position`` (and a local alias written back at the end);
comparisons of a character with literals / literal containers / dict keys,
ordering against a literal, ``str`` predicates; three-character slice
comparisons; ``while`` loops (solved exactly through their loop-head states),
``for _ in range(k)`` (unrolled), dict lookups in ``try/except KeyError``.
"""
import ast
import string

from . import rx
from .model import AnalysisError, Unfoldable

LEXER = "py_gql.lang.lexer"
EOFA = "EOF"


class Unsupported(AnalysisError):
    pass


class Alphabet:
    def __init__(self, prog):
        m = prog.module(LEXER)
        preds = set()
        for n in ast.walk(m.tree):
            if isinstance(n, ast.Call) and isinstance(n.func, ast.Attribute) and n.func.attr.startswith("is") and not n.args \
                    and hasattr(str, n.func.attr):
                preds.add(n.func.attr)
        self.preds = sorted(preds)
        self.ascii = [chr(i) for i in range(128)]
        self.bom = "﻿"
        self.classes = {}   # atom -> representative char
        for ch in self.ascii:
            self.classes[ch] = ch
        self.classes[self.bom] = self.bom
        if not self.preds:
            self.classes["NONASCII"] = "é"
        else:
            groups = {}
            for cp in range(128, 0x110000):
                ch = chr(cp)
                if ch == self.bom:
                    continue
                sig = tuple(getattr(ch, p)() for p in self.preds)
                if sig not in groups:
                    groups[sig] = ch
            for sig, rep in groups.items():
                name = "NONASCII[%s]" % ",".join(p for p, v in zip(self.preds, sig) if v) if any(sig) else "NONASCII"
                self.classes[name] = rep
        self.chars = frozenset(self.classes)
        self.all = self.chars | {EOFA}

    def where(self, pred):
        return frozenset(a for a in self.chars if pred(self.classes[a]))

    def of(self, text):
        return frozenset(a for a in self.chars if self.classes[a] in text and len(a) == 1 or a == text and a in self.chars) if False else \
            frozenset(ch for ch in text if ch in self.chars)

    def show(self, a):
        if a == EOFA:
            return "<EOF>"
        rep = self.classes.get(a, a)
        if len(a) == 1:
            return repr(a)[1:-1] if a.isprintable() and a != " " else ("U+%04X" % ord(a))
        return "%s(e.g. U+%04X)" % (a, ord(rep))


class State:
    __slots__ = ("out", "c", "know", "pos", "env")

    def __init__(self):
        self.out, self.c, self.know, self.pos, self.env = [], 0, {}, {}, {}

    def clone(self):
        s = State()
        s.out, s.c, s.know, s.pos, s.env = list(self.out), self.c, dict(self.know), dict(self.pos), dict(self.env)
        return s


class LexInterp:
    def __init__(self, prog, alphabet):
        self.prog = prog
        self.A = alphabet
        self.module = prog.module(LEXER)
        self.cls = prog.get_class(LEXER, "Lexer")
        self.consts = {}
        for name, exprs in self.module.assigns.items():
            try:
                self.consts[name] = prog.fold(self.module, exprs[-1])
            except Unfoldable:
                pass
        from . import lexrules
        self.consts["SYMBOLS"] = lexrules.symbols_table(prog)
        self.consts["ascii_letters"] = string.ascii_letters
        self.stack = []
        self.alias = {}

    # ------------------------------------------------------------ knowledge
    def k(self, st, off):
        return st.know.get(off, self.A.all)

    def refine(self, st, off, atoms):
        have = self.k(st, off) & atoms
        if not have:
            return None
        s = st.clone()
        s.know[off] = have
        if off in s.pos:
            item = s.out[s.pos[off]]
            s.out[s.pos[off]] = rx.sym(item[1] & have, item[2])
            if s.out[s.pos[off]] == rx.EMPTY:
                return None
        return s

    def consume(self, st, n, where):
        s = st.clone()
        for _ in range(n):
            have = s.know.get(s.c)
            if have is None:
                raise Unsupported("cursor advanced over a character that was never read (%s)" % where)
            have = have - {EOFA}
            if not have:
                return None
            s.pos[s.c] = len(s.out)
            s.out.append(rx.sym(have, where))
            s.c += 1
        return s

    # ----------------------------------------------------------- expressions
    def is_cursor(self, e):
        if isinstance(e, ast.Attribute) and e.attr == "_position" and isinstance(e.value, ast.Name) and e.value.id == "self":
            return True
        if isinstance(e, ast.Name) and self.alias.get(self.stack[-1] if self.stack else None) == e.id:
            return True
        return False

    def is_source(self, e, st):
        """``self._source`` or a local bound to it (``source = self._source``; a helper's parameter)."""
        if isinstance(e, ast.Attribute) and e.attr == "_source" and isinstance(e.value, ast.Name) and e.value.id == "self":
            return True
        return isinstance(e, ast.Name) and st.env.get(e.id) == ("source",)

    def pos_of(self, e, st):
        """absolute offset denoted by a cursor expression, or None."""
        if self.is_cursor(e):
            return st.c
        if isinstance(e, ast.Name) and e.id in st.env and st.env[e.id][0] == "pos":
            return st.env[e.id][1]
        if isinstance(e, ast.BinOp) and isinstance(e.right, ast.Constant) and isinstance(e.right.value, int):
            base = self.pos_of(e.left, st)
            if base is None or base == "?":
                return base
            if isinstance(e.op, ast.Add):
                return base + e.right.value
            if isinstance(e.op, ast.Sub):
                return base - e.right.value
        return None

    def ev(self, e, st):
        """-> list of (state, value)"""
        if isinstance(e, ast.Constant):
            return [(st, ("const", e.value))]
        if isinstance(e, ast.Name):
            if self.is_cursor(e):
                return [(st, ("pos", st.c))]
            if e.id in st.env:
                return [(st, st.env[e.id])]
            if e.id in self.consts:
                return [(st, ("const", self.consts[e.id]))]
            return [(st, ("opaque",))]
        if self.pos_of(e, st) is not None:
            return [(st, ("pos", self.pos_of(e, st)))]
        if isinstance(e, ast.Attribute):
            if isinstance(e.value, ast.Name) and e.value.id == "self":
                if e.attr == "_done":
                    return [(st, ("const", False))]
                if e.attr == "_started":
                    return [(st, ("const", True))]
                if e.attr == "_source":
                    return [(st, ("source",))]
                return [(st, ("opaque",))]
            return [(st, ("opaque",))]
        if isinstance(e, ast.Subscript):
            if self.is_source(e.value, st):
                if isinstance(e.slice, ast.Slice):
                    a = self.pos_of(e.slice.lower, st) if e.slice.lower is not None else None
                    b = self.pos_of(e.slice.upper, st) if e.slice.upper is not None else None
                    return [(st, ("slice", a, b))]
                off = self.pos_of(e.slice, st)
                if off is None or off == "?":
                    raise Unsupported("source index `%s`" % ast.unparse(e.slice))
                # unprotected read: EOF would raise IndexError out of the function -> path dies
                s = self.refine(st, off, self.A.chars)
                return [(s, ("chr", off))] if s else []
            res = []
            for s, cont in self.ev(e.value, st):
                for s2, idx in self.ev(e.slice, s):
                    if cont[0] == "const" and isinstance(cont[1], dict) and idx[0] == "chr":
                        s3 = self.refine(s2, idx[1], frozenset(k for k in cont[1] if k in self.A.chars))
                        if s3:
                            res.append((s3, ("opaque",)))
                    else:
                        res.append((s2, ("opaque",)))
            return res
        if isinstance(e, ast.IfExp):
            res = []
            for s, t in self.cond(e.test, st):
                res.extend(self.ev(e.body if t else e.orelse, s))
            return res
        if isinstance(e, ast.UnaryOp) and isinstance(e.op, (ast.USub, ast.UAdd)):
            if isinstance(e.operand, ast.Constant) and isinstance(e.operand.value, (int, float)):
                return [(st, ("const", -e.operand.value if isinstance(e.op, ast.USub) else e.operand.value))]
            raise Unsupported("arithmetic negation of a non-constant at line %s" % e.lineno)
        if isinstance(e, (ast.BoolOp, ast.Compare)) or (isinstance(e, ast.UnaryOp) and isinstance(e.op, ast.Not)):
            return [(s, ("const", t)) for s, t in self.cond(e, st)]
        if isinstance(e, (ast.List, ast.Tuple)):
            cur = [st]
            for el in e.elts:
                cur = [s2 for s in cur for s2, _ in self.ev(el, s)]
            return [(s, ("opaque",)) for s in cur]
        if isinstance(e, ast.BinOp):
            cur = [s2 for s, _ in self.ev(e.left, st) for s2, _ in self.ev(e.right, s)]
            return [(s, ("opaque",)) for s in cur]
        if isinstance(e, ast.Call):
            return self.call(e, st)
        raise Unsupported("expression %s at line %s" % (type(e).__name__, getattr(e, "lineno", "?")))

    def call(self, e, st):
        f = e.func
        if isinstance(f, ast.Attribute) and isinstance(f.value, ast.Name) and f.value.id == "self":
            m = self.cls.find_method(f.attr)
            if m is None:
                raise Unsupported("self.%s()" % f.attr)
            if e.keywords or any(isinstance(a, ast.Starred) for a in e.args):
                raise Unsupported("lexer helper called with keyword/star arguments: %s" % ast.unparse(e))
            # positional arguments: evaluated left to right (they may read characters), bound to the parameters
            cur = [(st, [])]
            for a in e.args:
                cur = [(s2, vals + [v]) for s1, vals in cur for s2, v in self.ev(a, s1)]
            res = []
            for s1, vals in cur:
                res.extend(self.invoke(m, s1, vals))
            return res
        # str predicate on a character
        if isinstance(f, ast.Attribute) and f.attr in self.A.preds and not e.args:
            res = []
            for s, v in self.ev(f.value, st):
                if v[0] != "chr":
                    raise Unsupported("predicate on non-character")
                res.extend((s2, ("const", t)) for s2, t in self.split(s, v[1], self.A.where(lambda ch, p=f.attr: getattr(ch, p)())))
            return res
        if isinstance(f, ast.Name) and f.id == "len" and len(e.args) == 1:
            res = []
            for s, v in self.ev(e.args[0], st):
                if v[0] == "slice" and isinstance(v[1], int) and isinstance(v[2], int):
                    res.append((s, ("slicelen", v[1], v[2])))
                elif v[0] in ("slice", "opaque") and s.env.get("\0consumed_more_than"):
                    # a text whose start lies before a scanning loop that is known to have consumed more than k characters
                    res.append((s, ("slicelen_gt", s.env["\0consumed_more_than"][1])))
                else:
                    raise Unsupported("len() of %r" % (v,))
            return res
        if isinstance(f, ast.Name) and f.id == "range" and len(e.args) == 1 and isinstance(e.args[0], ast.Constant):
            return [(st, ("range", e.args[0].value))]
        # TABLE[char](...) : the class constructed depends on the character
        if isinstance(f, ast.Subscript):
            res = []
            for s0, cont in self.ev(f.value, st):
                for s1, idx in self.ev(f.slice, s0):
                    if cont[0] == "const" and isinstance(cont[1], dict) and idx[0] == "chr":
                        for key, cls in cont[1].items():
                            s2 = self.refine(s1, idx[1], frozenset([key]) & self.A.chars)
                            if s2 is None:
                                continue
                            cur2 = [s2]
                            for a in list(e.args) + [k.value for k in e.keywords]:
                                cur2 = [s4 for s3 in cur2 for s4, _ in self.ev(a, s3)]
                            res.extend((s5, ("token", cls)) for s5 in cur2)
                    else:
                        raise Unsupported("call through subscript %s" % ast.unparse(f))
            return res
        # any other call: evaluate receiver and arguments (they may consume), result opaque
        cur = [st]
        if isinstance(f, ast.Attribute):
            cur = [s for s0 in cur for s, _ in self.ev(f.value, s0)]
        elif isinstance(f, ast.Subscript):
            cur = [s for s0 in cur for s, _ in self.ev(f, s0)]
        for a in list(e.args) + [k.value for k in e.keywords]:
            cur = [s2 for s in cur for s2, _ in self.ev(a, s)]
        name = f.id if isinstance(f, ast.Name) else (f.attr if isinstance(f, ast.Attribute) else None)
        return [(s, ("token", name) if name and name[:1].isupper() else ("opaque",)) for s in cur]

    def invoke(self, m, st, argvals=()):
        if len(self.stack) > 12:
            raise Unsupported("inline depth")
        s = st.clone()
        saved = s.env
        s.env = {}
        a = m.node.args
        params = [x.arg for x in a.args[1:]]
        if len(argvals) > len(params):
            raise Unsupported("too many arguments for %s" % m.name)
        for p, d in zip(params[len(params) - len(a.defaults):], a.defaults):
            if isinstance(d, ast.Name) and d.id in self.consts:
                s.env[p] = ("const", self.consts[d.id])
            elif isinstance(d, ast.Constant):
                s.env[p] = ("const", d.value)
            else:
                raise Unsupported("default argument %s" % ast.unparse(d))
        for p, v in zip(params, argvals):
            s.env[p] = v
        # local alias of the cursor written back at the end?
        alias = None
        for n in ast.walk(m.node):
            if isinstance(n, ast.Assign) and len(n.targets) == 1 and ast.unparse(n.targets[0]) == "self._position" and isinstance(n.value, ast.Name):
                alias = n.value.id
        self.stack.append(m.name)
        self.alias[m.name] = alias
        try:
            paths = self.block(m.node.body, s)
        finally:
            self.stack.pop()
        res = []
        for s2, status, val in paths:
            if status == "raise":
                continue
            if status == "next":
                val = ("const", None)
            elif status != "return":
                raise Unsupported("status %s escaping %s" % (status, m.name))
            s2 = s2.clone()
            s2.env = dict(saved)
            res.append((s2, val))
        return res

    def module_function(self, name):
        for f in self.prog.all_funcs():
            if f.module is self.module and f.cls is None and f.parent is None and f.name == name:
                return f
        return None

    def invoke_cursor_helper(self, f, call, st):
        """``<cursor> = helper(<source>, <cursor expr>, consts...)``: a module-level function that is handed the source
        and a position at or after the cursor and returns the new position.  Inside it the position parameter *is* the
        cursor (the caller stores the result back into the cursor), so every return must return that parameter."""
        if len(self.stack) > 12:
            raise Unsupported("inline depth")
        a = f.node.args
        params = [x.arg for x in a.args]
        if call.keywords or len(call.args) != len(params) or a.vararg or a.kwarg or a.kwonlyargs:
            raise Unsupported("cursor helper call shape `%s`" % ast.unparse(call))
        s = st.clone()
        saved = s.env
        env = {}
        cursor_param = None
        for p, arg in zip(params, call.args):
            if self.is_source(arg, s):
                env[p] = ("source",)
                continue
            off = self.pos_of(arg, s)
            if off is not None and off != "?":
                if cursor_param is not None or off < s.c:
                    raise Unsupported("cursor helper called with two positions or a position before the cursor: `%s`" % ast.unparse(call))
                s = self.consume(s, off - s.c, "%s:%d" % (self.stack[-1], call.lineno))
                if s is None:
                    return []
                cursor_param = p
                continue
            vals = self.ev(arg, s)
            if len(vals) != 1 or vals[0][1][0] != "const":
                raise Unsupported("cursor helper argument `%s`" % ast.unparse(arg))
            env[p] = vals[0][1]
        if cursor_param is None:
            raise Unsupported("cursor assigned from a helper that is not given a position: `%s`" % ast.unparse(call))
        s.env = env
        self.stack.append(f.name)
        self.alias[f.name] = cursor_param
        try:
            paths = self.block(f.node.body, s)
        finally:
            self.stack.pop()
        out = []
        for s2, status, val in paths:
            if status == "raise":
                continue
            if status != "return" or val != ("pos", s2.c):
                raise Unsupported("cursor helper %s does not return its position on every path" % f.name)
            s2 = s2.clone()
            s2.env = dict(saved)
            out.append(s2)
        return out

    # ------------------------------------------------------------ conditions
    def split(self, st, off, atoms):
        out = []
        a = self.refine(st, off, atoms)
        if a:
            out.append((a, True))
        b = self.refine(st, off, self.A.all - atoms)
        if b:
            out.append((b, False))
        return out

    def cond(self, e, st):
        if isinstance(e, ast.BoolOp):
            res, cur = [], [st]
            is_and = isinstance(e.op, ast.And)
            for sub in e.values:
                nxt = []
                for s in cur:
                    for s2, t in self.cond(sub, s):
                        if t == is_and:
                            nxt.append(s2)
                        else:
                            res.append((s2, t))
                cur = nxt
            res.extend((s, is_and) for s in cur)
            return res
        if isinstance(e, ast.UnaryOp) and isinstance(e.op, ast.Not):
            return [(s, not t) for s, t in self.cond(e.operand, st)]
        if isinstance(e, ast.Compare) and len(e.ops) == 1:
            res = []
            for s, l in self.ev(e.left, st):
                for s2, r in self.ev(e.comparators[0], s):
                    res.extend(self.compare(l, e.ops[0], r, s2, e))
            return res
        res = []
        for s, v in self.ev(e, st):
            if v[0] == "const":
                res.append((s, bool(v[1])))
            else:
                raise Unsupported("truth of %r at line %s" % (v, e.lineno))
        return res

    def compare(self, l, op, r, s, e):
        neg = isinstance(op, (ast.NotEq, ast.NotIn, ast.IsNot))
        if l[0] == "chr":
            if isinstance(op, (ast.Is, ast.IsNot)) and r == ("const", None):
                return [(s, neg)]   # a character that was read is never None
            if r[0] == "const" and isinstance(op, (ast.Eq, ast.NotEq)) and isinstance(r[1], str):
                atoms = frozenset([r[1]]) & self.A.chars if len(r[1]) == 1 else frozenset()
                return [(a, t != neg) for a, t in self.split(s, l[1], atoms)]
            if r[0] == "const" and isinstance(op, (ast.In, ast.NotIn)):
                cont = r[1]
                if isinstance(cont, dict):
                    cont = list(cont)
                atoms = frozenset(x for x in cont if isinstance(x, str) and x in self.A.chars)
                return [(a, t != neg) for a, t in self.split(s, l[1], atoms)]
            if r[0] == "const" and isinstance(r[1], str) and len(r[1]) == 1 and isinstance(op, (ast.GtE, ast.Gt, ast.Lt, ast.LtE)):
                fn = {ast.GtE: lambda ch: ch >= r[1], ast.Gt: lambda ch: ch > r[1], ast.Lt: lambda ch: ch < r[1], ast.LtE: lambda ch: ch <= r[1]}[type(op)]
                return self.split(s, l[1], self.A.where(fn))
        if l[0] == "slicelen_gt" and r[0] == "const" and isinstance(r[1], int) and isinstance(op, (ast.Eq, ast.NotEq)) and r[1] <= l[1]:
            return [(s, False != neg)]          # longer than k, hence different from every length <= k
        if l[0] == "slicelen" and r[0] == "const" and isinstance(op, (ast.Eq, ast.NotEq)):
            a, b = l[1], l[2]
            if b <= s.c:
                # every character of the slice has been consumed: the length is exact
                return [(s, ((b - a) == r[1]) != neg)]
            if r[1] != b - a:
                raise Unsupported("slice length compared with %r at line %s" % (r[1], e.lineno))
            # len(source[a:b]) == b - a  iff  none of the characters a..b-1 is past the end
            res, cur = [], s
            for off in range(a, b):
                if off < cur.c:
                    continue   # already consumed: exists
                short = self.refine(cur, off, frozenset([EOFA]))
                if short:
                    res.append((short, neg))
                cur = self.refine(cur, off, self.A.chars)
                if cur is None:
                    break
            if cur is not None:
                res.append((cur, not neg))
            return res
        if l[0] == "const" and r[0] == "const":
            v = {ast.Eq: lambda a, b: a == b, ast.NotEq: lambda a, b: a != b, ast.Is: lambda a, b: a is b, ast.IsNot: lambda a, b: a is not b,
                 ast.In: lambda a, b: a in b, ast.NotIn: lambda a, b: a not in b,
                 ast.Gt: lambda a, b: a > b, ast.GtE: lambda a, b: a >= b, ast.Lt: lambda a, b: a < b, ast.LtE: lambda a, b: a <= b}.get(type(op))
            if v is not None and isinstance(op, (ast.Gt, ast.GtE, ast.Lt, ast.LtE)) and not (
                    isinstance(l[1], (int, float)) and isinstance(r[1], (int, float)) and not isinstance(l[1], bool)):
                v = None
            if v is None:
                raise Unsupported("constant comparison %s" % type(op).__name__)
            return [(s, v(l[1], r[1]))]
        if l[0] == "slice" and r[0] == "const" and isinstance(r[1], str) and isinstance(op, (ast.Eq, ast.NotEq)):
            a, b = l[1], l[2]
            text = r[1]
            if not (isinstance(a, int) and isinstance(b, int) and b - a == len(text)):
                raise Unsupported("slice comparison with mismatching length at line %s" % e.lineno)
            res = []
            cur = s
            for i, ch in enumerate(text):
                # first mismatch at i (EOF counts as mismatch: the slice is shorter)
                mism = self.refine(cur, a + i, self.A.all - {ch})
                if mism:
                    res.append((mism, neg))
                cur = self.refine(cur, a + i, frozenset([ch]))
                if cur is None:
                    break
            if cur is not None:
                res.append((cur, not neg))
            return res
        raise Unsupported("comparison %r %s %r at line %s" % (l[:1], type(op).__name__, r[:1], e.lineno))

    # ------------------------------------------------------------ statements
    def block(self, stmts, st):
        cur, done = [st], []
        for stmt in stmts:
            nxt = []
            for s in cur:
                for s2, status, val in self.stmt(stmt, s):
                    (nxt if status == "next" else done).append(s2 if status == "next" else (s2, status, val))
            cur = nxt
            if not cur:
                break
        if len(cur) + len(done) > 6000:
            raise Unsupported("path explosion in %s" % (self.stack[-1] if self.stack else "?"))
        done.extend((s, "next", None) for s in cur)
        return done

    def stmt(self, n, st):
        if isinstance(n, ast.Expr):
            if isinstance(n.value, ast.Constant):
                return [(st, "next", None)]
            return [(s, "next", None) for s, _ in self.ev(n.value, st)]
        if isinstance(n, ast.Pass):
            return [(st, "next", None)]
        if isinstance(n, (ast.Assign, ast.AnnAssign)):
            tgt = n.targets[0] if isinstance(n, ast.Assign) else n.target
            if n.value is None:
                return [(st, "next", None)]
            if ast.unparse(tgt) == "self._position":
                off = self.pos_of(n.value, st)
                if off is None or off == "?":
                    raise Unsupported("cursor assigned from `%s`" % ast.unparse(n.value))
                if off < st.c:
                    raise Unsupported("cursor moved backwards at line %s" % n.lineno)
                s = self.consume(st, off - st.c, "%s:%d" % (self.stack[-1], n.lineno))
                return [(s, "next", None)] if s else []
            if self.is_cursor(tgt) and isinstance(n.value, ast.Call) and isinstance(n.value.func, ast.Name):
                helper = self.module_function(n.value.func.id)
                if helper is not None:
                    return [(s, "next", None) for s in self.invoke_cursor_helper(helper, n.value, st)]
            res = []
            for s, v in self.ev(n.value, st):
                s = s.clone()
                if isinstance(tgt, ast.Name):
                    if self.alias.get(self.stack[-1]) == tgt.id:
                        off = self.pos_of(n.value, s)
                        if not self.is_cursor(n.value) and isinstance(off, int) and off > s.c:
                            # `pos = pos + k`: the alias moves forward over characters that were read
                            s = self.consume(s, off - s.c, "%s:%d" % (self.stack[-1], n.lineno))
                            if s is None:
                                continue
                        elif not self.is_cursor(n.value) and off != s.c:
                            raise Unsupported("cursor alias re-bound at line %s" % n.lineno)
                    else:
                        s.env[tgt.id] = v
                elif isinstance(tgt, ast.Attribute) and isinstance(tgt.value, ast.Name) and tgt.value.id == "self":
                    pass
                else:
                    raise Unsupported("assignment target %s" % ast.unparse(tgt))
                res.append((s, "next", None))
            return res
        if isinstance(n, ast.AugAssign):
            if self.is_cursor(n.target) and isinstance(n.op, ast.Add) and isinstance(n.value, ast.Constant):
                s = self.consume(st, n.value.value, "%s:%d" % (self.stack[-1], n.lineno))
                return [(s, "next", None)] if s else []
            if isinstance(n.target, ast.Name) and n.target.id in st.env and st.env[n.target.id][0] == "pos" and isinstance(n.value, ast.Constant):
                s = st.clone()
                s.env[n.target.id] = ("pos", st.env[n.target.id][1] + (n.value.value if isinstance(n.op, ast.Add) else -n.value.value))
                return [(s, "next", None)]
            if isinstance(n.target, ast.Name) and n.target.id in st.env and st.env[n.target.id][0] == "const" \
                    and isinstance(st.env[n.target.id][1], int) and not isinstance(st.env[n.target.id][1], bool) \
                    and isinstance(n.value, ast.Constant) and isinstance(n.value.value, int) and isinstance(n.op, (ast.Add, ast.Sub)):
                # a plain counter (`remaining -= 1`)
                s = st.clone()
                cur = st.env[n.target.id][1]
                s.env[n.target.id] = ("const", cur + n.value.value if isinstance(n.op, ast.Add) else cur - n.value.value)
                return [(s, "next", None)]
            raise Unsupported("augmented assignment `%s`" % ast.unparse(n))
        if isinstance(n, ast.Return):
            if n.value is None:
                return [(st, "return", ("const", None))]
            return [(s, "return", v) for s, v in self.ev(n.value, st)]
        if isinstance(n, ast.Raise):
            return [(st, "raise", None)]
        if isinstance(n, ast.Break):
            return [(st, "break", None)]
        if isinstance(n, ast.Continue):
            return [(st, "continue", None)]
        if isinstance(n, ast.If):
            res = []
            for s, t in self.cond(n.test, st):
                res.extend(self.block(n.body if t else n.orelse, s))
            return res
        if isinstance(n, ast.Try):
            return self.try_(n, st)
        if isinstance(n, ast.While):
            return self.loop(n, st)
        if isinstance(n, ast.For):
            rng = None
            for _, v in self.ev(n.iter, st):
                rng = v
            if not rng or rng[0] != "range":
                raise Unsupported("for loop over %s" % ast.unparse(n.iter))
            cur, done = [st], []
            for _ in range(rng[1]):
                nxt = []
                for s in cur:
                    for s2, status, val in self.block(n.body, s):
                        if status in ("next", "continue"):
                            nxt.append(s2)
                        elif status == "break":
                            done.append((s2, "next", None))
                        else:
                            done.append((s2, status, val))
                cur = nxt
            done.extend((s, "next", None) for s in cur)
            return done
        raise Unsupported("statement %s at line %s" % (type(n).__name__, n.lineno))

    def try_(self, n, st):
        names = [ast.unparse(h.type) if h.type is not None else "BaseException" for h in n.handlers]
        if n.finalbody:
            raise Unsupported("try/finally in the lexer")
        if names == ["IndexError"] and len(n.body) == 1 and isinstance(n.body[0], (ast.Assign, ast.AnnAssign)):
            a = n.body[0]
            tgt = a.targets[0] if isinstance(a, ast.Assign) else a.target
            v = a.value
            if isinstance(tgt, ast.Name) and isinstance(v, ast.Subscript) and self.is_source(v.value, st) and not isinstance(v.slice, ast.Slice):
                off = self.pos_of(v.slice, st)
                if off is None or off == "?":
                    raise Unsupported("read at `%s`" % ast.unparse(v.slice))
                res = []
                ok = self.refine(st, off, self.A.chars)
                if ok:
                    ok = ok.clone()
                    ok.env[tgt.id] = ("chr", off)
                    res.extend(self.block(n.orelse, ok))
                eof = self.refine(st, off, frozenset([EOFA]))
                if eof:
                    res.extend(self.block(n.handlers[0].body, eof))
                return res
        if names == ["KeyError"] and len(n.body) == 1 and isinstance(n.body[0], ast.Return) and isinstance(n.body[0].value, ast.Subscript):
            sub = n.body[0].value
            res = []
            for s, cont in self.ev(sub.value, st):
                for s2, idx in self.ev(sub.slice, s):
                    if not (cont[0] == "const" and isinstance(cont[1], dict) and idx[0] == "chr"):
                        raise Unsupported("dict lookup shape")
                    keys = frozenset(k for k in cont[1] if k in self.A.chars)
                    for s3, t in self.split(s2, idx[1], keys):
                        if t:
                            res.append((s3, "return", ("opaque",)))
                        else:
                            res.extend(self.block(n.handlers[0].body, s3))
            return res
        if names == ["ValueError"]:
            # conversion of already validated text: handler must only raise
            if not all(isinstance(x, ast.Raise) for x in n.handlers[0].body):
                raise Unsupported("ValueError handler does more than raise")
            return self.block(n.body + n.orelse, st)
        raise Unsupported("try statement with handlers %s at line %s" % (names, n.lineno))

    # ------------------------------------------------------------------ loops
    def rebase(self, s):
        r = State()
        r.know = {k - s.c: v for k, v in s.know.items() if k >= s.c}
        for name, v in s.env.items():
            if v[0] == "chr":
                r.env[name] = ("chr", v[1] - s.c) if v[1] >= s.c else ("stale",)
            elif v[0] == "pos":
                r.env[name] = ("pos", v[1] - s.c) if v[1] != "?" and v[1] >= s.c else ("pos", "?")
            elif v[0] == "slice":
                r.env[name] = ("opaque",)
            else:
                r.env[name] = v
        return r

    def key(self, s):
        return (tuple(sorted((k, tuple(sorted(v))) for k, v in s.know.items())), tuple(sorted((k, repr(v)) for k, v in s.env.items())))

    def seq(self, s):
        return rx.cat(*s.out)

    def _counter_loop(self, n, st):
        """`while <counter test>:` where the test only mentions integer constants held in locals: unrolled exactly
        (the counted `for _ in range(k)` written as a while loop)."""
        names = [x.id for x in ast.walk(n.test) if isinstance(x, ast.Name)]
        if not names or not isinstance(n.test, ast.Compare) or any(isinstance(x, (ast.Call, ast.Attribute, ast.Subscript)) for x in ast.walk(n.test)):
            return None
        for nm in names:
            v = st.env.get(nm)
            if not (v and v[0] == "const" and isinstance(v[1], int) and not isinstance(v[1], bool)):
                return None
        cur, done = [st], []
        for _ in range(66):
            nxt = []
            for s in cur:
                for s1, t in self.cond(n.test, s):
                    if not t:
                        done.append((s1, "next", None))
                        continue
                    for s2, status, val in self.block(n.body, s1):
                        if status in ("next", "continue"):
                            nxt.append(s2)
                        elif status == "break":
                            done.append((s2, "next", None))
                        else:
                            done.append((s2, status, val))
            cur = nxt
            if not cur:
                return done
        raise Unsupported("counter loop at line %s does not terminate within 64 iterations" % n.lineno)

    def _length_bound(self):
        """largest integer a `len(...)` is compared with in the method being interpreted (None when there is none)"""
        if not self.stack:
            return None
        m = self.stack[-1]
        if isinstance(m, str):
            m = self.cls.find_method(m) or self.module_function(m) if hasattr(self, "module_function") else self.cls.find_method(m)
        node = getattr(m, "node", None)
        if node is None:
            return None
        best = None
        for x in ast.walk(node):
            if isinstance(x, ast.Compare) and len(x.ops) == 1 and isinstance(x.left, ast.Call) and isinstance(x.left.func, ast.Name) \
                    and x.left.func.id == "len" and isinstance(x.comparators[0], ast.Constant) and isinstance(x.comparators[0].value, int) \
                    and not isinstance(x.comparators[0].value, bool):
                best = x.comparators[0].value if best is None else max(best, x.comparators[0].value)
        return best if best is not None and 0 < best <= 16 else None

    def loop(self, n, st, _unrolled=False):
        if n.orelse:
            raise Unsupported("while/else")
        unrolled = self._counter_loop(n, st)
        if unrolled is not None:
            return unrolled
        bound = None if _unrolled else self._length_bound()
        if bound is not None and isinstance(n.test, ast.Constant) and bool(n.test.value):
            # an unbounded scanning loop whose consumed text is later measured against a constant k (`len(text) != k`):
            # the first k+1 iterations are interpreted one by one (positions stay exact), whatever is still looping after
            # them has consumed more than k characters and goes on in the general (star) form
            cur, done = [st], []
            for _ in range(bound + 1):
                nxt = []
                for s in cur:
                    for s2, status, val in self.block(n.body, s):
                        if status in ("next", "continue"):
                            if s2.c <= s.c:
                                raise Unsupported("loop at line %s has an iteration that consumes nothing" % n.lineno)
                            nxt.append(s2)
                        elif status == "break":
                            done.append((s2, "next", None))
                        else:
                            done.append((s2, status, val))
                cur = nxt
            for s in cur:
                s = s.clone()
                s.env["\0consumed_more_than"] = ("const", bound)
                done.extend(self.loop(n, s, _unrolled=True))
            return done
        heads, index, work = [], {}, []

        def register(hs):
            k = self.key(hs)
            if k not in index:
                index[k] = len(heads)
                heads.append(hs)
                work.append(index[k])
                if len(heads) > 40:
                    raise Unsupported("loop at line %s has too many abstract head states" % n.lineno)
            return index[k]
        register(self.rebase(st))
        edges, exits = {}, []
        always = isinstance(n.test, ast.Constant) and bool(n.test.value)
        while work:
            i = work.pop()
            h = heads[i].clone()
            tests = [(h, True)] if always else self.cond(n.test, h)
            for s, t in tests:
                if not t:
                    exits.append((i, s, "next", None))
                    continue
                for s2, status, val in self.block(n.body, s):
                    if status in ("next", "continue"):
                        j = register(self.rebase(s2))
                        edges.setdefault((i, j), []).append(self.seq(s2))
                    elif status == "break":
                        exits.append((i, s2, "next", None))
                    elif status == "return":
                        exits.append((i, s2, "return", val))
                    elif status != "raise":
                        raise Unsupported("status %s in loop" % status)
        nh = len(heads)
        L = [[rx.alt(*edges.get((i, j), [])) if (i, j) in edges else rx.EMPTY for j in range(nh)] for i in range(nh)]
        for k in range(nh):
            Lk = [row[:] for row in L]
            for i in range(nh):
                for j in range(nh):
                    if L[i][k] != rx.EMPTY and L[k][j] != rx.EMPTY:
                        Lk[i][j] = rx.alt(L[i][j], rx.cat(L[i][k], rx.star(L[k][k]), L[k][j]))
            L = Lk
        P = [rx.alt(rx.EPS, L[0][0]) if i == 0 else L[0][i] for i in range(nh)]
        res = []
        for i, s, status, val in exits:
            if P[i] == rx.EMPTY:
                continue
            r = st.clone()
            r.out = list(st.out) + [P[i], self.seq(s)]
            rb = self.rebase(s)
            r.c, r.pos = 0, {}
            # re-anchor: consumed so far is now in `out`; knowledge/env relative to the cursor
            r.know = rb.know
            r.env = rb.env
            # make the state's coordinates start at 0 again
            res.append((self._restart(r), status, val))
        return res

    def _restart(self, s):
        # after a loop the segment restarts at offset 0 with `out` carrying everything consumed so far
        s.c = 0
        return s

    # ---------------------------------------------------------------- driver
    def token_language(self):
        """Regex of: consumed characters, then LA(<what is known about the next character>), then RET(<token class>)."""
        m = self.cls.find_method("__next__")
        if m is None:
            raise AnalysisError("Lexer.__next__ not found")
        st = State()
        alts = []
        for s, val in self.invoke(m, st):
            if val[0] == "token":
                kinds = [val[1]]
            elif val[0] == "const" and val[1] is None:
                raise Unsupported("__next__ returns None on some path")
            else:
                kinds = ["?"]
            la = rx.sym(frozenset(("la", a) for a in self.k(s, s.c)))
            for kd in kinds:
                alts.append(rx.cat(*(s.out + [la, rx.sym(frozenset([("ret", kd)]))])))
        return rx.alt(*alts)
