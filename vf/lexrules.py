"""Rules shared by C01/C02 over lang/lexer.py, lang/token.py and
_string_utils.parse_block_string."""
import ast

from .model import AnalysisError, own_nodes, norm_stmt, Unfoldable

LEXER = "py_gql.lang.lexer"
TOKEN = "py_gql.lang.token"
STRUTILS = "py_gql._string_utils"

SPEC_PUNCTUATORS = {"!", "$", "(", ")", "[", "]", "{", "}", ":", "=", "@", "|", "&"}
SPEC_ELLIPSIS = "..."
SPEC_IGNORED = {"﻿", "\t", " ", "\n", "\r", ","}
SPEC_ESCAPES = {'"': '"', "\\": "\\", "/": "/", "b": "\b", "f": "\f", "n": "\n", "r": "\r", "t": "\t"}

# str methods whose result depends on Unicode properties beyond ASCII
UNICODE_AWARE = {
    "isdigit", "isdecimal", "isnumeric", "isalpha", "isalnum", "isspace", "isidentifier", "isprintable",
    "isupper", "islower", "istitle", "splitlines", "lower", "upper", "casefold", "title", "capitalize", "swapcase",
}
# only Unicode aware when called without an explicit character set / separator
UNICODE_AWARE_NOARG = {"strip", "lstrip", "rstrip", "split", "rsplit"}


def token_values(prog):
    """token class name -> constant ``value`` class attribute (ConstToken subclasses)."""
    m = prog.module(TOKEN)
    out = {}
    for c in m.classes.values():
        v = c.attrs.get("value")
        if v is not None and isinstance(v, ast.Constant):
            out[c.name] = v.value
    return out


def symbols_table(prog):
    """Fold ``SYMBOLS = {cls.value: cls for cls in (...)}`` (or a literal dict)."""
    m = prog.module(LEXER)
    r = prog.resolve_name(m, "SYMBOLS")
    if not r or r[0] != "assign":
        raise AnalysisError("lexer.SYMBOLS not found")
    e = r[1]
    tv = token_values(prog)
    out = {}
    if isinstance(e, ast.DictComp) and len(e.generators) == 1 and isinstance(e.generators[0].iter, (ast.Tuple, ast.List)):
        var = e.generators[0].target.id
        if not (ast.unparse(e.key) == "%s.value" % var and ast.unparse(e.value) == var):
            raise AnalysisError("lexer.SYMBOLS comprehension has an unrecognised shape")
        for el in e.generators[0].iter.elts:
            if not isinstance(el, ast.Name) or el.id not in tv:
                raise AnalysisError("lexer.SYMBOLS element %s is not a constant token class" % ast.unparse(el))
            out[tv[el.id]] = el.id
        return out
    if isinstance(e, ast.Dict):
        for k, v in zip(e.keys, e.values):
            out[prog.fold(m, k)] = ast.unparse(v)
        return out
    raise AnalysisError("lexer.SYMBOLS has an unrecognised shape")


def unicode_aware_calls(fn_node):
    """Yield (call node, method name) for Unicode-aware str method calls that are
    not conjoined with an ASCII guard on the same receiver."""
    for n in own_nodes(fn_node):
        if not (isinstance(n, ast.Call) and isinstance(n.func, ast.Attribute)):
            continue
        name = n.func.attr
        hit = name in UNICODE_AWARE or (name in UNICODE_AWARE_NOARG and not n.args and not n.keywords)
        if not hit:
            continue
        recv = ast.unparse(n.func.value)
        if _ascii_guarded(n, recv):
            continue
        yield n, name


def _ascii_guarded(call, recv):
    cur = call
    while getattr(cur, "_parent", None) is not None:
        par = cur._parent
        if isinstance(par, ast.BoolOp) and isinstance(par.op, ast.And):
            idx = par.values.index(cur) if cur in par.values else len(par.values)
            for prev in par.values[:idx]:
                if _is_ascii_test(prev, recv):
                    return True
        if isinstance(par, ast.stmt):
            break
        cur = par
    return False


def _is_ascii_test(e, recv):
    t = ast.unparse(e)
    if t == "%s.isascii()" % recv:
        return True
    if isinstance(e, ast.Compare) and len(e.ops) == 2 and ast.unparse(e.comparators[0]) == recv \
            and all(isinstance(o, (ast.LtE, ast.Lt)) for o in e.ops):
        return True
    if isinstance(e, ast.Compare) and len(e.ops) == 1 and isinstance(e.ops[0], ast.In) and ast.unparse(e.left) == recv:
        c = e.comparators[0]
        if isinstance(c, ast.Constant) and isinstance(c.value, str) and c.value.isascii():
            return True
    return False
