"""Order-preserving list pipelines.

Describes what a small list-building function computes as a term over its
parameters, independent of how it is written:

    ("it", p)                 the iterable parameter p, in iteration order
    ("map", f, S)             f applied to every element of S, in order
    ("notnone", S)            S without its None elements, in order
    ("truthy", S)             S without its falsy elements
    ("filter", text, S)       S filtered by another condition
    ("reversed", S) / ("sorted", S) / ("set", S)

Recognised forms: comprehensions / generator expressions with one generator,
``map`` / ``filter`` / ``list`` / ``tuple`` / ``iter``, locals bound once, calls to
module-level helpers (described recursively with their parameters bound), and
the accumulate loop ``acc = []; for v in S: [y = f(v)]; if <test>: acc.append(y);
return acc`` (with ``continue`` guards).  Anything else -> None (the caller decides
what to do with an undescribed function)."""
import ast


def describe_function(prog, fi, args=None, depth=0):
    """Term computed by ``fi`` with its positional parameters bound to ``args`` (default: ("it"/"fn", name) leaves)."""
    params = [p for p in fi.params]
    if args is None:
        args = [("param", p) for p in params]
    env = dict(zip(params, args))
    body = [s for s in fi.node.body if not (isinstance(s, ast.Expr) and isinstance(s.value, ast.Constant))]
    return _block(prog, fi, body, env, depth)


def _block(prog, fi, body, env, depth):
    env = dict(env)
    i = 0
    while i < len(body):
        st = body[i]
        if isinstance(st, ast.Return):
            return _expr(prog, fi, st.value, env, depth) if st.value is not None else None
        if isinstance(st, (ast.Assign, ast.AnnAssign)):
            tgt = st.targets[0] if isinstance(st, ast.Assign) else st.target
            if isinstance(st, ast.Assign) and len(st.targets) != 1:
                return None
            if not isinstance(tgt, ast.Name) or st.value is None:
                return None
            v = st.value
            if (isinstance(v, ast.List) and not v.elts) or (isinstance(v, ast.Call) and isinstance(v.func, ast.Name) and v.func.id == "list" and not v.args):
                env[tgt.id] = ("acc", ())
            else:
                d = _expr(prog, fi, v, env, depth)
                if d is None:
                    return None
                env[tgt.id] = d
            i += 1
            continue
        if isinstance(st, ast.For) and isinstance(st.target, ast.Name) and not st.orelse:
            src = _expr(prog, fi, st.iter, env, depth)
            if src is None:
                return None
            res = _loop_body(prog, fi, st.body, st.target.id, src, env)
            if res is None:
                return None
            acc, term = res
            if env.get(acc) != ("acc", ()):
                return None
            env[acc] = term
            i += 1
            continue
        return None
    return None


def _loop_body(prog, fi, body, var, src, env):
    """(accumulator name, term) for a loop body that appends (a function of) each element under conditions."""
    cur = ("elem", var)          # what `var`-derived value is appended
    local = {var: ("elem",)}
    term = src
    stmts = list(body)
    while stmts:
        st = stmts.pop(0)
        if isinstance(st, ast.Assign) and len(st.targets) == 1 and isinstance(st.targets[0], ast.Name):
            v = st.value
            if isinstance(v, ast.Call) and len(v.args) == 1 and not v.keywords and isinstance(v.args[0], ast.Name) and local.get(v.args[0].id) == ("elem",):
                f = _callable(v.func, env)
                if f is None:
                    return None
                term = ("map", f, term)
                local = {st.targets[0].id: ("elem",)}
                continue
            return None
        if isinstance(st, ast.If) and not st.orelse and len(st.body) == 1 and isinstance(st.body[0], ast.Continue):
            k = _test(st.test, local)
            if k is None:
                return None
            term = _filtered(term, k, negate=True, text=ast.unparse(st.test))
            continue
        if isinstance(st, ast.If) and not st.orelse and not stmts:
            k = _test(st.test, local)
            if k is None:
                return None
            term = _filtered(term, k, negate=False, text=ast.unparse(st.test))
            stmts = list(st.body)
            continue
        if isinstance(st, ast.Expr) and isinstance(st.value, ast.Call) and isinstance(st.value.func, ast.Attribute) and st.value.func.attr == "append" \
                and isinstance(st.value.func.value, ast.Name) and len(st.value.args) == 1 and not stmts:
            a = st.value.args[0]
            if isinstance(a, ast.Name) and local.get(a.id) == ("elem",):
                return st.value.func.value.id, term
            if isinstance(a, ast.Call) and len(a.args) == 1 and not a.keywords and isinstance(a.args[0], ast.Name) and local.get(a.args[0].id) == ("elem",):
                f = _callable(a.func, env)
                if f is None:
                    return None
                return st.value.func.value.id, ("map", f, term)
            return None
        return None
    return None


def _test(t, local):
    """'notnone' / 'none' / 'truthy' / 'falsy' for a test on the current element, else ('other', text)."""
    if isinstance(t, ast.Compare) and len(t.ops) == 1 and isinstance(t.left, ast.Name) and local.get(t.left.id) == ("elem",) \
            and isinstance(t.comparators[0], ast.Constant) and t.comparators[0].value is None:
        if isinstance(t.ops[0], ast.IsNot):
            return "notnone"
        if isinstance(t.ops[0], ast.Is):
            return "none"
        return ("other", ast.unparse(t))
    if isinstance(t, ast.Name) and local.get(t.id) == ("elem",):
        return "truthy"
    if isinstance(t, ast.UnaryOp) and isinstance(t.op, ast.Not):
        k = _test(t.operand, local)
        return {"notnone": "none", "none": "notnone", "truthy": "falsy", "falsy": "truthy"}.get(k, ("other", ast.unparse(t))) if k is not None else None
    return ("other", ast.unparse(t))


def _filtered(term, k, negate, text):
    if isinstance(k, tuple):
        return ("filter", ("not " if negate else "") + text, term)
    if negate:
        k = {"notnone": "none", "none": "notnone", "truthy": "falsy", "falsy": "truthy"}[k]
    return (k, term)


def _callable(f, env):
    if isinstance(f, ast.Name):
        v = env.get(f.id)
        if v is not None and v[0] == "param":
            return ("param", v[1])
        return ("name", f.id)
    if isinstance(f, ast.Attribute):
        return ("name", ast.unparse(f))
    return None


def _expr(prog, fi, e, env, depth):
    if isinstance(e, ast.Name):
        if e.id in env:
            v = env[e.id]
            return ("it", v[1]) if v[0] == "param" else v
        return None
    if isinstance(e, (ast.ListComp, ast.GeneratorExp)):
        if len(e.generators) != 1 or not isinstance(e.generators[0].target, ast.Name) or e.generators[0].is_async:
            return None
        g = e.generators[0]
        src = _expr(prog, fi, g.iter, env, depth)
        if src is None:
            return None
        local = {g.target.id: ("elem",)}
        term = src
        # conditions are about the generator variable (before mapping)
        for c in g.ifs:
            k = _test(c, local)
            if k is None:
                return None
            term = _filtered(term, k, negate=False, text=ast.unparse(c))
        if isinstance(e.elt, ast.Name) and e.elt.id == g.target.id:
            return term
        if isinstance(e.elt, ast.Call) and len(e.elt.args) == 1 and not e.elt.keywords and isinstance(e.elt.args[0], ast.Name) and e.elt.args[0].id == g.target.id:
            f = _callable(e.elt.func, env)
            return ("map", f, term) if f is not None else None
        return None
    if isinstance(e, ast.Call) and isinstance(e.func, ast.Name):
        name = e.func.id
        if name in ("list", "tuple", "iter") and len(e.args) == 1 and not e.keywords:
            return _expr(prog, fi, e.args[0], env, depth)
        if name == "map" and len(e.args) == 2:
            src = _expr(prog, fi, e.args[1], env, depth)
            f = _callable(e.args[0], env)
            return ("map", f, src) if src is not None and f is not None else None
        if name == "filter" and len(e.args) == 2:
            src = _expr(prog, fi, e.args[1], env, depth)
            if src is None:
                return None
            if isinstance(e.args[0], ast.Constant) and e.args[0].value is None:
                return ("truthy", src)
            return ("filter", ast.unparse(e.args[0]), src)
        if name in ("reversed", "sorted", "set", "frozenset") and e.args:
            src = _expr(prog, fi, e.args[0], env, depth)
            return (name, src) if src is not None else None
        if depth < 3:
            cal = [c for c in prog.resolve_call(fi, e) if c.cls is None]
            if len(cal) == 1 and not e.keywords:
                args = []
                for a in e.args:
                    if isinstance(a, ast.Name) and a.id in env and env[a.id][0] == "param":
                        args.append(env[a.id])
                    else:
                        d = _expr(prog, fi, a, env, depth)
                        if d is None:
                            return None
                        args.append(d)
                sub = describe_function(prog, cal[0], args, depth + 1)
                return _subst(sub)
    if isinstance(e, ast.Subscript) and isinstance(e.slice, ast.Slice) and e.slice.step is not None:
        src = _expr(prog, fi, e.value, env, depth)
        return ("reversed", src) if src is not None else None
    return None


def _subst(term):
    """A helper's description is written over ("it", <bound term>) leaves: splice bound terms in."""
    if term is None:
        return None
    if term[0] == "it" and isinstance(term[1], tuple):
        return term[1]
    if term[0] == "map":
        f = term[1]
        return ("map", f, _subst(term[2]))
    if term[0] in ("notnone", "none", "truthy", "falsy", "reversed", "sorted", "set", "frozenset"):
        return (term[0], _subst(term[1]))
    if term[0] == "filter":
        return ("filter", term[1], _subst(term[2]))
    return term
