"""Lossy skip sets inside loops.

    done = set()
    for (key, rest) in items:
        if ... key not in done ...:
            done.add(key)
            <work reading rest>

skips every later item with the same key.  That is sound only when the work depends on the key alone.  If the guarded
work reads parts of the loop item that the key does not determine (other elements of the unpacked target, attributes of
the item other than the key expression), later items are silently left unchecked.
"""
import ast

from .model import own_nodes


def _names(n):
    return {x.id for x in ast.walk(n) if isinstance(x, ast.Name)}


def check(prog, run, rule_id, prefixes, floor, consequence):
    r = run.rule(rule_id, "in %s a loop never skips items through a local set keyed by a projection of the item while the guarded work "
                          "reads other parts of the item (`for (k, rest) in items: if k not in seen: seen.add(k); <uses rest>`): %s"
                          % (", ".join(p + "/**" for p in prefixes), consequence), floor)
    for f in prog.all_funcs():
        if not any(f.module.name == p or f.module.name.startswith(p + ".") for p in prefixes):
            continue
        # the same idea through the package's helper: deduplicate(items, key=<projection>) drops every later item with the same
        # projection; in the validator an item is a usage / a node whose verdict can depend on any part of it
        for c in own_nodes(f.node):
            if isinstance(c, ast.Call) and isinstance(c.func, ast.Name) and c.func.id == "deduplicate":
                kw = next((k.value for k in c.keywords if k.arg == "key"), c.args[1] if len(c.args) > 1 else None)
                r.instance("%s: deduplicate(%s%s)" % (f.qualname, ast.unparse(c.args[0])[:40] if c.args else "", ", key=..." if kw is not None else ""), nontrivial=kw is not None)
                if kw is None or (isinstance(kw, ast.Constant) and kw.value is None):
                    continue
                identity = isinstance(kw, ast.Lambda) and isinstance(kw.body, ast.Name) and kw.args.args and kw.body.id == kw.args.args[0].arg
                if not identity:
                    run.report(r, "%s:%s:lossy-dedup-key(%s)" % (f.module.name, f.qualname, " ".join(ast.unparse(kw).split())[:80]), f.where(c),
                               "`%s` keeps only the first item per key: items that agree on the key but differ elsewhere (another "
                               "location, a default, another node) are never examined" % " ".join(ast.unparse(c).split())[:120])
        for loop in own_nodes(f.node):
            if not isinstance(loop, (ast.For, ast.AsyncFor)):
                continue
            r.instance("%s: loop over %s" % (f.qualname, ast.unparse(loop.iter)[:40]), nontrivial=False)
            targets = _names(loop.target)
            # bindings made in the loop body from the target (varnode, input_type, ... = usage)
            derived = {}
            for st in loop.body:
                for x in ast.walk(st):
                    if isinstance(x, ast.Assign):
                        src = _names(x.value)
                        for t in x.targets:
                            for nm in _names(t):
                                derived.setdefault(nm, set()).update(src)
            for n in ast.walk(loop):
                if not isinstance(n, ast.If):
                    continue
                for c in ast.walk(n.test):
                    if isinstance(c, ast.Compare) and len(c.ops) == 1 and isinstance(c.ops[0], ast.NotIn) and isinstance(c.comparators[0], ast.Name):
                        S = c.comparators[0].id
                        key_names = _names(c.left)
                        adds = [x for st in n.body for x in ast.walk(st) if isinstance(x, ast.Call) and isinstance(x.func, ast.Attribute)
                                and x.func.attr == "add" and isinstance(x.func.value, ast.Name) and x.func.value.id == S]
                        if not adds or not (key_names & (targets | set(derived))):
                            continue
                        # is S local to the function and created outside this loop iteration?
                        made = [x for x in own_nodes(f.node) if isinstance(x, ast.Assign) and any(isinstance(t, ast.Name) and t.id == S for t in x.targets)]
                        if not made or any(any(x is y for y in ast.walk(loop)) for x in made):
                            continue
                        r.instance("%s: skip set `%s` keyed by `%s`" % (f.qualname, S, ast.unparse(c.left)))
                        # what the guarded body reads from the loop item beyond the key
                        read = set()
                        for st in n.body:
                            read |= _names(st)

                        def roots(name, seen=None):
                            seen = seen or set()
                            if name in seen:
                                return set()
                            seen.add(name)
                            if name in targets:
                                return {name}
                            out = set()
                            for d in derived.get(name, ()):
                                out |= roots(d, seen)
                            return out
                        key_roots = set()
                        for k in key_names:
                            key_roots |= roots(k)
                        other = set()
                        for nm in read:
                            other |= roots(nm)
                        other -= key_roots
                        if other:
                            run.report(r, "%s:%s:lossy-skip-set(%s by %s)" % (f.module.name, f.qualname, S, ast.unparse(c.left)), f.where(n),
                                       "items whose `%s` is already in `%s` are skipped, but the guarded work also reads %s of the item: "
                                       "later items with the same key are never examined" % (ast.unparse(c.left), S, ", ".join(sorted(other))))
