"""E0 — program model: modules, imports, classes (MRO), functions, constant
folding and call resolution over ``<root>/src/py_gql``.  Pure ``ast``.
"""
import ast
import os


class AnalysisError(Exception):
    """The analysis itself cannot run (anchor vanished, unsupported idiom)."""


class Unfoldable(Exception):
    pass


class Module:
    def __init__(self, name, path, relpath, src, is_pkg):
        self.name = name
        self.path = path
        self.relpath = relpath
        self.src = src
        self.is_pkg = is_pkg
        self.tree = ast.parse(src, filename=path)
        self.names = {}      # local name -> binding tuple
        self.classes = {}    # name -> ClassInfo (module level)
        self.functions = {}  # name -> FuncInfo (module level)
        self.assigns = {}    # name -> [value expr, ...] (module level, in order)
        for n in ast.walk(self.tree):
            for ch in ast.iter_child_nodes(n):
                ch._parent = n
        self.tree._parent = None

    def __repr__(self):
        return "<Module %s>" % self.name


class FuncInfo:
    def __init__(self, module, node, cls=None, parent=None, name=None):
        self.module = module
        self.node = node
        self.cls = cls
        self.parent = parent
        self.name = name or node.name
        if parent is not None:
            self.qualname = parent.qualname + ".<locals>." + self.name
        elif cls is not None:
            self.qualname = cls.name + "." + self.name
        else:
            self.qualname = self.name
        self.nested = {}
        if not isinstance(node, ast.Lambda):
            for st in _own_statements(node):
                if isinstance(st, (ast.FunctionDef, ast.AsyncFunctionDef)):
                    self.nested[st.name] = FuncInfo(module, st, cls=None, parent=self)

    @property
    def key(self):
        return "%s:%s" % (self.module.name, self.qualname)

    @property
    def params(self):
        a = self.node.args
        return [x.arg for x in a.posonlyargs + a.args]

    @property
    def all_params(self):
        a = self.node.args
        out = [x.arg for x in a.posonlyargs + a.args]
        if a.vararg:
            out.append(a.vararg.arg)
        out += [x.arg for x in a.kwonlyargs]
        if a.kwarg:
            out.append(a.kwarg.arg)
        return out

    def where(self, node=None):
        n = node if node is not None else self.node
        return "%s:%d" % (self.module.relpath, getattr(n, "lineno", 0))

    def __repr__(self):
        return "<Func %s>" % self.key


def _own_statements(fn):
    """All statements lexically inside ``fn`` but not inside nested defs/classes."""
    stack = list(fn.body) if not isinstance(fn, ast.Lambda) else []
    while stack:
        st = stack.pop(0)
        yield st
        if isinstance(st, (ast.FunctionDef, ast.AsyncFunctionDef, ast.ClassDef)):
            continue
        for field in ("body", "orelse", "finalbody"):
            stack[0:0] = [x for x in getattr(st, field, []) if isinstance(x, ast.stmt)]
        for h in getattr(st, "handlers", []):
            stack[0:0] = h.body
        for c in getattr(st, "cases", []):
            stack[0:0] = c.body


def own_nodes(fn):
    """All AST nodes inside ``fn`` (FunctionDef/Lambda) excluding nested function
    and class bodies (the nested def node itself is yielded)."""
    if isinstance(fn, ast.Lambda):
        roots = [fn.body]
    else:
        roots = list(fn.body)
    stack = roots[::-1]
    while stack:
        n = stack.pop()
        yield n
        if isinstance(n, (ast.FunctionDef, ast.AsyncFunctionDef, ast.ClassDef, ast.Lambda)):
            continue
        stack.extend(list(ast.iter_child_nodes(n))[::-1])


class ClassInfo:
    def __init__(self, module, node):
        self.module = module
        self.node = node
        self.name = node.name
        self.base_exprs = node.bases
        self.bases = []       # resolved ClassInfo or ('ext', text)
        self.methods = {}     # name -> FuncInfo defined here (incl. aliases)
        self.attrs = {}       # class-level name -> value expr
        self.aliases = {}     # alias name -> original method name
        for st in node.body:
            if isinstance(st, (ast.FunctionDef, ast.AsyncFunctionDef)):
                self.methods[st.name] = FuncInfo(module, st, cls=self)
            elif isinstance(st, ast.Assign):
                for t in st.targets:
                    if isinstance(t, ast.Name):
                        self.attrs[t.id] = st.value
                        if isinstance(st.value, ast.Name) and st.value.id in self.methods:
                            self.aliases[t.id] = st.value.id
                            self.methods[t.id] = self.methods[st.value.id]
            elif isinstance(st, ast.AnnAssign) and isinstance(st.target, ast.Name) and st.value is not None:
                self.attrs[st.target.id] = st.value

    @property
    def key(self):
        return "%s:%s" % (self.module.name, self.name)

    def mro(self):
        # C3 is overkill for this code base (single inheritance + mixins); DFS
        # left-to-right with de-duplication keeping the last occurrence.
        out = []

        def go(c):
            out.append(c)
            for b in c.bases:
                if isinstance(b, ClassInfo):
                    go(b)

        go(self)
        seen, res = set(), []
        for c in reversed(out):
            if id(c) not in seen:
                seen.add(id(c))
                res.append(c)
        res.reverse()
        # make sure self is first
        res.remove(self)
        return [self] + res

    def find_method(self, name, skip_self=False):
        for c in self.mro()[1 if skip_self else 0:]:
            if name in c.methods:
                return c.methods[name]
        return None

    def find_attr(self, name):
        for c in self.mro():
            if name in c.attrs:
                return c, c.attrs[name]
        return None

    def is_subclass_of(self, other):
        return any(c is other for c in self.mro())

    def ext_bases(self):
        out = []
        for c in self.mro():
            for b in c.bases:
                if not isinstance(b, ClassInfo):
                    out.append(b[1])
        return out

    def slots(self):
        """Union of ``__slots__`` over the MRO (None when some class has no slots)."""
        out = []
        for c in reversed(self.mro()):
            v = c.attrs.get("__slots__")
            if v is None:
                continue
            try:
                vals = fold_literal(v)
            except Unfoldable:
                return None
            if isinstance(vals, str):
                vals = (vals,)
            out.extend(vals)
        return out

    def __repr__(self):
        return "<Class %s>" % self.key


def fold_literal(node):
    if isinstance(node, ast.Constant):
        return node.value
    if isinstance(node, (ast.Tuple, ast.List)):
        return tuple(fold_literal(e) for e in node.elts)
    if isinstance(node, ast.Set):
        return frozenset(fold_literal(e) for e in node.elts)
    if isinstance(node, ast.Dict):
        return {fold_literal(k): fold_literal(v) for k, v in zip(node.keys, node.values)}
    if isinstance(node, ast.UnaryOp) and isinstance(node.op, ast.USub):
        return -fold_literal(node.operand)
    raise Unfoldable(ast.dump(node)[:80])


class Program:
    PKG = "py_gql"

    def __init__(self, root):
        self.root = os.path.abspath(root)
        self.src_root = os.path.join(self.root, "src")
        pkg_dir = os.path.join(self.src_root, self.PKG)
        if not os.path.isdir(pkg_dir):
            raise AnalysisError("no package at %s" % pkg_dir)
        self.modules = {}
        for dirpath, dirnames, filenames in os.walk(pkg_dir):
            dirnames[:] = sorted(d for d in dirnames if d != "__pycache__")
            for fn in sorted(filenames):
                if not fn.endswith(".py"):
                    continue
                path = os.path.join(dirpath, fn)
                rel = os.path.relpath(path, self.root)
                parts = os.path.relpath(path, self.src_root)[:-3].split(os.sep)
                is_pkg = parts[-1] == "__init__"
                if is_pkg:
                    parts = parts[:-1]
                name = ".".join(parts)
                with open(path, encoding="utf-8") as f:
                    src = f.read()
                try:
                    self.modules[name] = Module(name, path, rel, src, is_pkg)
                except SyntaxError as e:
                    raise AnalysisError("cannot parse %s: %s" % (rel, e))
        for m in self.modules.values():
            self._index(m)
        for m in self.modules.values():
            for c in m.classes.values():
                self._resolve_bases(c)
        self._subclasses = None
        self._all_funcs = None
        # analysis-time view: small private helpers unknown to the rules are inlined into their callers (vf/inline.py)
        self.inlined = {}
        self.guards_normalized = 0
        if not os.environ.get("VF_NO_NORMALIZE"):
            from . import inline
            self.guards_normalized = inline.normalize_guards(self)
        if not os.environ.get("VF_NO_INLINE"):
            from . import inline
            self.inlined = inline.apply(self)

    # ------------------------------------------------------------------ index
    def _index(self, m):
        def visit_body(body):
            for st in body:
                if isinstance(st, (ast.FunctionDef, ast.AsyncFunctionDef)):
                    fi = FuncInfo(m, st)
                    m.functions[st.name] = fi
                    m.names[st.name] = ("func", fi)
                elif isinstance(st, ast.ClassDef):
                    ci = ClassInfo(m, st)
                    m.classes[st.name] = ci
                    m.names[st.name] = ("class", ci)
                elif isinstance(st, ast.Import):
                    for a in st.names:
                        local = a.asname or a.name.split(".")[0]
                        m.names[local] = ("import", a.name if a.asname else a.name.split(".")[0], None)
                elif isinstance(st, ast.ImportFrom):
                    base = self._abs_module(m, st.module, st.level)
                    for a in st.names:
                        m.names[a.asname or a.name] = ("import", base, a.name)
                elif isinstance(st, ast.Assign):
                    for t in st.targets:
                        if isinstance(t, ast.Name):
                            m.assigns.setdefault(t.id, []).append(st.value)
                            m.names[t.id] = ("assign", st.value)
                        elif isinstance(t, ast.Tuple) and isinstance(st.value, ast.Tuple) and len(t.elts) == len(st.value.elts):
                            for tt, vv in zip(t.elts, st.value.elts):
                                if isinstance(tt, ast.Name):
                                    m.assigns.setdefault(tt.id, []).append(vv)
                                    m.names[tt.id] = ("assign", vv)
                elif isinstance(st, ast.AnnAssign) and isinstance(st.target, ast.Name) and st.value is not None:
                    m.assigns.setdefault(st.target.id, []).append(st.value)
                    m.names[st.target.id] = ("assign", st.value)
                elif isinstance(st, (ast.If, ast.Try)):
                    # TYPE_CHECKING blocks, try/except import fallbacks
                    visit_body(st.body)
                    visit_body(getattr(st, "orelse", []))
                    for h in getattr(st, "handlers", []):
                        visit_body(h.body)

        visit_body(m.tree.body)

    def _abs_module(self, m, module, level):
        if level == 0:
            return module
        parts = m.name.split(".")
        if not m.is_pkg:
            parts = parts[:-1]
        if level > 1:
            parts = parts[: len(parts) - (level - 1)]
        if module:
            parts = parts + module.split(".")
        return ".".join(parts)

    def _resolve_bases(self, c):
        for b in c.base_exprs:
            r = self.resolve_expr(c.module, b)
            if r and r[0] == "class":
                c.bases.append(r[1])
            else:
                c.bases.append(("ext", ast.unparse(b)))

    # ------------------------------------------------------------- resolution
    def module(self, name):
        if name not in self.modules:
            raise AnalysisError("module %s not found" % name)
        return self.modules[name]

    def resolve_name(self, m, name, _depth=0):
        """Resolve a module-level name to ('class',ci)|('func',fi)|('module',m)|
        ('assign',expr,module)|('ext',text)|None."""
        if _depth > 12:
            return None
        b = m.names.get(name)
        if b is None:
            return None
        if b[0] in ("class", "func"):
            return b
        if b[0] == "assign":
            return ("assign", b[1], m)
        if b[0] == "import":
            modname, attr = b[1], b[2]
            if attr is None:
                if modname in self.modules:
                    return ("module", self.modules[modname])
                return ("ext", modname)
            sub = "%s.%s" % (modname, attr)
            # `from pkg import name`: an attribute bound in pkg/__init__ wins over a submodule of the same name
            if modname in self.modules and attr in self.modules[modname].names:
                b2 = self.modules[modname].names[attr]
                if not (b2[0] == "import" and b2[2] is None and b2[1] == sub):
                    r = self.resolve_name(self.modules[modname], attr, _depth + 1)
                    if r is not None:
                        return r
            if sub in self.modules:
                return ("module", self.modules[sub])
            if modname in self.modules:
                r = self.resolve_name(self.modules[modname], attr, _depth + 1)
                return r
            return ("ext", "%s.%s" % (modname, attr))
        return None

    def resolve_expr(self, m, e):
        """Resolve Name / dotted Attribute at module scope."""
        if isinstance(e, ast.Name):
            return self.resolve_name(m, e.id)
        if isinstance(e, ast.Attribute):
            base = self.resolve_expr(m, e.value)
            if base is None:
                return None
            if base[0] == "module":
                return self.resolve_name(base[1], e.attr)
            if base[0] == "class":
                fi = base[1].find_method(e.attr)
                if fi:
                    return ("func", fi)
                at = base[1].find_attr(e.attr)
                if at:
                    return ("assign", at[1], at[0].module)
            if base[0] == "ext":
                return ("ext", base[1] + "." + e.attr)
        if isinstance(e, ast.Subscript):
            # Generic[T] style bases
            return self.resolve_expr(m, e.value)
        return None

    def get_class(self, modname, clsname):
        m = self.module(modname)
        r = self.resolve_name(m, clsname)
        if not r or r[0] != "class":
            raise AnalysisError("class %s.%s not found" % (modname, clsname))
        return r[1]

    def get_func(self, modname, qual):
        m = self.module(modname)
        parts = qual.split(".")
        if len(parts) == 1:
            r = self.resolve_name(m, parts[0])
            if r and r[0] == "func":
                return r[1]
            raise AnalysisError("function %s.%s not found" % (modname, qual))
        r = self.resolve_name(m, parts[0])
        if r and r[0] == "class":
            fi = r[1].find_method(parts[1])
            cur = fi
            rest = parts[2:]
        elif r and r[0] == "func":
            cur = r[1]
            rest = parts[1:]
        else:
            cur = None
            rest = []
        for p in rest:
            if cur is None:
                break
            cur = cur.nested.get(p)
        if cur is None:
            raise AnalysisError("function %s.%s not found" % (modname, qual))
        return cur

    def all_classes(self):
        for m in self.modules.values():
            for c in m.classes.values():
                yield c

    def subclasses(self, ci, strict=True):
        out = []
        for c in self.all_classes():
            if c.is_subclass_of(ci) and not (strict and c is ci):
                out.append(c)
        return out

    def all_funcs(self):
        """Every function/method/nested function (not lambdas)."""
        if self._all_funcs is None:
            out = []

            def add(fi):
                out.append(fi)
                for n in fi.nested.values():
                    add(n)

            for m in self.modules.values():
                for fi in m.functions.values():
                    add(fi)
                for c in m.classes.values():
                    seen = set()
                    for fi in c.methods.values():
                        if id(fi) not in seen:
                            seen.add(id(fi))
                            add(fi)
            self._all_funcs = out
        return self._all_funcs

    # -------------------------------------------------------------- constants
    def fold(self, m, e, _depth=0):
        """Fold a module-level constant expression to a Python value."""
        if _depth > 20:
            raise Unfoldable("depth")
        if isinstance(e, ast.Constant):
            return e.value
        if isinstance(e, (ast.Tuple, ast.List)):
            out = []
            for x in e.elts:
                if isinstance(x, ast.Starred):
                    out.extend(self.fold(m, x.value, _depth + 1))
                else:
                    out.append(self.fold(m, x, _depth + 1))
            return tuple(out)
        if isinstance(e, ast.Set):
            return frozenset(self.fold(m, x, _depth + 1) for x in e.elts)
        if isinstance(e, ast.Dict):
            return {self.fold(m, k, _depth + 1): self.fold(m, v, _depth + 1) for k, v in zip(e.keys, e.values)}
        if isinstance(e, ast.UnaryOp) and isinstance(e.op, ast.USub):
            return -self.fold(m, e.operand, _depth + 1)
        if isinstance(e, ast.BinOp):
            l, r = self.fold(m, e.left, _depth + 1), self.fold(m, e.right, _depth + 1)
            if isinstance(e.op, ast.Add):
                return l + r
            if isinstance(e.op, ast.Sub):
                return l - r
            if isinstance(e.op, ast.Mult):
                return l * r
            if isinstance(e.op, ast.Pow):
                return l ** r
            if isinstance(e.op, ast.LShift):
                return l << r
            if isinstance(e.op, ast.BitOr):
                return l | r
            raise Unfoldable("binop")
        if isinstance(e, ast.Name):
            r = self.resolve_name(m, e.id)
            if r and r[0] == "assign":
                return self.fold(r[2], r[1], _depth + 1)
            if r and r[0] == "class":
                return ("class", r[1].name)
            raise Unfoldable("name %s" % e.id)
        if isinstance(e, ast.Attribute):
            r = self.resolve_expr(m, e)
            if r and r[0] == "assign":
                return self.fold(r[2], r[1], _depth + 1)
            if r and r[0] == "class":
                return ("class", r[1].name)
            raise Unfoldable("attr %s" % ast.unparse(e))
        if isinstance(e, ast.Call) and isinstance(e.func, ast.Name) and e.func.id in (
            "frozenset", "set", "tuple", "list", "sorted") and len(e.args) <= 1 and not e.keywords:
            v = self.fold(m, e.args[0], _depth + 1) if e.args else ()
            return {"frozenset": frozenset, "set": frozenset, "tuple": tuple, "list": tuple,
                    "sorted": lambda x: tuple(sorted(x))}[e.func.id](v)
        if isinstance(e, ast.JoinedStr):
            raise Unfoldable("fstring")
        raise Unfoldable(type(e).__name__)

    def fold_name(self, modname, name):
        m = self.module(modname)
        r = self.resolve_name(m, name)
        if not r or r[0] != "assign":
            raise AnalysisError("constant %s.%s not found" % (modname, name))
        try:
            return self.fold(r[2], r[1])
        except Unfoldable as e:
            raise AnalysisError("constant %s.%s cannot be folded: %s" % (modname, name, e))

    # ---------------------------------------------------------- call resolution
    def local_binding(self, fi, name):
        """Look a bare name up through enclosing function scopes then module."""
        cur = fi
        while cur is not None:
            if name in cur.nested:
                return ("func", cur.nested[name])
            if name in cur.all_params:
                return ("param", cur, name)
            for n in own_nodes(cur.node):
                if isinstance(n, ast.Name) and n.id == name and isinstance(n.ctx, ast.Store):
                    return ("local", cur, name)
            cur = cur.parent
        return self.resolve_name(fi.module, name)

    def enclosing_class(self, fi):
        cur = fi
        while cur is not None:
            if cur.cls is not None:
                return cur.cls
            cur = cur.parent
        return None

    def self_name(self, fi):
        cur = fi
        while cur is not None:
            if cur.cls is not None:
                dec = [ast.unparse(d) for d in cur.node.decorator_list]
                if "staticmethod" in dec:
                    return None
                return cur.params[0] if cur.params else None
            cur = cur.parent
        return None

    def resolve_call(self, fi, call, dynamic=False):
        """Return list of FuncInfo a call may invoke (constructors → __init__).
        ``dynamic``: for ``self.m()`` also include overrides in subclasses."""
        return self.resolve_callable(fi, call.func, dynamic=dynamic)

    def resolve_callable(self, fi, f, dynamic=False):
        out = []
        if isinstance(f, ast.Name):
            b = self.local_binding(fi, f.id)
            if b is None:
                return out
            if b[0] == "func":
                out.append(b[1])
            elif b[0] == "class":
                init = b[1].find_method("__init__")
                if init:
                    out.append(init)
            elif b[0] == "assign":
                # module-level alias: X = f / X = functools.partial(f, ...)
                v = b[1]
                if isinstance(v, (ast.Name, ast.Attribute)):
                    r = self.resolve_expr(b[2], v)
                    if r and r[0] == "func":
                        out.append(r[1])
            return out
        if isinstance(f, ast.Attribute):
            v = f.value
            selfname = self.self_name(fi)
            cls = self.enclosing_class(fi)
            if isinstance(v, ast.Name) and selfname and v.id == selfname and cls is not None:
                if self.local_binding(fi, v.id)[0] == "param":
                    m = cls.find_method(f.attr)
                    if m:
                        out.append(m)
                    if dynamic:
                        for sc in self.subclasses(cls):
                            if f.attr in sc.methods and sc.methods[f.attr] not in out:
                                out.append(sc.methods[f.attr])
                    return out
            if isinstance(v, ast.Call) and isinstance(v.func, ast.Name) and v.func.id == "super" and cls is not None:
                m = cls.find_method(f.attr, skip_self=True)
                if m:
                    out.append(m)
                return out
            r = None
            if isinstance(v, (ast.Name, ast.Attribute)):
                if isinstance(v, ast.Name):
                    b = self.local_binding(fi, v.id)
                    if b and b[0] in ("module", "class"):
                        r = b
                else:
                    r = self.resolve_expr(fi.module, v)
            if r and r[0] == "module":
                rr = self.resolve_name(r[1], f.attr)
                if rr and rr[0] == "func":
                    out.append(rr[1])
                elif rr and rr[0] == "class":
                    init = rr[1].find_method("__init__")
                    if init:
                        out.append(init)
                return out
            if r and r[0] == "class":
                m = r[1].find_method(f.attr)
                if m:
                    out.append(m)
                return out
        return out

    def methods_named(self, name):
        out = []
        for c in self.all_classes():
            if name in c.methods and c.methods[name] not in out:
                out.append(c.methods[name])
        return out


def unparse(n):
    return ast.unparse(n)


def stmt_of(node):
    """Smallest enclosing statement of ``node``."""
    cur = node
    while cur is not None and not isinstance(cur, ast.stmt):
        cur = getattr(cur, "_parent", None)
    return cur


def norm_stmt(node, limit=160):
    st = stmt_of(node) or node
    if isinstance(st, (ast.If, ast.While)):
        txt = "%s %s" % (type(st).__name__.lower(), ast.unparse(st.test))
    elif isinstance(st, ast.For):
        txt = "for %s in %s" % (ast.unparse(st.target), ast.unparse(st.iter))
    elif isinstance(st, (ast.FunctionDef, ast.AsyncFunctionDef, ast.ClassDef)):
        txt = "def %s" % st.name
    elif isinstance(st, (ast.Try, ast.With)):
        txt = type(st).__name__.lower()
    else:
        txt = ast.unparse(st)
    txt = " ".join(txt.split())
    return txt[:limit]


def enclosing_func_node(node):
    cur = getattr(node, "_parent", None)
    while cur is not None and not isinstance(cur, (ast.FunctionDef, ast.AsyncFunctionDef, ast.Lambda)):
        cur = getattr(cur, "_parent", None)
    return cur
