"""E4 — node-shape facts: AST node classes (slots, constructor parameters), the
constructions performed by the parser (which slots it fills, from which
sub-parse, in which source order, which of them hold child nodes), and the
class-dispatch registries (``classdispatch(node, {...})``) of visitors/printers.
"""
import ast
import re

from .model import AnalysisError, own_nodes

AST_MOD = "py_gql.lang.ast"
PARSER_MOD = "py_gql.lang.parser"


class NodeClass:
    def __init__(self, ci):
        self.ci = ci
        self.name = ci.name
        init = ci.find_method("__init__")
        self.init = init
        a = init.node.args
        self.params = [x.arg for x in a.args[1:]] + [x.arg for x in a.kwonlyargs]
        nd = len(a.defaults)
        pos = [x.arg for x in a.args[1:]]
        self.required = pos[: len(pos) - nd] + [x.arg for x, d in zip(a.kwonlyargs, a.kw_defaults) if d is None]
        self.slots = ci.slots()
        self.own_slots = None
        at = ci.find_attr("__slots__")
        v = at[1] if at else None
        if v is not None:
            try:
                from .model import fold_literal
                self.own_slots = list(fold_literal(v))
            except Exception:
                self.own_slots = None
        # attributes assigned in __init__
        self.assigned = set()
        for n in ast.walk(init.node):
            if isinstance(n, ast.Attribute) and isinstance(n.ctx, ast.Store) and isinstance(n.value, ast.Name) and n.value.id == "self":
                self.assigned.add(n.attr)

    @property
    def content_slots(self):
        return [s for s in (self.own_slots or []) if s not in ("loc", "source")]


def node_classes(prog):
    m = prog.module(AST_MOD)
    base = m.classes.get("Node")
    if base is None:
        raise AnalysisError("lang.ast.Node not found")
    out = {}
    for c in m.classes.values():
        if c.is_subclass_of(base) and c.find_method("__init__") is not None and not c.name.startswith("_"):
            out[c.name] = NodeClass(c)
    return out


def abstract_classes(prog):
    """Node subclasses without their own __init__ (Definition, Value, Selection...)."""
    m = prog.module(AST_MOD)
    base = m.classes["Node"]
    return {c.name: c for c in m.classes.values() if c.is_subclass_of(base) and c.find_method("__init__") is None}


def concrete_subclasses(prog, abstract_name):
    m = prog.module(AST_MOD)
    a = m.classes[abstract_name]
    return sorted(n for n, nc in node_classes(prog).items() if nc.ci.is_subclass_of(a))


_ANN_AST = re.compile(r"_ast\.([A-Za-z_]+)")


def ann_classes(ann):
    if ann is None:
        return set()
    return set(_ANN_AST.findall(ast.unparse(ann)))


class Construction:
    def __init__(self, fi, call, clsname):
        self.fi = fi
        self.call = call
        self.cls = clsname
        self.keywords = {k.arg: k.value for k in call.keywords if k.arg}
        self.positional = list(call.args)
        self.child_kinds = {}   # slot -> set of ast class names it may hold
        self.fill_pos = {}      # slot -> (line, col) of the producing sub-parse
        self.loc_arg = None


def _local_defs(fi):
    """name -> list of value expressions assigned/appended in fi (own scope)."""
    defs = {}
    for n in own_nodes(fi.node):
        if isinstance(n, ast.Assign):
            for t in n.targets:
                if isinstance(t, ast.Name):
                    defs.setdefault(t.id, []).append(n.value)
                elif isinstance(t, ast.Tuple) and isinstance(n.value, ast.Tuple) and len(t.elts) == len(n.value.elts):
                    for tt, vv in zip(t.elts, n.value.elts):
                        if isinstance(tt, ast.Name):
                            defs.setdefault(tt.id, []).append(vv)
        elif isinstance(n, ast.AnnAssign) and isinstance(n.target, ast.Name) and n.value is not None:
            defs.setdefault(n.target.id, []).append(n.value)
        elif isinstance(n, ast.Call) and isinstance(n.func, ast.Attribute) and n.func.attr == "append" and isinstance(n.func.value, ast.Name) and n.args:
            defs.setdefault(n.func.value.id, []).append(n.args[0])
    return defs


def _producers(prog, fi, expr, defs, parser_cls, depth=0):
    """Yield (kinds:set, position) for sub-parse calls feeding ``expr``."""
    if depth > 4:
        return
    for n in ast.walk(expr):
        if isinstance(n, ast.Call):
            f = n.func
            if isinstance(f, ast.Attribute) and isinstance(f.value, ast.Name) and f.value.id == "self":
                if f.attr in ("many", "any_", "delimited_list"):
                    for a in n.args:
                        tgt = a
                        if isinstance(a, ast.Call) and ast.unparse(a.func) in ("ft.partial", "functools.partial") and a.args:
                            tgt = a.args[0]
                        if isinstance(tgt, ast.Attribute) and isinstance(tgt.value, ast.Name) and tgt.value.id == "self":
                            m = parser_cls.find_method(tgt.attr)
                            if m is not None and m.node.returns is not None:
                                yield ann_classes(m.node.returns), (n.lineno, n.col_offset)
                else:
                    m = parser_cls.find_method(f.attr)
                    if m is not None and m.node.returns is not None:
                        k = ann_classes(m.node.returns)
                        if k:
                            yield k, (n.lineno, n.col_offset)
            elif isinstance(f, ast.Attribute) and isinstance(f.value, ast.Name) and f.value.id == "_ast":
                yield {f.attr}, (n.lineno, n.col_offset)
        elif isinstance(n, ast.Name) and isinstance(n.ctx, ast.Load) and n.id in defs:
            for v in defs[n.id]:
                if v is expr:
                    continue
                for item in _producers(prog, fi, v, {k: w for k, w in defs.items() if k != n.id}, parser_cls, depth + 1):
                    yield item


def parser_constructions(prog):
    parser = prog.get_class(PARSER_MOD, "Parser")
    out = []
    seen = set()
    for name, fi in parser.methods.items():
        if id(fi) in seen:
            continue
        seen.add(id(fi))
        defs = _local_defs(fi)
        for n in own_nodes(fi.node):
            if isinstance(n, ast.Call) and isinstance(n.func, ast.Attribute) and isinstance(n.func.value, ast.Name) \
                    and n.func.value.id == "_ast":
                c = Construction(fi, n, n.func.attr)
                for slot, v in c.keywords.items():
                    if slot in ("loc", "source"):
                        continue
                    kinds, pos = set(), None
                    for k, p in _producers(prog, fi, v, defs, parser):
                        kinds |= k
                        pos = p if pos is None or p < pos else pos
                    if kinds:
                        c.child_kinds[slot] = kinds
                    c.fill_pos[slot] = pos
                out.append(c)
    return out


def child_slots(prog, exclude_name=True):
    """class name -> ordered list of child-bearing slots (parser fill order),
    derived from the parser's constructions and the return annotations of the
    sub-parsers feeding each keyword."""
    out = {}
    for c in parser_constructions(prog):
        slots = []
        for slot, kinds in c.child_kinds.items():
            if exclude_name and kinds <= {"Name"}:
                continue
            slots.append((c.fill_pos.get(slot) or (0, 0), slot))
        slots.sort()
        prev = out.get(c.cls)
        cur = [s for _, s in slots]
        if prev is None or len(cur) > len(prev):
            out[c.cls] = cur
    return out


# ----------------------------------------------------------------- registries
class Registry:
    def __init__(self, fi, call, param, entries):
        self.fi = fi
        self.call = call
        self.param = param
        self.entries = entries  # list of (class name, handler attr name or None, value expr)


def dispatch_registries(fi):
    """``classdispatch(x, {_ast.K: self.h, ...})`` calls inside ``fi``."""
    out = []
    for n in own_nodes(fi.node):
        if isinstance(n, ast.Call) and isinstance(n.func, ast.Name) and n.func.id == "classdispatch" and len(n.args) >= 2 \
                and isinstance(n.args[1], ast.Dict):
            entries = []
            for k, v in zip(n.args[1].keys, n.args[1].values):
                cname = k.attr if isinstance(k, ast.Attribute) else (k.id if isinstance(k, ast.Name) else ast.unparse(k))
                h = v.attr if isinstance(v, ast.Attribute) and isinstance(v.value, ast.Name) and v.value.id == "self" else None
                entries.append((cname, h, v))
            out.append(Registry(fi, n, ast.unparse(n.args[0]), entries))
    return out
