"""No memoisation across calls in a call closure.

Documents, schemas and (custom) scalar values are mutable or compare equal
across types (True == 1 == 1.0): a function reachable from the entry points
that carries a caching decorator (functools.lru_cache / cache / cached_property
or anything named *cache*/*memo*) answers from an earlier call, so the result
depends on the history of the process and on objects changed in place since.
"""
import ast

from .model import own_nodes


def closure(prog, starts, prefixes=("py_gql",), limit=400):
    seen, stack = {}, list(starts)
    while stack and len(seen) < limit:
        f = stack.pop()
        if id(f.node) in seen:
            continue
        seen[id(f.node)] = f
        for n in own_nodes(f.node):
            if isinstance(n, ast.Call):
                for c in prog.resolve_call(f, n, dynamic=True):
                    if id(c.node) not in seen:
                        stack.append(c)
            elif isinstance(n, ast.Attribute) and isinstance(n.ctx, ast.Load):
                # properties of repo classes reached through an attribute read (doc.fragments, type.fields ...)
                for m in prog.methods_named(n.attr):
                    if any(ast.unparse(d).split("(")[0].split(".")[-1] in ("property", "cached_property", "lazy") for d in m.node.decorator_list):
                        if id(m.node) not in seen:
                            stack.append(m)
        for nf in f.nested.values():
            if id(nf.node) not in seen:
                stack.append(nf)
    return list(seen.values())


def check(prog, run, rule_id, starts, what, consequence, floor):
    r = run.rule(rule_id, "no function reachable from %s (resolved calls, nested functions, properties of repository classes read "
                          "on the way) carries a caching decorator (lru_cache / cache / cached_property / *memo*): %s" % (what, consequence), floor)
    fns = closure(prog, starts)
    for f in fns:
        r.instance(f.qualname, nontrivial=False)
        for d in getattr(f.node, "decorator_list", []):
            txt = ast.unparse(d)
            head = txt.split("(")[0].split(".")[-1].lower()
            if "cache" in head or "memo" in head:
                a = f.node.args
                ps = [x for x in a.posonlyargs + a.args + a.kwonlyargs if x.arg not in ("self", "cls")]
                unsafe = [x.arg for x in ps if x.annotation is None or ast.unparse(x.annotation) not in ("str", "bytes", "Optional[str]", "Optional[bytes]")]
                if f.cls is not None and not ps:
                    unsafe = ["self"]
                if not unsafe or "typed=True" in txt.replace(" ", ""):
                    continue    # a pure function of immutable, type-stable text: remembering its answers is not observable
                run.report(r, "%s:%s:memoised(%s)" % (f.module.name, f.qualname, txt.split("(")[0]), f.where(),
                           "%s is decorated with @%s and is reachable from %s: %s" % (f.qualname, txt, what, consequence))
    return fns
