"""Pairwise wrapper comparison rule.

A function that decides something about TWO (possibly wrapped) GraphQL types by
looking at their wrapper kinds (isinstance tests against WrappingType / ListType /
NonNullType on its type parameters, or `type(a) != type(b)`) must descend one
wrapper level at a time (`a.type`, `b.type`).  Calling ``unwrap_type`` on a
compared parameter jumps to the named type and leaves every inner wrapper
uncompared: `[[Int]]` vs `[Int]`, `[T!]` vs `[T]` are then judged alike.
"""
import ast

from .model import own_nodes

WRAPPERS = ("WrappingType", "ListType", "NonNullType")


def sites(prog, prefixes):
    out = []
    for f in prog.all_funcs():
        if not any(f.module.name == p or f.module.name.startswith(p + ".") for p in prefixes):
            continue
        a = f.node.args
        params = [x.arg for x in a.posonlyargs + a.args if x.arg not in ("self", "cls")]
        tested = set()
        for n in ast.walk(f.node):
            if isinstance(n, ast.Call) and isinstance(n.func, ast.Name) and n.func.id == "isinstance" and len(n.args) == 2 \
                    and isinstance(n.args[0], ast.Name) and n.args[0].id in params and any(w in ast.unparse(n.args[1]) for w in WRAPPERS):
                tested.add(n.args[0].id)
            if isinstance(n, ast.Compare) and len(n.ops) == 1 and all(
                    isinstance(x, ast.Call) and isinstance(x.func, ast.Name) and x.func.id == "type" and x.args and isinstance(x.args[0], ast.Name)
                    and x.args[0].id in params for x in (n.left, n.comparators[0])):
                tested.update({n.left.args[0].id, n.comparators[0].args[0].id})
        if len(tested) >= 2:
            out.append((f, sorted(tested)))
    return out


def check(prog, run, rule_id, prefixes, floor):
    r = run.rule(rule_id, "functions that compare the wrapper kinds (List / NonNull) of two type parameters descend one wrapper level at "
                          "a time: none of them calls unwrap_type on a compared parameter (that would leave inner wrappers "
                          "uncompared: `[[Int]]` vs `[Int]`, `[T!]` vs `[T]`), and each recursive call passes `.type` of the "
                          "parameters or the parameters themselves", floor)
    for f, params in sites(prog, prefixes):
        run.looked_at(f)
        r.instance("%s compares wrappers of %s" % (f.qualname, params))
        for n in own_nodes(f.node):
            if isinstance(n, ast.Call) and isinstance(n.func, ast.Name) and n.func.id == "unwrap_type" and n.args \
                    and isinstance(n.args[0], ast.Name) and n.args[0].id in params:
                run.report(r, "%s:%s:unwraps-compared-type(%s)" % (f.module.name, f.qualname, n.args[0].id), f.where(n),
                           "`%s` strips every wrapper of `%s` at once after only its outermost wrapper kind was compared: types "
                           "that differ in an inner wrapper are treated as the same shape" % (ast.unparse(n), n.args[0].id))
