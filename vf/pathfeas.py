"""Second opinion on a flow-insensitive report: is the construct evaluated at all when the variable holds that class?

The typed engines (kindflow, slottypes) narrow a variable's classes through the tests that *dominate* a read.  A read
can also be protected by a correlation the code carries in a local:

    wrapper = ListType if isinstance(n, ast.ListType) else NonNullType if isinstance(n, ast.NonNullType) else None
    if wrapper is not None:
        inner = n.type            # only List / NonNull nodes get here

Before such a read is reported for class K, the executions of the function consistent with "the variable is exactly a K"
are enumerated (class tests decided from the hierarchy, tests on a local decided from what *this execution* assigned to
it when that is a constant or a class); if no execution evaluates the read, it is not reported.  Anything the walk cannot
handle leaves the report standing."""
import ast

from . import boolx, dispatch


def _is_none_atom(t):
    try:
        e = ast.parse(t, mode="eval").body
    except SyntaxError:
        return None
    if isinstance(e, ast.Compare) and len(e.ops) == 1 and isinstance(e.left, ast.Name) and isinstance(e.comparators[0], ast.Constant) \
            and e.comparators[0].value is None and isinstance(e.ops[0], (ast.Is, ast.IsNot, ast.Eq, ast.NotEq)):
        return e.left.id, isinstance(e.ops[0], (ast.Is, ast.Eq))
    if isinstance(e, ast.Name):
        return e.id, False        # truthiness: a class / non-empty constant is truthy, None is falsy
    return None


def decide_with_locals(hier, var, cls, prog=None):
    class_names = set(hier.anc)

    def inner(t):
        return None
    base = dispatch.decide_for(hier, var, cls, inner)

    def decide(t, env, e):
        d = base(t)
        if d is not None:
            return d
        m = _is_none_atom(t)
        if m is None:
            return None
        name, asks_none = m
        penv = boolx.path_env(env.get(boolx.STMTS, ()))
        if name not in penv:
            return None
        v = penv[name]
        for _ in range(4):
            if isinstance(v, ast.Call) and isinstance(v.func, ast.Name) and v.func.id == "cast" and len(v.args) == 2:
                v = v.args[1]
            elif isinstance(v, ast.IfExp):
                # `x = A if <class test> else B`: the class test is decided like any other
                tt = boolx.path_subst(v.test, penv)
                neg = False
                while isinstance(tt, ast.UnaryOp) and isinstance(tt.op, ast.Not):
                    tt, neg = tt.operand, not neg
                d = base(" ".join(ast.unparse(tt).split()))
                if d is None:
                    break
                v = v.body if (d != neg) else v.orelse
            else:
                break
        if isinstance(v, ast.Constant):
            is_none = v.value is None
            if isinstance(ast.parse(t, mode="eval").body, ast.Name):
                return bool(v.value)
            return is_none == asks_none
        ref = v.attr if isinstance(v, ast.Attribute) else v.id if isinstance(v, ast.Name) else None
        if ref in class_names:
            if isinstance(ast.parse(t, mode="eval").body, ast.Name):
                return True
            return not asks_none
        return None
    decide.wants_env = True
    return decide


def evaluated_for(prog, fi, node, var, cls, hier=None):
    """True / False: some / no execution of ``fi`` with ``var`` exactly a ``cls`` evaluates ``node``; None: undecided."""
    hier = hier or dispatch.Hierarchy(prog)
    if cls not in hier.anc or isinstance(fi.node, ast.Lambda):
        return None
    try:
        ev, _exits = boolx.walk_under(fi.node, decide_with_locals(hier, var, cls))
    except (ValueError, Exception):
        return None
    return id(node) in ev
