"""Predicate helpers under a path assumption.

``decide_with_helpers(prog, owner, decide)`` extends a ``decide(atom_text)`` function
for boolx.walk_under: an atom that is a call to a function of the program (same
package) is decided by enumerating the executions of that function under the same
``decide`` (recursively, bounded) and taking the truth of what it returns — when
that is the same on all of them.  This is what lets a truth-table rule survive
"extract the condition into a small private helper".
"""
import ast

from . import boolx
from .model import AnalysisError


def decide_with_helpers(prog, owner, decide, looked_at=None, depth=0, same_module=True):
    calls = {}
    for n in ast.walk(owner.node):
        if isinstance(n, ast.Call):
            calls.setdefault(boolx.text(n), n)

    def inner(t):
        d = decide(t)
        if d is not None:
            return d
        n = calls.get(t)
        if n is None or depth >= 3:
            return None
        try:
            cal = prog.resolve_call(owner, n)
        except Exception:
            return None
        cal = [c for c in (cal or []) if hasattr(c, "node") and isinstance(c.node, ast.FunctionDef) and c.name != "__init__"
               and (not same_module or c.module is owner.module)]
        if len(cal) != 1:
            return None
        g = cal[0]
        if any(isinstance(x, (ast.Yield, ast.YieldFrom, ast.Await)) for x in ast.walk(g.node)):
            return None
        if looked_at is not None:
            looked_at(g)
        try:
            ts = boolx.returned_truths(g.node, decide_with_helpers(prog, g, decide, looked_at, depth + 1, same_module))
        except ValueError:
            return None
        if len(ts) == 1 and "raise" not in ts:
            return next(iter(ts))
        return None
    return inner
