"""E15 — the token language of the printer.

``ASTPrinter.print_X`` is interpreted abstractly for every node class X and every slot state a parsed tree can be in
(spec/treeshape.py: which lists may be empty, which optional parts exist together): strings are *regular languages*
over the parser's token atoms plus one whitespace atom, built from the literals, `%`-formats, concatenations, joins,
conditionals and helper functions (`_join`, `_wrap`, `_block`, ... are interpreted from their own bodies, not assumed).
Child nodes printed through the dispatcher become the recursion anchors of the reference grammar (SelectionSet, Value,
Type) or, when the slot holds one concrete kind, that kind's own language.

Two questions are then decided on automata:
* inclusion — every token string the printer can emit for a Type / Value / SelectionSet / Document is derivable from the
  reference grammar (spec/grammar.py, the same reference C01.G1 holds the parser to), witness = shortest printed string
  that is not;
* fusion — no two word-like tokens (names, numbers) are emitted next to each other without a separator.

Nothing of py_gql is executed; a construct the interpreter has no rule for aborts the analysis (Unsupported).
"""
import ast

from . import nodeshape, rx
from .model import AnalysisError, fold_literal
from .spec import grammar as ref
from .spec import treeshape

WS = "WS"
PRINTER = "py_gql.lang.printer"
TOKEN_MOD = "py_gql.lang.token"
OTHER = "*"


class Unsupported(AnalysisError):
    pass


# ------------------------------------------------------------------------------------------------ regex helpers
def nullable(r):
    k = r[0]
    if k == "eps":
        return True
    if k in ("empty", "sym"):
        return False
    if k == "cat":
        return all(nullable(x) for x in r[1])
    if k == "alt":
        return any(nullable(x) for x in r[1])
    if k == "star":
        return True
    raise ValueError(k)


def is_empty_lang(r):
    k = r[0]
    if k == "empty":
        return True
    if k in ("eps", "sym", "star"):
        return False
    if k == "cat":
        return any(is_empty_lang(x) for x in r[1])
    if k == "alt":
        return all(is_empty_lang(x) for x in r[1])
    raise ValueError(k)


def nonempty(r):
    """L(r) minus the empty string"""
    k = r[0]
    if k in ("eps", "empty"):
        return rx.EMPTY
    if k == "sym":
        return r
    if k == "alt":
        return rx.alt(*[nonempty(x) for x in r[1]])
    if k == "star":
        return rx.cat(nonempty(r[1]), r)
    if k == "cat":
        head, tail = r[1][0], rx.cat(*r[1][1:])
        out = [rx.cat(nonempty(head), tail)]
        if nullable(head):
            out.append(nonempty(tail))
        return rx.alt(*out)
    raise ValueError(k)


def only_eps(r):
    return nullable(r) and is_empty_lang(nonempty(r))


def map_syms(r, f):
    k = r[0]
    if k == "sym":
        return f(r)
    if k == "cat":
        return rx.cat(*[map_syms(x, f) for x in r[1]])
    if k == "alt":
        return rx.alt(*[map_syms(x, f) for x in r[1]])
    if k == "star":
        return rx.star(map_syms(r[1], f))
    return r


def strip_ws(r):
    def f(s):
        atoms = s[1] - {WS}
        if WS in s[1]:
            return rx.alt(rx.sym(atoms), rx.EPS) if atoms else rx.EPS
        return s
    return map_syms(r, f)


# ------------------------------------------------------------------------------------------------ values
class LangV:
    def __init__(self, r):
        self.r = r


class NoneV:
    pass


class BoolV:
    def __init__(self, b, key=None):
        self.b = b      # True / False / None (unknown)
        self.key = key


class PyConst:
    """a concrete python string"""
    def __init__(self, s):
        self.s = s


class PyText:
    """arbitrary text (the content of a string literal): never printed raw"""
    def __init__(self, origin=None):
        self.origin = origin


class NodeV:
    def __init__(self, classes, state=None, names=None, origin=None):
        self.classes = frozenset(classes)
        self.state = state
        self.names = names
        self.origin = origin        # slot of the node under analysis this value was read from (marker mode)


class ListV:
    def __init__(self, items=None, elem=None, nonempty=True):
        self.items = items          # fixed list of values, or None
        self.elem = elem            # symbolic element (for an unbounded homogeneous list)
        self.nonempty = nonempty


class TupleV:
    def __init__(self, items):
        self.items = items


class SelfV:
    pass


class FuncV:
    def __init__(self, fi, bound=None):
        self.fi, self.bound = fi, bound


class LambdaV:
    def __init__(self, node, env):
        self.node, self.env = node, env


class BuiltinV:
    def __init__(self, name, target=None):
        self.name, self.target = name, target


class _Return(Exception):
    def __init__(self, v):
        self.v = v


class Oracle:
    def __init__(self, prefix):
        self.prefix = list(prefix)
        self.trace = []
        self.keyed = {}

    def choose(self, key=None):
        if key is not None and key in self.keyed:
            return self.keyed[key]
        i = len(self.trace)
        v = self.prefix[i] if i < len(self.prefix) else True
        self.trace.append(v)
        if key is not None:
            self.keyed[key] = v
        return v


def run_all(fn, cap=256):
    """all outcomes of fn(oracle) over the binary choices it asks for"""
    out, stack, n = [], [[]], 0
    while stack:
        prefix = stack.pop()
        o = Oracle(prefix)
        res = fn(o)
        out.append(res)
        n += 1
        if n > cap:
            raise Unsupported("more than %d executions of one print method" % cap)
        for i in range(len(prefix), len(o.trace)):
            stack.append(o.trace[:i] + [False])
    return out


# ------------------------------------------------------------------------------------------------ node shapes
class Shapes:
    def __init__(self, prog):
        self.prog = prog
        self.ncs = nodeshape.node_classes(prog)
        self.abstract = nodeshape.abstract_classes(prog)
        self.kinds = {}
        for c in nodeshape.parser_constructions(prog):
            for slot, ks in c.child_kinds.items():
                self.kinds.setdefault((c.cls, slot), set()).update(self.expand(ks))
        for key, ks in treeshape.CHILD_KINDS.items():
            self.kinds[key] = set(ks)
        # parameter annotations of the node constructors, `# type:` comments included
        self.ann = {}
        m = prog.module(nodeshape.AST_MOD)
        try:
            tree = ast.parse(m.src, type_comments=True)
        except SyntaxError as e:
            raise Unsupported("lang/ast.py: %s" % e)
        for c in tree.body:
            if isinstance(c, ast.ClassDef):
                for f in c.body:
                    if isinstance(f, ast.FunctionDef) and f.name == "__init__":
                        for p in f.args.args + f.args.kwonlyargs:
                            txt = ast.unparse(p.annotation) if p.annotation is not None else (p.type_comment or "")
                            self.ann[(c.name, p.arg)] = txt.replace(" ", "")

    def expand(self, names):
        out = set()
        for n in names:
            if n in self.ncs:
                out.add(n)
            elif n in self.abstract:
                a = self.abstract[n]
                out |= {c for c, nc in self.ncs.items() if nc.ci.is_subclass_of(a)}
        return out

    def slot_kind(self, cls, slot):
        key = (cls, slot)
        if key in treeshape.ENUM_STR:
            return "enum"
        if key in treeshape.TOKEN_STR:
            return "token"
        if key in treeshape.TEXT_STR:
            return "text"
        nc = self.ncs[cls]
        assign = None
        for n in ast.walk(nc.init.node):
            if isinstance(n, (ast.Assign, ast.AnnAssign)):
                t = n.targets[0] if isinstance(n, ast.Assign) else n.target
                if isinstance(t, ast.Attribute) and isinstance(t.value, ast.Name) and t.value.id == "self" and t.attr == slot:
                    assign = n.value
        if assign is None:
            raise Unsupported("slot %s.%s is not assigned in __init__" % (cls, slot))
        if isinstance(assign, ast.BoolOp) and isinstance(assign.op, ast.Or) and isinstance(assign.values[-1], ast.List):
            return "list"
        if isinstance(assign, ast.Name) and self.ann.get((nc.init.cls.name if nc.init.cls is not None else cls, assign.id), "").startswith(("List[", "Sequence[")):
            return "list"
        if key in self.kinds and self.kinds[key]:
            a = nc.init.node.args
            ps = a.args[1:] + a.kwonlyargs
            defaults = dict(zip([p.arg for p in a.args[1:]][len(a.args[1:]) - len(a.defaults):], a.defaults))
            defaults.update({p.arg: d for p, d in zip(a.kwonlyargs, a.kw_defaults) if d is not None})
            if isinstance(assign, ast.Name) and assign.id in defaults and isinstance(defaults[assign.id], ast.Constant) and defaults[assign.id].value is None:
                return "opt"
            return "req"
        a = nc.init.node.args
        for p in a.args[1:] + a.kwonlyargs:
            if p.arg == slot and p.annotation is not None and ast.unparse(p.annotation) == "bool":
                return "bool"
        raise Unsupported("cannot classify slot %s.%s" % (cls, slot))

    def states(self, cls):
        nc = self.ncs[cls]
        slots = nc.content_slots
        out = [{}]
        for s in slots:
            k = self.slot_kind(cls, s)
            if k == "list":
                vals = ["some"] if (cls, s) in treeshape.NONEMPTY else ["some", "empty"]
            elif k == "opt":
                vals = ["some", None]
            elif k == "bool":
                vals = [True, False]
            elif k == "enum":
                vals = list(treeshape.ENUM_STR[(cls, s)])
            else:
                vals = ["some"]
            out = [dict(st, **{s: v}) for st in out for v in vals]
        need = treeshape.AT_LEAST_ONE.get(cls)
        if need:
            out = [st for st in out if any(st.get(s) == "some" for s in need)]
        return out


# ------------------------------------------------------------------------------------------------ the interpreter
class PrinterLang:
    def __init__(self, prog, g):
        self.prog = prog
        self.g = g
        self.shapes = Shapes(prog)
        self.mod = prog.module(PRINTER)
        self.cls = prog.get_class(PRINTER, "ASTPrinter")
        regs = nodeshape.dispatch_registries(self.cls.find_method("__call__"))
        if len(regs) != 1:
            raise Unsupported("ASTPrinter.__call__ does not hold exactly one classdispatch registry")
        self.registry = {c: h for c, h, _v in regs[0].entries if h}
        self.handler_class = {}
        for c, h in self.registry.items():
            self.handler_class.setdefault(h, set()).add(c)
        tm = prog.module(TOKEN_MOD)
        self.punct = {}
        for c in tm.classes.values():
            at = c.attrs.get("value")
            if at is not None and c.name in g.const_tokens:
                try:
                    v = fold_literal(at[-1] if isinstance(at, list) else at)
                except Exception:
                    continue
                if isinstance(v, str) and v and not v.startswith("<"):
                    self.punct[v] = c.name
        if "{" not in self.punct or "..." not in self.punct:
            raise Unsupported("punctuator table of lang/token.py not recognised (%s)" % sorted(self.punct))
        lm = prog.module("py_gql.lang.lexer")
        ign = lm.assigns.get("IGNORED_CHARS")
        self.ignored = fold_literal(ign[-1]) if ign else None
        if not isinstance(self.ignored, str):
            raise Unsupported("IGNORED_CHARS of lang/lexer.py not found")
        self.memo = {}
        self.depth = 0
        self.sym_iter = None
        self.oracle = None
        self.calls = 0

    # ---- atoms
    def name_atom(self, word):
        return ("Name", word) if ("Name", word) in self.g.atoms else ("Name", OTHER)

    def tokenise(self, text):
        out = []
        i = 0
        while i < len(text):
            ch = text[i]
            if ch in self.ignored:
                j = i
                while j < len(text) and text[j] in self.ignored:
                    j += 1
                out.append(rx.sym({WS}))
                i = j
                continue
            for p in sorted(self.punct, key=len, reverse=True):
                if text.startswith(p, i):
                    out.append(rx.sym(self.g.cls_atoms(self.punct[p])))
                    i += len(p)
                    break
            else:
                if ch == "_" or ch.isalpha() and ch.isascii():
                    j = i
                    while j < len(text) and (text[j] == "_" or (text[j].isalnum() and text[j].isascii())):
                        j += 1
                    out.append(rx.sym({self.name_atom(text[i:j])}))
                    i = j
                else:
                    raise Unsupported("the printer emits the literal text %r, which is not a sequence of tokens" % text)
        return rx.cat(*out) if out else rx.EPS

    # ---- conversions
    def to_lang(self, v):
        if isinstance(v, LangV):
            return v.r
        if isinstance(v, PyConst):
            return self.tokenise(v.s)
        if isinstance(v, NoneV):
            return self.tokenise("None")
        if isinstance(v, BoolV) and v.b is not None:
            return self.tokenise(str(v.b))
        raise Unsupported("a %s is used as text" % type(v).__name__)

    def truth(self, v, env=None, name=None, key=None):
        if isinstance(v, BoolV):
            if v.b is None:
                return self.oracle.choose(key)
            return v.b
        if isinstance(v, NoneV):
            return False
        if isinstance(v, (NodeV, SelfV, FuncV, LambdaV, BuiltinV)):
            return True
        if isinstance(v, PyConst):
            return bool(v.s)
        if isinstance(v, PyText):
            return self.oracle.choose(key)
        if isinstance(v, TupleV):
            return bool(v.items)
        if isinstance(v, ListV):
            if v.items is not None:
                return bool(v.items)
            if v.nonempty is None:
                return self.oracle.choose(key)
            return bool(v.nonempty)
        if isinstance(v, LangV):
            if is_empty_lang(v.r):
                raise Unsupported("empty language")
            ne = nonempty(v.r)
            if is_empty_lang(ne):
                return False
            if not nullable(v.r):
                return True
            t = self.oracle.choose(key)
            if env is not None and name is not None:
                env[name] = LangV(ne) if t else LangV(rx.EPS)
            return t
        raise Unsupported("truth of %s" % type(v).__name__)

    # ---- printing a node
    extra_anchor = None       # a set of classes cut to the pseudo anchor <Definition> (the Document frame)

    def anchor_of(self, classes):
        if self.extra_anchor and classes >= self.extra_anchor:
            return ("definition", ())
        if {"ListType", "NonNullType"} <= classes:
            return ref.TYPE
        if {"ListValue", "ObjectValue"} <= classes:
            return ref.VAL
        if "SelectionSet" in classes:
            return ref.SS
        return None

    marker_mode = False

    def marker(self, slot):
        return rx.sym(frozenset([("SLOT", slot)]))

    def print_node(self, nv, method=None, top=False):
        if self.marker_mode and nv.origin is not None:
            return self.marker(nv.origin)
        if not top:
            a = self.anchor_of(nv.classes)
            if a is not None:
                return rx.sym(frozenset([("NT",) + a]))
        alts = []
        for c in sorted(nv.classes):
            h = method or self.registry.get(c)
            if h is None:
                raise Unsupported("no print method for %s" % c)
            states = [nv.state] if nv.state is not None else self.shapes.states(c)
            for st in states:
                alts.append(self.class_state_lang(c, st, h, nv.names))
        return rx.alt(*alts)

    def class_state_lang(self, c, st, h, names=None):
        key = (c, tuple(sorted(st.items(), key=str)), h, names, self.marker_mode)
        if key in self.memo:
            return self.memo[key]
        fi = self.cls.find_method(h)
        if fi is None:
            raise Unsupported("ASTPrinter.%s not found" % h)
        self.depth += 1
        if self.depth > 12:
            raise Unsupported("print recursion not cut by an anchor at %s" % c)
        saved = (self.oracle, self.sym_iter)
        try:
            def one(o):
                self.oracle = o
                self.sym_iter = None
                return self.to_lang(self.call(FuncV(fi, SelfV()), [NodeV({c}, st, names)], {}))
            res = rx.alt(*run_all(one))
        finally:
            self.oracle, self.sym_iter = saved
            self.depth -= 1
        self.memo[key] = res
        return res

    # ---- calls
    def call(self, f, args, kwargs):
        self.calls += 1
        if self.calls > 200000:
            raise Unsupported("evaluation budget exceeded")
        if isinstance(f, SelfV):
            if len(args) != 1:
                raise Unsupported("printer called with %d arguments" % len(args))
            v = args[0]
            if isinstance(v, NoneV):
                return LangV(rx.EPS)
            if isinstance(v, NodeV):
                return LangV(self.print_node(v))
            raise Unsupported("printer applied to %s" % type(v).__name__)
        if isinstance(f, LambdaV):
            env = dict(f.env)
            ps = [a.arg for a in f.node.args.args]
            for p, v in zip(ps, args):
                env[p] = v
            return self.ev(f.node.body, env)
        if isinstance(f, BuiltinV):
            return self.builtin(f, args, kwargs)
        if isinstance(f, FuncV):
            fi = f.fi
            # a registry handler applied to a child in any state: the language of that child
            if f.bound is not None and fi.name in self.handler_class and len(args) == 1 and isinstance(args[0], NodeV) and args[0].state is None:
                return LangV(self.print_node(args[0], method=fi.name))
            if f.bound is not None and len(args) == 1 and isinstance(args[0], NoneV) and fi.name in self.handler_class:
                raise Unsupported("%s applied to None" % fi.name)
            return self.call_function(fi, ([f.bound] if f.bound is not None else []) + list(args), kwargs)
        raise Unsupported("call of %s" % type(f).__name__)

    def call_function(self, fi, args, kwargs):
        fn = fi.node
        if fi.cls is None and fi.name == "_indent" and len(args) == 2 and isinstance(args[0], (LangV, PyConst, PyText)):
            # layout only: C03.I1 decides, by folding the body on sample texts, that `_indent` prefixes lines and inserts nothing else
            return args[0]
        if self._block_string_like(fi, args):
            origins = [x.origin for x in args if isinstance(x, PyText) and x.origin is not None]
            if self.marker_mode and origins:
                return LangV(self.marker(origins[0]))
            return LangV(rx.sym(self.g.cls_atoms("BlockString")))
        a = fn.args
        names = [x.arg for x in a.posonlyargs + a.args]
        env = {}
        defaults = dict(zip(names[len(names) - len(a.defaults):], a.defaults))
        for i, n in enumerate(names):
            if i < len(args):
                env[n] = args[i]
            elif n in kwargs:
                env[n] = kwargs[n]
            elif n in defaults:
                env[n] = self.ev(defaults[n], {})
            else:
                raise Unsupported("%s called without %s" % (fi.qualname, n))
        for p, d in zip(a.kwonlyargs, a.kw_defaults):
            env[p.arg] = kwargs[p.arg] if p.arg in kwargs else self.ev(d, {})
        env["\0fi"] = fi
        try:
            self.block(fn.body, env)
        except _Return as r:
            return r.v
        return NoneV()

    def _block_string_like(self, fi, args):
        """a module function taking text whose every return is a `\"\"\"...\"\"\"` literal / format: one BlockString token"""
        if fi.cls is not None or not any(isinstance(x, PyText) for x in args):
            return False
        rets = [n.value for n in ast.walk(fi.node) if isinstance(n, ast.Return) and n.value is not None]
        if not rets:
            return False
        for v in rets:
            consts = [c.value for c in ast.walk(v) if isinstance(c, ast.Constant) and isinstance(c.value, str)]
            if not any(c.startswith('"""') and c.endswith('"""') and len(c) >= 6 for c in consts):
                return False
        return True

    def builtin(self, f, args, kwargs):
        n = f.name
        if n == "map":
            fn, lst = args[0], args[1]
            if not isinstance(lst, ListV):
                raise Unsupported("map over %s" % type(lst).__name__)
            if lst.items is not None:
                return ListV(items=[self.call(fn, [x], {}) for x in lst.items])
            return ListV(elem=self.call(fn, [lst.elem], {}), nonempty=lst.nonempty)
        if n in ("list", "tuple", "iter"):
            if not args:
                return ListV(items=[])
            if isinstance(args[0], ListV):
                return ListV(items=None if args[0].items is None else list(args[0].items), elem=args[0].elem, nonempty=args[0].nonempty)
            if isinstance(args[0], TupleV):
                return ListV(items=list(args[0].items))
            raise Unsupported("list(%s)" % type(args[0]).__name__)
        if n == "str":
            v = args[0]
            if isinstance(v, BoolV) and v.b is not None:
                return PyConst(str(v.b))
            if isinstance(v, (LangV, PyConst)):
                return v
            raise Unsupported("str(%s)" % type(v).__name__)
        if n == "bool":
            return BoolV(self.truth(args[0]))
        if n == "json.dumps":
            if isinstance(args[0], PyText):
                if self.marker_mode and args[0].origin is not None:
                    return LangV(self.marker(args[0].origin))
                return LangV(rx.sym(self.g.cls_atoms("String")))
            raise Unsupported("json.dumps of %s" % type(args[0]).__name__)
        if n == "enumerate":
            lst = args[0]
            if isinstance(lst, ListV) and lst.items is None:
                return ListV(elem=TupleV([BoolV(None), lst.elem]), nonempty=lst.nonempty)
            if isinstance(lst, ListV):
                return ListV(items=[TupleV([BoolV(None), x]) for x in lst.items])
            raise Unsupported("enumerate")
        if n == "len":
            raise Unsupported("len()")
        if n == "isinstance":
            raise Unsupported("isinstance()")
        if n == "method":
            return self.method_call(f.target[0], f.target[1], args, kwargs)
        raise Unsupported("builtin %s" % n)

    def method_call(self, obj, attr, args, kwargs):
        if isinstance(obj, ListV):
            if attr == "append":
                v = args[0]
                if self.sym_iter is not None:
                    if obj.items is not None and obj.items:
                        raise Unsupported("append to a non-empty list inside a loop over an unbounded list")
                    prev = obj.elem
                    if prev is not None:
                        v = LangV(rx.alt(self.to_lang(prev), self.to_lang(v)))
                    obj.items, obj.elem, obj.nonempty = None, v, self.sym_iter
                    return NoneV()
                if obj.items is None:
                    raise Unsupported("append to an unbounded list")
                obj.items.append(v)
                return NoneV()
            raise Unsupported("list.%s" % attr)
        if isinstance(obj, (LangV, PyConst)):
            if attr == "join":
                sep = self.to_lang(obj)
                lst = args[0]
                if isinstance(lst, TupleV):
                    lst = ListV(items=list(lst.items))
                if not isinstance(lst, ListV):
                    raise Unsupported("join of %s" % type(lst).__name__)
                if lst.items is not None:
                    parts = [self.to_lang(x) for x in lst.items]
                    out = []
                    for i, p in enumerate(parts):
                        if i:
                            out.append(sep)
                        out.append(p)
                    return LangV(rx.cat(*out) if out else rx.EPS)
                e = self.to_lang(lst.elem)
                body = rx.cat(e, rx.star(rx.cat(sep, e)))
                if lst.nonempty is True:
                    return LangV(body)
                if lst.nonempty is False:
                    return LangV(rx.EPS)
                return LangV(rx.opt(body))
            if attr == "replace" and len(args) == 2:
                a, b = args
                if isinstance(a, (PyConst, LangV)) and isinstance(b, (PyConst, LangV)) and only_ws(strip_none(self.to_lang(a))) and only_ws(strip_none(self.to_lang(b))):
                    return obj          # layout only: the token sequence is unchanged
                raise Unsupported("str.replace with non-layout arguments")
            if attr in ("lower", "upper") and isinstance(obj, PyConst):
                return PyConst(getattr(obj.s, attr)())
            if attr in ("strip", "rstrip", "lstrip") and not args:
                return obj
            if attr in ("startswith", "endswith"):
                return BoolV(None)
            raise Unsupported("str.%s" % attr)
        if isinstance(obj, PyText):
            if attr in ("startswith", "endswith"):
                return BoolV(None)
            if attr in ("replace", "strip", "rstrip", "lstrip"):
                return obj
            raise Unsupported("text.%s" % attr)
        raise Unsupported("method %s of %s" % (attr, type(obj).__name__))

    # ---- statements
    def block(self, stmts, env):
        for st in stmts:
            self.stmt(st, env)

    def stmt(self, st, env):
        if isinstance(st, ast.Return):
            raise _Return(self.ev(st.value, env) if st.value is not None else NoneV())
        if isinstance(st, ast.Expr):
            if isinstance(st.value, ast.Constant):
                return
            self.ev(st.value, env)
            return
        if isinstance(st, (ast.Assign, ast.AnnAssign)):
            if st.value is None:
                return
            v = self.ev(st.value, env)
            for t in (st.targets if isinstance(st, ast.Assign) else [st.target]):
                self.assign(t, v, env)
            return
        if isinstance(st, ast.AugAssign) and isinstance(st.op, ast.Add) and isinstance(st.target, ast.Name):
            env[st.target.id] = self.add(env[st.target.id], self.ev(st.value, env))
            return
        if isinstance(st, ast.If):
            name = st.test.id if isinstance(st.test, ast.Name) else None
            if isinstance(st.test, ast.UnaryOp) and isinstance(st.test.op, ast.Not) and isinstance(st.test.operand, ast.Name):
                name = st.test.operand.id
            t = self.cond(st.test, env, name)
            self.block(st.body if t else st.orelse, env)
            return
        if isinstance(st, ast.For):
            it = self.ev(st.iter, env)
            if isinstance(it, TupleV):
                it = ListV(items=list(it.items))
            if not isinstance(it, ListV):
                raise Unsupported("for over %s" % type(it).__name__)
            if it.items is not None:
                for x in it.items:
                    self.assign(st.target, x, env)
                    self.block(st.body, env)
                return
            if it.nonempty is False:
                return
            saved = self.sym_iter
            self.sym_iter = it.nonempty
            try:
                self.assign(st.target, it.elem, env)
                self.block(st.body, env)
            finally:
                self.sym_iter = saved
            return
        if isinstance(st, ast.Pass):
            return
        raise Unsupported("statement %s at line %s" % (type(st).__name__, getattr(st, "lineno", "?")))

    def assign(self, t, v, env):
        if isinstance(t, ast.Name):
            env[t.id] = v
        elif isinstance(t, (ast.Tuple, ast.List)) and isinstance(v, TupleV) and len(v.items) == len(t.elts):
            for x, y in zip(t.elts, v.items):
                self.assign(x, y, env)
        else:
            raise Unsupported("assignment target %s" % type(t).__name__)

    def cond(self, e, env, name=None):
        if isinstance(e, ast.UnaryOp) and isinstance(e.op, ast.Not):
            return not self.cond(e.operand, env, name)
        if isinstance(e, ast.BoolOp):
            if isinstance(e.op, ast.And):
                return all(self.cond(x, env) for x in e.values)     # all() short-circuits like `and`
            return any(self.cond(x, env) for x in e.values)
        v = self.ev(e, env)
        nm = e.id if isinstance(e, ast.Name) else None
        return self.truth(v, env, nm, key=getattr(v, "key", None) or ("test", id(e)))

    def add(self, l, r):
        if isinstance(l, ListV) and isinstance(r, ListV) and l.items is not None and r.items is not None:
            return ListV(items=l.items + r.items)
        return LangV(rx.cat(self.to_lang(l), self.to_lang(r)))

    # ---- expressions
    def ev(self, e, env):
        if e is None:
            return NoneV()
        if isinstance(e, ast.Constant):
            if e.value is None:
                return NoneV()
            if isinstance(e.value, bool):
                return BoolV(e.value)
            if isinstance(e.value, str):
                return PyConst(e.value)
            raise Unsupported("constant %r" % (e.value,))
        if isinstance(e, ast.Name):
            if e.id in env:
                return env[e.id]
            fi = env.get("\0fi")
            mod = fi.module if fi is not None else self.mod
            rr = self.prog.resolve_name(mod, e.id)
            if rr and rr[0] == "func":
                return FuncV(rr[1])
            if e.id in ("map", "list", "tuple", "str", "bool", "any", "all", "len", "isinstance", "enumerate", "iter"):
                return BuiltinV(e.id)
            if rr and rr[0] == "assign":
                try:
                    v = fold_literal(rr[1])
                    if isinstance(v, str):
                        return PyConst(v)
                except Exception:
                    pass
            raise Unsupported("name %s" % e.id)
        if isinstance(e, ast.Attribute):
            if isinstance(e.value, ast.Name) and e.value.id == "json" and e.attr == "dumps":
                return BuiltinV("json.dumps")
            return self.attr(self.ev(e.value, env), e.attr, e)
        if isinstance(e, ast.Tuple):
            return TupleV([self.ev(x, env) for x in e.elts])
        if isinstance(e, ast.List):
            return ListV(items=[self.ev(x, env) for x in e.elts])
        if isinstance(e, ast.IfExp):
            name = e.test.id if isinstance(e.test, ast.Name) else None
            return self.ev(e.body if self.cond(e.test, env, name) else e.orelse, env)
        if isinstance(e, ast.BoolOp):
            last = None
            for x in e.values:
                last = self.ev(x, env)
                t = self.truth(last, env, x.id if isinstance(x, ast.Name) else None, key=("bool", id(x)))
                if isinstance(x, ast.Name) and x.id in env:
                    last = env[x.id]      # refined by the test
                if isinstance(e.op, ast.And) and not t:
                    return last
                if isinstance(e.op, ast.Or) and t:
                    return last
            return last
        if isinstance(e, ast.UnaryOp) and isinstance(e.op, ast.Not):
            return BoolV(not self.cond(e.operand, env))
        if isinstance(e, ast.Compare) and len(e.ops) == 1:
            l = self.ev(e.left, env)
            r = self.ev(e.comparators[0], env)
            op = e.ops[0]
            if isinstance(op, (ast.Is, ast.IsNot)) and isinstance(r, NoneV):
                res = isinstance(l, NoneV)
                return BoolV(res if isinstance(op, ast.Is) else not res)
            if isinstance(op, (ast.Eq, ast.NotEq)):
                if isinstance(l, PyConst) and isinstance(r, PyConst):
                    return BoolV((l.s == r.s) == isinstance(op, ast.Eq))
                if isinstance(l, (PyText, LangV)) or isinstance(r, (PyText, LangV)):
                    b = BoolV(None)
                    return b
            if isinstance(op, (ast.In, ast.NotIn)):
                if isinstance(l, PyConst) and isinstance(r, PyConst):
                    return BoolV((l.s in r.s) == isinstance(op, ast.In))
                if isinstance(r, (LangV, PyText)):
                    return BoolV(None)       # e.g. "\n" in <printed text>: layout dependent, both ways
            raise Unsupported("comparison `%s`" % ast.unparse(e))
        if isinstance(e, ast.BinOp) and isinstance(e.op, ast.Mod):
            fmt = self.ev(e.left, env)
            if not isinstance(fmt, PyConst):
                raise Unsupported("%-format with a non-literal format")
            right = self.ev(e.right, env)
            vals = right.items if isinstance(right, TupleV) else [right]
            pieces = fmt.s.split("%s")
            if len(pieces) != len(vals) + 1 or "%" in "".join(pieces).replace("%%", ""):
                raise Unsupported("format %r with %d values" % (fmt.s, len(vals)))
            out = [self.tokenise(pieces[0].replace("%%", "%"))]
            for p, v in zip(pieces[1:], vals):
                out.append(self.to_lang(v))
                out.append(self.tokenise(p.replace("%%", "%")))
            return LangV(rx.cat(*out))
        if isinstance(e, ast.BinOp) and isinstance(e.op, ast.Add):
            return self.add(self.ev(e.left, env), self.ev(e.right, env))
        if isinstance(e, ast.BinOp) and isinstance(e.op, ast.Mult):
            l, r = self.ev(e.left, env), None
            if isinstance(l, (LangV, PyConst)) and only_ws(strip_none(self.to_lang(l))):
                return LangV(rx.opt(rx.sym({WS})))          # indent * depth
            raise Unsupported("multiplication")
        if isinstance(e, ast.JoinedStr):
            out = []
            for v in e.values:
                if isinstance(v, ast.Constant):
                    out.append(self.tokenise(v.value))
                elif isinstance(v, ast.FormattedValue) and v.format_spec is None and v.conversion == -1:
                    out.append(self.to_lang(self.ev(v.value, env)))
                else:
                    raise Unsupported("f-string conversion")
            return LangV(rx.cat(*out))
        if isinstance(e, ast.Lambda):
            return LambdaV(e, env)
        if isinstance(e, (ast.ListComp, ast.GeneratorExp)):
            return self.comprehension(e, env)
        if isinstance(e, ast.Call):
            return self.ev_call(e, env)
        if isinstance(e, ast.Subscript):
            v = self.ev(e.value, env)
            if isinstance(v, PyText):
                return PyText()
            raise Unsupported("subscript of %s" % type(v).__name__)
        raise Unsupported("expression %s at line %s" % (type(e).__name__, getattr(e, "lineno", "?")))

    def comprehension(self, e, env):
        if len(e.generators) != 1:
            raise Unsupported("nested comprehension")
        g = e.generators[0]
        it = self.ev(g.iter, env)
        if isinstance(it, TupleV):
            it = ListV(items=list(it.items))
        if not isinstance(it, ListV):
            raise Unsupported("comprehension over %s" % type(it).__name__)
        if it.items is not None:
            out = []
            for x in it.items:
                env2 = dict(env)
                self.assign(g.target, x, env2)
                if all(self.cond(c, env2, c.id if isinstance(c, ast.Name) else None) for c in g.ifs):
                    out.append(self.ev(e.elt, env2))
            return ListV(items=out)
        env2 = dict(env)
        self.assign(g.target, it.elem, env2)
        for c in g.ifs:
            v = self.ev(c, env2)
            if isinstance(v, LangV) and nullable(v.r) and not only_eps(v.r):
                # an element that may print as nothing is dropped: the rest is what is kept
                if isinstance(c, ast.Name):
                    env2[c.id] = LangV(nonempty(v.r))
                    continue
            if not self.truth(v, key=("filter", id(c))):
                return ListV(items=[])
        return ListV(elem=self.ev(e.elt, env2), nonempty=it.nonempty)

    def ev_call(self, e, env):
        f = e.func
        if isinstance(f, ast.Name) and f.id in ("any", "all") and len(e.args) == 1 and isinstance(e.args[0], (ast.GeneratorExp, ast.ListComp)) \
                and f.id not in env:
            it = self.ev(e.args[0].generators[0].iter, env)
            if isinstance(it, ListV) and it.items is not None and not it.items:
                return BoolV(f.id == "all")
            b = BoolV(None)
            b.key = ("quant", id(e))
            return b
        if isinstance(f, ast.Attribute) and f.attr == "dumps" and isinstance(f.value, ast.Name) and f.value.id == "json" and "json" not in env:
            fn = BuiltinV("json.dumps")
        elif isinstance(f, ast.Attribute):
            obj = self.ev(f.value, env)
            if isinstance(obj, SelfV):
                m = self.cls.find_method(f.attr)
                if m is None:
                    raise Unsupported("self.%s" % f.attr)
                fn = FuncV(m, obj)
            elif isinstance(obj, BuiltinV) or isinstance(obj, FuncV):
                raise Unsupported("attribute call on a function")
            else:
                fn = BuiltinV("method", (obj, f.attr))
        else:
            fn = self.ev(f, env)
        args = []
        for a in e.args:
            if isinstance(a, ast.Starred):
                raise Unsupported("star argument")
            args.append(self.ev(a, env))
        kwargs = {}
        for k in e.keywords:
            if k.arg is None:
                raise Unsupported("** argument")
            kwargs[k.arg] = self.ev(k.value, env)
        return self.call(fn, args, kwargs)

    def attr(self, obj, attr, e):
        if isinstance(obj, SelfV):
            if attr == "indent":
                return LangV(rx.sym({WS}))
            if attr == "include_descriptions":
                if self.marker_mode:
                    return BoolV(True)
                b = BoolV(None)
                b.key = "include_descriptions"
                return b
            m = self.cls.find_method(attr)
            if m is not None:
                return FuncV(m, obj)
            raise Unsupported("self.%s" % attr)
        if isinstance(obj, NodeV):
            if len(obj.classes) != 1:
                raise Unsupported("attribute %s of a node of several kinds" % attr)
            c = next(iter(obj.classes))
            nc = self.shapes.ncs[c]
            if attr not in nc.content_slots:
                raise Unsupported("%s.%s is not a content slot" % (c, attr))
            kind = self.shapes.slot_kind(c, attr)
            st = obj.state
            kinds = self.shapes.kinds.get((c, attr), set())
            names = treeshape.NAME_VALUES.get((c, attr))
            origin = obj.origin if obj.origin is not None else (attr if st is not None else None)
            if self.marker_mode and origin is not None:
                if kind == "token":
                    return LangV(self.marker(origin))
                if kind == "text":
                    return PyText(origin)
            if kind == "token":
                if c == "Name" and obj.names:
                    return LangV(rx.sym(frozenset(self.name_atom(w) for w in obj.names)))
                tk = treeshape.TOKEN_STR[(c, attr)]
                return LangV(rx.sym({("Name", OTHER)}) if tk == "Name" else rx.sym(self.g.cls_atoms(tk)))
            if kind == "text":
                return PyText()
            if kind == "enum":
                if st is not None:
                    return PyConst(st[attr])
                return LangV(rx.sym(frozenset(self.name_atom(w) for w in treeshape.ENUM_STR[(c, attr)])))
            if kind == "bool":
                if st is not None:
                    return BoolV(st[attr])
                b = BoolV(None)
                b.key = ("slot", c, attr)
                return b
            child = NodeV(kinds, None, tuple(names) if names else None, origin if self.marker_mode else None)
            if kind == "req":
                return child
            if kind == "opt":
                if st is not None:
                    return child if st[attr] == "some" else NoneV()
                return child if self.oracle.choose(("slot", c, attr)) else NoneV()
            if kind == "list":
                if st is not None:
                    return ListV(elem=child, nonempty=True) if st[attr] == "some" else ListV(items=[])
                return ListV(elem=child, nonempty=True) if self.oracle.choose(("slot", c, attr)) else ListV(items=[])
        if isinstance(obj, (LangV, PyConst, PyText, ListV)):
            return BuiltinV("method", (obj, attr))
        raise Unsupported("attribute %s of %s" % (attr, type(obj).__name__))

    # ---- top level
    def language_of(self, classes):
        return self.print_node(NodeV(classes, None), top=True)

    def slot_order(self, c, order):
        """marker mode: the first (state, printed-first, printed-after) where a slot the parser reads earlier is printed after one
        it reads later, or None; ``order`` is the parser's fill order of the slots of class c"""
        h = self.registry.get(c)
        if h is None:
            raise Unsupported("no print method for %s" % c)
        rank = {sl: i for i, sl in enumerate(order)}
        self.marker_mode = True
        try:
            n_states = 0
            for st in self.shapes.states(c):
                n_states += 1
                lang = self.class_state_lang(c, st, h)
                v = order_violation(lang, rank)
                if v is not None:
                    return n_states, (st, v[0], v[1])
            return n_states, None
        finally:
            self.marker_mode = False

    def slot_presence(self, c):
        """marker mode: [(state, slot, missing witness or None)] for every present content slot of every state of class c;
        a child read from slot s prints as the single symbol SLOT(s), descriptions are enabled."""
        h = self.registry.get(c)
        if h is None:
            raise Unsupported("no print method for %s" % c)
        out = []
        self.marker_mode = True
        try:
            for st in self.shapes.states(c):
                lang = self.class_state_lang(c, st, h)
                namelike = set()
                for slot in self.shapes.ncs[c].content_slots:
                    ks = self.shapes.kinds.get((c, slot), set())
                    if (ks and ks <= {"Name", "NamedType"}) or treeshape.TOKEN_STR.get((c, slot)) == "Name":
                        namelike.add(("SLOT", slot))
                pair = adjacent_pair(lang, namelike) if len(namelike) > 1 else None
                if pair is not None:
                    out.append((st, "%s+%s" % (pair[0][1], pair[1][1]), "adjacent"))
                for slot in self.shapes.ncs[c].content_slots:
                    kind = self.shapes.slot_kind(c, slot)
                    if kind in ("bool", "enum") or st.get(slot) in ("empty", None):
                        continue
                    m = ("SLOT", slot)

                    def drop(sm, m=m):
                        return rx.sym(sm[1] - {m})
                    without = map_syms(lang, drop)
                    res = None if is_empty_lang(without) else rx.equivalent(without, rx.EMPTY)
                    out.append((st, slot, None if res is None else res[0]))
        finally:
            self.marker_mode = False
        return out


def strip_none(r):
    return r


def order_violation(r, rank):
    """(earlier-printed slot, later-printed slot) such that some string of L(r) emits SLOT(b) and afterwards SLOT(a) although
    rank[a] < rank[b] (a is read first by the parser), or None.  Reachability on the NFA x (highest rank emitted so far)."""
    n = rx.NFA()
    s, e = n.build(r)
    start = [(q, -1, None) for q in n.closure([s])]
    seen = {(q, hi) for q, hi, _ in start}
    queue = start
    while queue:
        nxt = []
        for q, hi, who in queue:
            for atoms, _p, y in n.tr[q]:
                outs = set()
                for a in atoms:
                    if isinstance(a, tuple) and a and a[0] == "SLOT" and a[1] in rank:
                        if rank[a[1]] < hi:
                            return who, a[1]
                        outs.add((max(hi, rank[a[1]]), a[1] if rank[a[1]] > hi else who))
                    else:
                        outs.add((hi, who))
                for h2, w2 in outs:
                    for z in n.closure([y]):
                        if (z, h2) not in seen:
                            seen.add((z, h2))
                            nxt.append((z, h2, w2))
        queue = nxt
    return None


def only_ws(r):
    """every string of L(r) consists of whitespace atoms only"""
    k = r[0]
    if k == "eps":
        return True
    if k == "sym":
        return r[1] <= {WS}
    if k in ("cat", "alt"):
        return all(only_ws(x) for x in r[1])
    if k == "star":
        return only_ws(r[1])
    return k == "empty"


def adjacent_pair(r, marks):
    """a pair (a, b) of distinct atoms of `marks` that some string of L(r) emits one after the other with nothing but
    whitespace atoms between them, or None"""
    n = rx.NFA()
    s, e = n.build(r)
    seen = set()
    queue = [(q, None) for q in n.closure([s])]
    seen.update(queue)
    while queue:
        nxt = []
        for q, last in queue:
            for atoms, _p, y in n.tr[q]:
                for a in sorted(atoms, key=str):
                    if a in marks:
                        if last is not None and last != a:
                            return last, a
                        new = a
                    elif a == WS:
                        new = last
                    else:
                        new = None
                    for z in n.closure([y]):
                        if (z, new) not in seen:
                            seen.add((z, new))
                            nxt.append((z, new))
        queue = nxt
    return None


def fusion_witness(r, wordy):
    """a shortest path on which two word-like tokens are adjacent (no whitespace atom between them), or None"""
    n = rx.NFA()
    s, e = n.build(r)
    # states that can reach the accepting state
    rev = {}
    for x in range(n.n):
        for y in n.eps[x]:
            rev.setdefault(y, set()).add(x)
        for atoms, _p, y in n.tr[x]:
            rev.setdefault(y, set()).add(x)
    live, stack = {e}, [e]
    while stack:
        y = stack.pop()
        for x in rev.get(y, ()):
            if x not in live:
                live.add(x)
                stack.append(x)
    start = n.closure([s])
    seen = {}
    queue = [(q, False) for q in start]
    for q in queue:
        seen[q] = None
    while queue:
        nxt = []
        for q, after_word in queue:
            for atoms, _p, y in n.tr[q]:
                if y not in live:
                    continue
                w = atoms & wordy
                if after_word and w:
                    path = [sorted(w, key=str)[0]]
                    cur = (q, after_word)
                    while seen[cur] is not None:
                        cur, atom = seen[cur]
                        if atom is not None:
                            path.append(atom)
                    return list(reversed(path))
                for kind, sub in ((True, w), (False, atoms - wordy)):
                    if not sub:
                        continue
                    for z in n.closure([y]):
                        st = (z, kind)
                        if st not in seen:
                            seen[st] = ((q, after_word), sorted(sub, key=str)[0])
                            nxt.append(st)
        queue = nxt
    return None
