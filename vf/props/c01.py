"""C01 — parser accepts exactly the grammar; only syntax errors; positions in range."""
import ast

from .. import lexrules, shapes, excflow
from ..model import AnalysisError, own_nodes, norm_stmt

PARSER = "py_gql.lang.parser"
LEXER = lexrules.LEXER
SYNTAX_ERRORS = None


def syntax_error_classes(prog):
    u = excflow.ExcUniverse(prog)
    return {n for n in u.repo if u.is_subclass(n, "GraphQLSyntaxError")}, u


def check(prog, run):
    lexer = prog.get_class(LEXER, "Lexer")
    parser = prog.get_class(PARSER, "Parser")
    syn, universe = syntax_error_classes(prog)
    shapes.require(len(syn) >= 6, "C01: syntax error hierarchy not found in exc.py")

    # ---- L1 lexical tables
    r = run.rule("L1", "lexer tables equal the specification's: punctuators, ellipsis, ignored characters, escape table, "
                       "constant token values", 30)
    sym = lexrules.symbols_table(prog)
    for ch in sorted(set(sym) | lexrules.SPEC_PUNCTUATORS):
        r.instance("punctuator %r -> %s" % (ch, sym.get(ch)))
        if ch not in sym:
            run.report(r, "%s:SYMBOLS:missing(%s)" % (LEXER, ch), "src/py_gql/lang/lexer.py", "punctuator %r of the grammar is not in SYMBOLS" % ch)
        elif ch not in lexrules.SPEC_PUNCTUATORS:
            run.report(r, "%s:SYMBOLS:extra(%s)" % (LEXER, ch), "src/py_gql/lang/lexer.py", "SYMBOLS accepts %r which is not a GraphQL punctuator" % ch)
    tv = lexrules.token_values(prog)
    r.instance("Ellip.value = %r" % tv.get("Ellip"))
    if tv.get("Ellip") != lexrules.SPEC_ELLIPSIS:
        run.report(r, "%s:Ellip:value" % lexrules.TOKEN, "src/py_gql/lang/token.py", "Ellip.value is %r" % tv.get("Ellip"))
    ignored = set(prog.fold_name(LEXER, "IGNORED_CHARS"))
    for ch in sorted(ignored | lexrules.SPEC_IGNORED):
        r.instance("ignored %r" % ch)
        if ch not in ignored:
            run.report(r, "%s:IGNORED_CHARS:missing(%r)" % (LEXER, ch), "src/py_gql/lang/lexer.py", "%r is insignificant in GraphQL but not in IGNORED_CHARS" % ch)
        elif ch not in lexrules.SPEC_IGNORED:
            run.report(r, "%s:IGNORED_CHARS:extra(%r)" % (LEXER, ch), "src/py_gql/lang/lexer.py", "%r is skipped as insignificant but is not in the specification's Ignored set" % ch)
    quoted = prog.fold_name(LEXER, "QUOTED_CHARS")
    for k in sorted(set(quoted) | set(lexrules.SPEC_ESCAPES)):
        r.instance("escape \\%s" % k)
        if quoted.get(k) != lexrules.SPEC_ESCAPES.get(k):
            run.report(r, "%s:QUOTED_CHARS:entry(%s)" % (LEXER, k), "src/py_gql/lang/lexer.py",
                       "escape \\%s decodes to %r, specification says %r" % (k, quoted.get(k), lexrules.SPEC_ESCAPES.get(k)))
    # the default arguments that bind the tables must still name them
    for mname, const in (("_read_over_whitespace", "IGNORED_CHARS"), ("_read_escape_sequence", "QUOTED_CHARS")):
        m = lexer.find_method(mname)
        shapes.require(m is not None, "C01.L1: Lexer.%s not found" % mname)
        uses = any(isinstance(n, ast.Name) and n.id == const for n in ast.walk(m.node))
        r.instance("%s consults %s: %s" % (mname, const, uses))
        if not uses:
            run.report(r, "%s:Lexer.%s:table-unused(%s)" % (LEXER, mname, const), m.where(), "%s no longer consults %s" % (mname, const))

    # ---- L3 unicode-aware predicates on source characters
    r = run.rule("L3", "no Unicode-aware str predicate (isdigit, isalnum, isalpha, isspace, ...) decides a lexical class in "
                       "Lexer methods unless conjoined with an ASCII guard", 12)
    seen = set()
    for name, m in lexer.methods.items():
        if id(m) in seen:
            continue
        seen.add(id(m))
        run.looked_at(m)
        r.instance(m.qualname)
        for n, meth in lexrules.unicode_aware_calls(m.node):
            run.report(r, "%s:%s:unicode-aware(%s)" % (LEXER, m.qualname, norm_stmt(n, 70)), m.where(n),
                       "`%s`: str.%s() is true for non-ASCII characters (e.g. ARABIC-INDIC DIGIT ONE U+0661), which the GraphQL "
                       "lexical grammar does not allow there" % (" ".join(ast.unparse(n).split()), meth))

    check_no_bulk_scan(prog, run, "L4")
    check_no_stored_length(prog, run, "P3")

    # ---- K1 keyword comparisons guarded by a Name class test
    r = run.rule("K1", "every comparison of a token's .value with keyword text in the parser is guarded on its path by a "
                       "test that the same token is a Name token (a quoted string spelling the keyword is not a keyword)", 15)
    seen = set()
    for name, m in parser.methods.items():
        if id(m) in seen:
            continue
        seen.add(id(m))
        run.looked_at(m)
        for cmp_node, tok in keyword_compares(m):
            r.instance("%s: `%s`" % (m.qualname, " ".join(ast.unparse(cmp_node).split())))
            if not name_guarded(m, cmp_node, tok):
                run.report(r, "%s:%s:unguarded-keyword(%s)" % (PARSER, m.qualname, " ".join(ast.unparse(cmp_node).split())), m.where(cmp_node),
                           "`%s` is evaluated for tokens of any class: a String/BlockString token spelling the keyword is accepted "
                           "as the keyword" % " ".join(ast.unparse(cmp_node).split()))

    # ---- P1 error positions
    r = run.rule("P1", "every syntax-error construction in lexer/parser receives a position that cannot exceed len(source): "
                       "inside an `except IndexError` handler of a read at index e, the position is not e + k (k>0)", 25)
    for cls, mod in ((lexer, LEXER), (parser, PARSER)):
        seen = set()
        fns = list(cls.methods.values()) + [f for f in prog.module(mod).functions.values()]
        for m in fns:
            if id(m) in seen:
                continue
            seen.add(id(m))
            for n in own_nodes(m.node):
                if isinstance(n, ast.Call) and isinstance(n.func, ast.Name) and n.func.id in syn:
                    pos = syntax_error_position(n, n.func.id)
                    if pos is None:
                        continue
                    r.instance("%s: %s(position=%s)" % (m.qualname, n.func.id, ast.unparse(pos)))
                    h = enclosing_indexerror_handler(n)
                    if h is not None:
                        idx = handler_read_index(h)
                        if idx is not None and isinstance(pos, ast.BinOp) and isinstance(pos.op, ast.Add) \
                                and ast.unparse(pos.left) == idx and isinstance(pos.right, ast.Constant) and pos.right.value > 0:
                            run.report(r, "%s:%s:position-past-end(%s)" % (mod, m.qualname, ast.unparse(pos)), m.where(n),
                                       "inside `except IndexError` for source[%s] we know %s >= len(source), so the reported "
                                       "position %s lies outside the text; rendering the error (str(), to_dict()) indexes past the "
                                       "end" % (idx, idx, ast.unparse(pos)))

    # ---- X1 only syntax errors escape the entry points
    r = run.rule("X1", "may-raise (explicit raises through resolved calls, minus handlers) of parse, parse_value, parse_type "
                       "and Lexer.__next__ contains only GraphQLSyntaxError subclasses (StopIteration only from __next__)", 4)
    mr = excflow.MayRaise(prog)
    for mod, q in ((PARSER, "parse"), (PARSER, "parse_value"), (PARSER, "parse_type"), (LEXER, "Lexer.__next__")):
        f = prog.get_func(mod, q)
        run.looked_at(f)
        res = mr.of(f)
        r.instance("%s may raise %s" % (q, sorted(res)))
        for exc, wit in sorted(res.items()):
            if exc in syn:
                continue
            if exc == "StopIteration" and q == "Lexer.__next__":
                continue
            run.report(r, "%s:%s:escapes(%s)" % (mod, q, exc), f.where(), "%s can escape %s: %s" % (exc, q, " -> ".join(wit[:6])),
                       {"witness": wit})
    # the parser's window must absorb StopIteration
    aw = parser.find_method("_advance_window")
    shapes.require(aw is not None, "C01.X1: Parser._advance_window not found")
    res = mr.of(aw)
    r.instance("_advance_window may raise %s" % sorted(res))
    if "StopIteration" in res:
        run.report(r, "%s:Parser._advance_window:escapes(StopIteration)" % PARSER, aw.where(), "StopIteration from the lexer escapes the parsing window")

    # ---- X2 implicit TypeError: a node's `loc` is None when the parser runs with no_location
    r = run.rule("X2", "in lang/parser.py no expression subscripts, unpacks, iterates or reads an attribute of a node's `.loc` "
                       "(declared Optional; `Parser._loc` returns None under no_location=True) unless a test of that very "
                       "expression (truthiness / `is not None`) dominates it: the TypeError would escape parse() instead of a "
                       "syntax error", 0)
    pm = prog.module(PARSER)
    for f in [x for x in prog.all_funcs() if x.module is pm]:
        for n in own_nodes(f.node):
            if not (isinstance(n, ast.Attribute) and n.attr == "loc" and isinstance(n.ctx, ast.Load)):
                continue
            par = getattr(n, "_parent", None)
            use = None
            if isinstance(par, ast.Subscript) and par.value is n:
                use = "subscripted"
            elif isinstance(par, ast.Attribute) and par.value is n:
                use = "attribute read"
            elif isinstance(par, ast.Starred) or (isinstance(par, (ast.For, ast.comprehension)) and par.iter is n):
                use = "iterated"
            elif isinstance(par, ast.Assign) and par.value is n and isinstance(par.targets[0], (ast.Tuple, ast.List)):
                use = "unpacked"
            elif isinstance(par, ast.BinOp):
                use = "used in arithmetic"
            if use is None:
                continue
            txt = ast.unparse(n)
            guarded = False
            cur = n
            while getattr(cur, "_parent", None) is not None and cur is not f.node:
                p_ = cur._parent
                if isinstance(p_, (ast.If, ast.IfExp)) and cur is not p_.test:
                    body = p_.body if isinstance(p_.body, list) else [p_.body]
                    tt = ast.unparse(p_.test)
                    if any(cur is b for b in body) and (tt == txt or tt == "%s is not None" % txt or tt.startswith(txt + " and ") or tt.startswith("%s is not None and " % txt)):
                        guarded = True
                if isinstance(p_, ast.BoolOp) and isinstance(p_.op, ast.And) and cur in p_.values:
                    if any(ast.unparse(v) in (txt, "%s is not None" % txt) for v in p_.values[:p_.values.index(cur)]):
                        guarded = True
                cur = p_
            r.instance("%s: `%s` %s, guarded: %s" % (f.qualname, txt, use, guarded))
            if not guarded:
                run.report(r, "%s:%s:optional-loc(%s)" % (PARSER, f.qualname, txt), f.where(n),
                           "`%s` is %s, but a node parsed with no_location=True has loc None: a TypeError escapes the parser where "
                           "the property allows only the library's syntax error" % (txt, use))

    from . import c01_grammar
    c01_grammar.check(prog, run)
    check_text_position_pairing(prog, run, "P2")


def syntax_error_position(call, clsname):
    """Position argument of a syntax error constructor: (msg, position, source)
    except UnexpectedEOF(position, source)."""
    for k in call.keywords:
        if k.arg == "position":
            return k.value
    args = call.args
    if clsname == "UnexpectedEOF":
        return args[0] if len(args) >= 1 else None
    return args[1] if len(args) >= 2 else None


def enclosing_indexerror_handler(node):
    cur = node
    while getattr(cur, "_parent", None) is not None:
        par = cur._parent
        if isinstance(par, ast.ExceptHandler) and par.type is not None and "IndexError" in ast.unparse(par.type):
            return par
        if isinstance(par, (ast.FunctionDef, ast.AsyncFunctionDef)):
            return None
        cur = par
    return None


def handler_read_index(handler):
    tr = handler._parent
    for n in ast.walk(ast.Module(body=tr.body, type_ignores=[])):
        if isinstance(n, ast.Subscript) and not isinstance(n.slice, ast.Slice) and "_source" in ast.unparse(n.value):
            return ast.unparse(n.slice)
    return None


KEYWORDISH = None


def keyword_compares(m):
    """(compare node, token variable) for comparisons of `<tok>.value` (or an alias)
    with string constants / constant sets, where tok was bound from peek()/advance()."""
    toks, value_alias, kind_alias = {}, {}, {}
    for n in own_nodes(m.node):
        if isinstance(n, ast.Assign) and len(n.targets) == 1 and isinstance(n.targets[0], ast.Name):
            t, v = n.targets[0].id, n.value
            if isinstance(v, ast.Call) and isinstance(v.func, ast.Attribute) and isinstance(v.func.value, ast.Name) and v.func.value.id == "self":
                if v.func.attr in ("peek", "advance"):
                    toks[t] = None
                elif v.func.attr == "expect" and v.args:
                    toks[t] = ast.unparse(v.args[0])
                elif v.func.attr == "expect_keyword":
                    toks[t] = "Name"
            elif isinstance(v, ast.IfExp):
                # keyword = self.peek(2) if ... else next_
                toks[t] = None
            elif isinstance(v, ast.Attribute) and v.attr == "value" and isinstance(v.value, ast.Name):
                value_alias[t] = v.value.id
            elif (isinstance(v, ast.Call) and isinstance(v.func, ast.Name) and v.func.id == "type" and v.args and isinstance(v.args[0], ast.Name)):
                kind_alias[t] = v.args[0].id
            elif isinstance(v, ast.Attribute) and v.attr == "__class__" and isinstance(v.value, ast.Name):
                kind_alias[t] = v.value.id
    m._kind_alias = kind_alias
    m._toks = toks
    for n in own_nodes(m.node):
        if isinstance(n, ast.Compare) and len(n.ops) == 1 and isinstance(n.ops[0], (ast.Eq, ast.NotEq, ast.In, ast.NotIn)):
            l = n.left
            tok = None
            if isinstance(l, ast.Attribute) and l.attr == "value" and isinstance(l.value, ast.Name) and l.value.id in toks:
                tok = l.value.id
            elif isinstance(l, ast.Name) and l.id in value_alias and value_alias[l.id] in toks:
                tok = value_alias[l.id]
            if tok is None:
                continue
            c = n.comparators[0]
            is_kw = (isinstance(c, ast.Constant) and isinstance(c.value, str)) or isinstance(c, (ast.Tuple, ast.Set, ast.List)) \
                or (isinstance(c, ast.Name) and c.id.isupper())
            if is_kw:
                yield n, tok


def _positive_name_test(test, tok, kind_alias):
    """Does ``test`` (when true) imply tok's class is Name?"""
    if isinstance(test, ast.BoolOp) and isinstance(test.op, ast.And):
        return any(_positive_name_test(v, tok, kind_alias) for v in test.values)
    if isinstance(test, ast.Compare) and len(test.ops) == 1 and isinstance(test.ops[0], (ast.Is, ast.Eq)):
        l, rgt = test.left, test.comparators[0]
        if not (isinstance(rgt, ast.Name) and rgt.id == "Name"):
            return False
        if isinstance(l, ast.Attribute) and l.attr == "__class__" and isinstance(l.value, ast.Name) and l.value.id == tok:
            return True
        if isinstance(l, ast.Call) and isinstance(l.func, ast.Name) and l.func.id == "type" and l.args and isinstance(l.args[0], ast.Name) and l.args[0].id == tok:
            return True
        if isinstance(l, ast.Name) and kind_alias.get(l.id) == tok:
            return True
    if isinstance(test, ast.Call) and isinstance(test.func, ast.Name) and test.func.id == "isinstance" and len(test.args) == 2:
        if isinstance(test.args[0], ast.Name) and test.args[0].id == tok and ast.unparse(test.args[1]) == "Name":
            return True
    return False


def _negative_name_test(test, tok, kind_alias):
    """Does ``test`` (when FALSE) imply tok's class is Name?  (`not P`, `x is not Name`, `A or B` with one such disjunct)"""
    if isinstance(test, ast.UnaryOp) and isinstance(test.op, ast.Not):
        return _positive_name_test(test.operand, tok, kind_alias)
    if isinstance(test, ast.Compare) and len(test.ops) == 1 and isinstance(test.ops[0], (ast.IsNot, ast.NotEq)):
        pos = ast.Compare(left=test.left, ops=[ast.Is()], comparators=test.comparators)
        return _positive_name_test(pos, tok, kind_alias)
    if isinstance(test, ast.BoolOp) and isinstance(test.op, ast.Or):
        return any(_negative_name_test(v, tok, kind_alias) for v in test.values)
    return False


def _leaves(stmts):
    """does the statement list always leave the enclosing block (raise / return / continue / break)?"""
    if not stmts:
        return False
    last = stmts[-1]
    if isinstance(last, (ast.Raise, ast.Return, ast.Continue, ast.Break)):
        return True
    if isinstance(last, ast.If) and last.orelse:
        return _leaves(last.body) and _leaves(last.orelse)
    return False


def name_guarded(m, cmp_node, tok):
    """The comparison is evaluated only where the token is known to be a Name: under the true branch of a positive class
    test, under the false branch of a negative one, after such a test inside an `and` / `or`, or after a guard statement
    that leaves the block when the token is not a Name (at any nesting level)."""
    if m._toks.get(tok) == "Name":
        return True
    ka = m._kind_alias
    cur = cmp_node
    while getattr(cur, "_parent", None) is not None:
        par = cur._parent
        if isinstance(par, ast.BoolOp) and cur in par.values:
            idx = par.values.index(cur)
            if isinstance(par.op, ast.And) and any(_positive_name_test(p, tok, ka) for p in par.values[:idx]):
                return True
            if isinstance(par.op, ast.Or) and any(_negative_name_test(p, tok, ka) for p in par.values[:idx]):
                return True
        if isinstance(par, (ast.If, ast.While)):
            if cur in par.body and _positive_name_test(par.test, tok, ka):
                return True
            if cur in par.orelse and _negative_name_test(par.test, tok, ka):
                return True
        if isinstance(par, ast.IfExp):
            if cur is par.body and _positive_name_test(par.test, tok, ka):
                return True
            if cur is par.orelse and _negative_name_test(par.test, tok, ka):
                return True
        # guard statements earlier in the same block: `if <not a Name>: <leave>` / `if <a Name>: ... else: <leave>`
        for field in ("body", "orelse", "finalbody"):
            blk = getattr(par, field, None)
            if isinstance(blk, list) and cur in blk:
                for st in blk[:blk.index(cur)]:
                    if isinstance(st, ast.If):
                        if _negative_name_test(st.test, tok, ka) and _leaves(st.body):
                            return True
                        if _positive_name_test(st.test, tok, ka) and st.orelse and _leaves(st.orelse):
                            return True
        if isinstance(par, (ast.FunctionDef, ast.AsyncFunctionDef)):
            return False
        cur = par
    return False


def check_text_position_pairing(prog, run, rule_id):
    """P2: a position is only ever used together with the text it indexes."""
    from .. import boolx
    r = run.rule(rule_id, "rendering of syntax errors (_string_utils, exc): every call of index_to_loc / highlight_location / "
                          "loc_to_index is given, on every execution, the text the position refers to — the path value of the text "
                          "argument is a parameter of the calling function or the `.source` of the error / node itself, never a transformed copy (a "
                          "normalised, stripped or re-joined text has other offsets: positions near the end then fall outside it and "
                          "str(error) / to_dict() raise IndexError)", 3)
    TARGETS = ("index_to_loc", "highlight_location", "loc_to_index")
    n = 0
    for f in prog.all_funcs():
        if f.module.name not in ("py_gql._string_utils", "py_gql.exc") or isinstance(f.node, ast.Lambda):
            continue
        if not any(isinstance(c, ast.Call) and isinstance(c.func, ast.Name) and c.func.id in TARGETS for c in own_nodes(f.node)):
            continue
        a = f.node.args
        params = {x.arg for x in a.posonlyargs + a.args + a.kwonlyargs}
        try:
            _ev, exits = boolx.walk_under(f.node, lambda t: None)
        except ValueError as e:
            raise AnalysisError("C01.%s: %s" % (rule_id, e))
        seen = set()
        for kind, st, env in exits:
            stmts = env.get(boolx.STMTS, ())
            for c in env.get(boolx.CALLS, ()):
                if not (isinstance(c.func, ast.Name) and c.func.id in TARGETS and c.args):
                    continue
                holder = c
                while holder is not None and not isinstance(holder, ast.stmt):
                    holder = getattr(holder, "_parent", None)
                v = boolx.path_subst(c.args[0], boolx.path_env(stmts, holder))
                txt = " ".join(ast.unparse(v).split())
                if (id(c), txt) in seen:
                    continue
                seen.add((id(c), txt))
                n += 1
                r.instance("%s: %s(%s, ...)" % (f.qualname, c.func.id, txt[:40]))
                ok = (isinstance(v, ast.Name) and v.id in params) or (isinstance(v, ast.Attribute) and v.attr == "source" and isinstance(v.value, ast.Name))
                if not ok:
                    run.report(r, "%s:%s:text-transformed(%s)" % (f.module.name, f.qualname, c.func.id), f.where(c),
                               "%s hands `%s` to %s together with a position computed for the original text: the offsets no longer "
                               "agree (the position can lie beyond the end of the changed text)" % (f.qualname, txt[:80], c.func.id))
    if not n:
        raise AnalysisError("C01.%s: no call of index_to_loc / highlight_location found" % rule_id)



def check_no_stored_length(prog, run, rule_id):
    """End of input is where indexing the decoded text fails, not where a remembered length says."""
    lexer = prog.get_class(LEXER, "Lexer")
    r = run.rule(rule_id, "Lexer methods decide the end of input by indexing the decoded text (IndexError), never by comparing the cursor "
                          "with a length remembered at construction - unless that length is taken from the decoded text itself "
                          "(`len(self._source)` after ensure_unicode): for a bytes source the remembered byte length exceeds the number of "
                          "characters, and a scan bounded by it indexes past the text (IndexError instead of a syntax error)", 1)
    init = lexer.find_method("__init__")
    stored = {}
    for n in own_nodes(init.node):
        if isinstance(n, ast.Assign) and len(n.targets) == 1 and isinstance(n.targets[0], ast.Attribute) and isinstance(n.value, ast.Call) \
                and isinstance(n.value.func, ast.Name) and n.value.func.id == "len" and n.value.args:
            a = n.value.args[0]
            decoded = isinstance(a, ast.Attribute) and a.attr == "_source"
            stored[n.targets[0].attr] = decoded
    r.instance("lengths remembered by Lexer.__init__: %s" % {k: ("of the decoded text" if v else "of the argument as given") for k, v in stored.items()})
    seen = set()
    for name, m in lexer.methods.items():
        if id(m) in seen or m.name == "__init__":
            continue
        seen.add(id(m))
        for n in own_nodes(m.node):
            if isinstance(n, ast.Attribute) and isinstance(n.ctx, ast.Load) and n.attr in stored and not stored[n.attr] \
                    and isinstance(n.value, ast.Name) and n.value.id == prog.self_name(m):
                run.report(r, "%s:%s:bounded-by-undecoded-length(%s)" % (LEXER, m.qualname, n.attr), m.where(n),
                           "%s reads self.%s, the length of the source as given (bytes are not decoded yet when it is taken): for a bytes "
                           "source with a multi-byte character the scan runs past the decoded text" % (m.qualname, n.attr))


def check_no_bulk_scan(prog, run, rule_id="L4"):
    lexer = prog.get_class(LEXER, "Lexer")
    # ---- L4 the cursor only moves over characters that were classified
    r = run.rule(rule_id, "Lexer methods never move the cursor by a bulk search over the source (str.find/index/rfind/rindex/split/"
                       "splitlines/partition/rpartition/strip..., re.*): every character consumed is read and classified "
                       "individually, so characters the grammar forbids cannot be skipped and every line terminator the grammar "
                       "names ends a comment", 12)
    BULK = {"find", "index", "rfind", "rindex", "split", "rsplit", "splitlines", "partition", "rpartition", "strip", "lstrip", "rstrip",
            "startswith", "endswith", "count", "replace", "translate"}
    seen = set()
    for name, m in lexer.methods.items():
        if id(m) in seen:
            continue
        seen.add(id(m))
        r.instance(m.qualname)
        for n in own_nodes(m.node):
            if isinstance(n, ast.Call) and isinstance(n.func, ast.Attribute):
                recv = ast.unparse(n.func.value)
                if n.func.attr in BULK and ("_source" in recv or recv == "source") and n.func.attr not in ("startswith", "endswith"):
                    run.report(r, "%s:%s:bulk-scan(%s)" % (LEXER, m.qualname, " ".join(ast.unparse(n).split())), m.where(n),
                               "`%s` moves over source characters without classifying them: forbidden control characters inside the "
                               "skipped region are accepted and a lone CR no longer terminates it" % " ".join(ast.unparse(n).split()))
                compiled = isinstance(n.func.value, ast.Name) and n.func.attr in ("match", "search", "fullmatch", "finditer", "findall", "sub", "subn", "split") \
                    and (lambda rr: bool(rr) and rr[0] == "assign" and isinstance(rr[1], ast.Call) and ast.unparse(rr[1].func) in ("re.compile", "compile"))(
                        prog.resolve_name(m.module, n.func.value.id))
                if compiled or (isinstance(n.func.value, ast.Name) and n.func.value.id == "re"):
                    run.report(r, "%s:%s:regex-scan(%s)" % (LEXER, m.qualname, " ".join(ast.unparse(n).split())), m.where(n),
                               "a regular expression scans the source in the lexer: its character classes are not checked against the lexical grammar")
