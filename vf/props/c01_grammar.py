"""C01.G1 / G2 — token-level language of the parser vs the reference grammar."""
import ast

from .. import extract, rx
from ..model import AnalysisError, own_nodes
from ..spec import grammar as ref

PARSER = "py_gql.lang.parser"


def normalise(r, first, dead):
    """Replace anchor symbols that carry look-ahead knowledge: knowledge ⊇ FIRST(anchor) -> plain anchor,
    disjoint -> dead path, partial overlap -> analysis error."""
    k = r[0]
    if k == "sym":
        atoms = set()
        for a in r[1]:
            if isinstance(a, tuple) and a and a[0] == "NT" and len(a) > 3:
                key = (a[1], a[2])
                know = a[4]
                if first[key] <= know:
                    atoms.add(("NT", a[1], a[2]))
                elif not (first[key] & know):
                    dead.append(key)
                else:
                    raise AnalysisError("C01.G1: anchor %s is entered with look-ahead knowledge that only partially overlaps its FIRST set" % (key,))
            else:
                atoms.add(a)
        return rx.sym(atoms, r[2])
    if k == "cat":
        return rx.cat(*[normalise(x, first, dead) for x in r[1]])
    if k == "alt":
        return rx.alt(*[normalise(x, first, dead) for x in r[1]])
    if k == "star":
        return rx.star(normalise(r[1], first, dead))
    return r


def atom_text(a, g):
    if isinstance(a, tuple) and a[0] == "NT":
        name = {"parse_selection_set": "<SelectionSet>", "parse_type_reference": "<Type>"}.get(a[1])
        if name is None:
            name = "<Value[Const]>" if a[2] == (True,) else "<Value>"
        return name
    if isinstance(a, tuple):
        cls, val = a
        if val == extract.OTHER:
            return {"Name": "name", "String": '"str"', "BlockString": '"""str"""', "Integer": "1", "Float": "1.0"}.get(cls, cls)
        return {"Name": val, "String": '"%s"' % val, "BlockString": '"""%s"""' % val}.get(cls, "%s[%s]" % (cls, val))
    tv = {"SOF": "<SOF>", "EOF": "<EOF>", "ExclamationMark": "!", "Dollar": "$", "ParenOpen": "(", "ParenClose": ")", "BracketOpen": "[",
          "BracketClose": "]", "CurlyOpen": "{", "CurlyClose": "}", "Colon": ":", "Equals": "=", "At": "@", "Pipe": "|", "Ampersand": "&", "Ellip": "..."}
    return tv.get(a, str(a))


def check(prog, run):
    g = extract.Grammar(prog)
    try:
        R = ref.Reference(g)
    except KeyError as e:
        raise AnalysisError("C01.G1: %s" % e)
    first = R.first()
    alphabet = sorted(g.atoms, key=str) + [("NT",) + k for k in first]

    r = run.rule("G1", "for each entry point and flag combination, and for each recursion anchor (SelectionSet, Value[Const], "
                       "Value, Type), the token language accepted by the parser (extracted by abstract interpretation of "
                       "Parser.parse_* into a regular expression, everything inlined except the anchors) equals the June-2018 "
                       "grammar + documented extensions (reference regular expressions); decided by product-DFA equivalence with a "
                       "shortest distinguishing token string as witness", 10)
    jobs = []
    base_cfg = dict(_allow_type_system=False, _experimental_fragment_variables=False)
    jobs.append(("SelectionSet", "parse_selection_set", (), base_cfg, R.selection_set(), "method"))
    jobs.append(("Value[Const]", "parse_value_literal", (True,), base_cfg, R.value(True), "method"))
    jobs.append(("Value", "parse_value_literal", (False,), base_cfg, R.value(False), "method"))
    jobs.append(("Type", "parse_type_reference", (), base_cfg, R.type_reference(), "method"))
    for ats in (False, True):
        for fv in (False, True):
            cfg = dict(_allow_type_system=ats, _experimental_fragment_variables=fv)
            jobs.append(("Document[allow_type_system=%s, experimental_fragment_variables=%s]" % (ats, fv), "parse_document", (), cfg, R.document(ats, fv), "method"))
    jobs.append(("parse_value()", "parse_value", (), base_cfg, R.standalone_value(), "function"))
    jobs.append(("parse_type()", "parse_type", (), base_cfg, R.standalone_type(), "function"))
    for label, name, args, cfg, reference, kind in jobs:
        it = extract.Interp(g, cfg)
        try:
            impl = it.method_rx(name, args) if kind == "method" else it.function_rx(name)
        except extract.Unsupported as e:
            raise AnalysisError("C01.G1: cannot extract %s: %s" % (label, e))
        dead = []
        impl = normalise(impl, first, dead)
        res = rx.equivalent(impl, reference, alphabet)
        r.instance("%s: %s" % (label, "equivalent" if res is None else "DIFFERS"))
        if res is not None:
            witness, side = res
            text = " ".join(atom_text(a, g) for a in witness)
            what = ("accepted by the parser but not derivable from the grammar" if side == "impl-only"
                    else "derivable from the grammar but rejected by the parser")
            run.report(r, "%s:Parser:%s:%s(%s)" % (PARSER, label, side, text), "src/py_gql/lang/parser.py",
                       "%s: the token string `%s` is %s" % (label, text, what), {"witness": [str(a) for a in witness], "side": side})

    # ---- L2 character-level language of one lexer call
    from .. import lexextract
    from ..spec import lexical
    r = run.rule("L2", "the character language of one Lexer.__next__ call (ignored characters, one token, what the lexer then "
                       "knows about the next character, and the class of the token returned), extracted by abstract "
                       "interpretation of the lexer into a regular expression over character classes, equals the "
                       "specification's lexical grammar (maximal munch, the documented look-ahead restriction after numbers, "
                       "escape and block-string rules); decided by product-DFA equivalence with a shortest witness", 1)
    A = lexextract.Alphabet(prog)
    li = lexextract.LexInterp(prog, A)
    try:
        limpl = li.token_language()
    except lexextract.Unsupported as e:
        raise AnalysisError("C01.L2: cannot extract the lexer: %s" % e)
    lref = lexical.LexReference(A).one_call()
    res = rx.equivalent(limpl, lref)
    r.instance("Lexer.__next__ over %d character classes (str predicates in use: %s): %s" % (len(A.chars), A.preds or "none", "equivalent" if res is None else "DIFFERS"))
    if res is not None:
        witness, side = res
        shown = []
        for a in witness:
            if isinstance(a, tuple) and a[0] == "la":
                shown.append("<next: %s>" % A.show(a[1]))
            elif isinstance(a, tuple) and a[0] == "ret":
                shown.append("=> %s" % a[1])
            else:
                shown.append(A.show(a))
        text = " ".join(shown)
        what = ("is lexed this way by the implementation but not by the lexical grammar" if side == "impl-only"
                else "is a valid lexing by the lexical grammar that the implementation rejects (or lexes differently)")
        run.report(r, "%s:Lexer.__next__:%s(%s)" % (lexextract.LEXER, side, text), "src/py_gql/lang/lexer.py",
                   "character sequence `%s` %s" % (text, what), {"witness": [str(a) for a in witness], "side": side})

    # ---- G2 primitive contracts
    r = run.rule("G2", "parser primitives have their contract languages: expect(K)=K, expect_keyword(w)=Name[w], skip(K)=K?, "
                       "many(o,f,c)=o f+ c, any_(o,f,c)=o f* c, delimited_list(d,f)=d? f (d f)*; advance/peek window never loses or "
                       "duplicates a token", 6)
    prim = {
        "many": lambda o, f, c: rx.cat(o, rx.plus(f), c),
        "any_": lambda o, f, c: rx.cat(o, rx.star(f), c),
    }
    # many / any_ / delimited_list are interpreted themselves with symbolic arguments: a probe method is synthesised
    # by interpreting the combinator body with concrete token classes and a known one-token parse function.
    it = extract.Interp(g, base_cfg)
    o, c, d = rx.sym(g.cls_atoms("BracketOpen")), rx.sym(g.cls_atoms("BracketClose")), rx.sym(g.cls_atoms("Pipe"))
    f = rx.sym(g.cls_atoms("Name"))
    probes = [
        ("many", [("cls", "BracketOpen"), ("fn", "parse_name", ()), ("cls", "BracketClose")], rx.cat(o, rx.plus(f), c)),
        ("any_", [("cls", "BracketOpen"), ("fn", "parse_name", ()), ("cls", "BracketClose")], rx.cat(o, rx.star(f), c)),
        ("delimited_list", [("cls", "Pipe"), ("fn", "parse_name", ())], rx.cat(rx.opt(d), f, rx.star(rx.cat(d, f)))),
    ]
    for name, args, want in probes:
        try:
            impl = it.method_rx(name, tuple(args))
        except extract.Unsupported as e:
            raise AnalysisError("C01.G2: cannot extract %s: %s" % (name, e))
        res = rx.equivalent(impl, want, alphabet)
        r.instance("%s: %s" % (name, "contract holds" if res is None else "DIFFERS"))
        if res is not None:
            witness, side = res
            text = " ".join(atom_text(a, g) for a in witness)
            run.report(r, "%s:Parser.%s:contract(%s:%s)" % (PARSER, name, side, text), "src/py_gql/lang/parser.py",
                       "%s([, parse_name, ]) %s `%s`" % (name, "accepts" if side == "impl-only" else "rejects", text))
    # expect / expect_keyword / skip / peek / advance: structural contracts (the extractor treats them as primitives)
    P = g.cls
    checks = {
        "expect": lambda m: _returns_advance_iff(m, "next_token.__class__ is kind"),
        "expect_keyword": lambda m: _returns_advance_iff(m, "next_token.__class__ is Name and next_token.value == keyword"),
        "skip": _skip_contract,
        "peek": _peek_contract,
        "advance": _advance_contract,
    }
    for name, fn in checks.items():
        m = P.find_method(name)
        if m is None:
            raise AnalysisError("C01.G2: Parser.%s not found" % name)
        ok, why = fn(m)
        r.instance("%s: %s" % (name, "contract holds" if ok else why))
        if not ok and name in ("peek", "advance"):
            # the token window is the extractor's trusted primitive: its body is matched structurally, so a rewrite cannot be
            # told from a defect here -> the analysis refuses to run (exit 2) instead of claiming a violation
            raise AnalysisError("C01.G2: Parser.%s no longer has the shape the recogniser extraction assumes (%s); re-confirm the "
                                "window model in vf/extract.py" % (name, why))
        if not ok:
            run.report(r, "%s:Parser.%s:contract" % (PARSER, name), m.where(), "Parser.%s does not have its contract: %s" % (name, why))


def _norm(e):
    return " ".join(ast.unparse(e).split())


def _class_atom_kind(text, what):
    """Classify an atom of a primitive's guard: 'class' (class of the peeked token vs `what`), 'value' (token value vs keyword)."""
    t = text.replace(" ", "")
    if ("__class__" in t or t.startswith("isinstance(") or "type(" in t) and what in t:
        return "class"
    if ".value" in t and "keyword" in t:
        return "value"
    return None


def _exits_under(m, decide):
    from .. import boolx
    try:
        _ev, exits = boolx.walk_under(m.node, decide)
    except ValueError as e:
        raise AnalysisError("C01.G2: %s" % e)
    out = []
    for kind, st, env in exits:
        calls = [ast.unparse(c.func) for c in env.get(boolx.CALLS, ())]
        if kind == "return" and st is not None and st.value is not None:
            # what the return statement denotes on this execution (named intermediate steps seen through)
            st = ast.Return(value=boolx.path_expand(env.get(boolx.STMTS, ()), st, st.value, {}), lineno=st.lineno, col_offset=st.col_offset)
        out.append((kind, st, calls))
    return out


def _returns_advance_iff(m, cond_text):
    """expect / expect_keyword: when every guard atom holds the function advances once and returns that token; otherwise it raises
    without advancing (decided by a path-consistent walk over the guard atoms, whatever the shape of the test)."""
    what = "keyword" if "keyword" in m.params else "kind"
    cls_target = "Name" if what == "keyword" else "kind"
    atoms = set()
    for n in ast.walk(m.node):
        if isinstance(n, (ast.If, ast.IfExp)):
            from .. import boolx
            for a in boolx.atoms(n.test):
                if _class_atom_kind(a, cls_target) or _class_atom_kind(a, "keyword"):
                    atoms.add(a)
    if not atoms or not any(_class_atom_kind(a, cls_target) == "class" for a in atoms):
        return False, "no test of the next token's class against %s" % cls_target
    if what == "keyword" and not any(_class_atom_kind(a, "keyword") == "value" for a in atoms):
        return False, "no test of the next token's value against the keyword"
    import itertools
    names = sorted(atoms)
    for vals in itertools.product([True, False], repeat=len(names)):
        env = dict(zip(names, vals))
        exits = _exits_under(m, lambda t: env.get(t))
        for kind, st, calls in exits:
            adv = calls.count("self.advance")
            if all(vals):
                if kind != "return" or adv != 1 or st.value is None or "self.advance()" not in _norm(st.value):
                    return False, "with the guard true the primitive does not return one advance() (%s, %d advances)" % (kind, adv)
            else:
                if kind != "raise" or adv:
                    return False, "with %s the primitive %s%s instead of raising without consuming" % (
                        ", ".join("%s=%s" % kv for kv in env.items()), "returns" if kind != "raise" else "raises", " after advancing" if adv else "")
    return True, ""


def _skip_contract(m):
    """skip(kind): advances once and returns True iff the next token's class is kind, else returns False without advancing."""
    from .. import boolx
    atoms = set()
    for n in ast.walk(m.node):
        if isinstance(n, (ast.If, ast.IfExp)):
            for a in boolx.atoms(n.test):
                if _class_atom_kind(a, "kind") == "class":
                    atoms.add(a)
    if not atoms:
        return False, "no test of the next token's class against kind"
    for val in (True, False):
        for kind, st, calls in _exits_under(m, lambda t: val if t in atoms else None):
            adv = calls.count("self.advance")
            ret = st.value.value if (kind == "return" and isinstance(st.value, ast.Constant)) else None
            if kind != "return" or ret is not val or adv != (1 if val else 0):
                return False, "class test %s: %s %r after %d advance() calls (expected return %s after %d)" % (val, kind, ret, adv, val, 1 if val else 0)
    return True, ""


def _peek_contract(m):
    """peek(count): fills the window by count - len(buffer) when that is non-zero, then returns buffer[-count]
    (compared on canonical expressions: local names such as `delta` do not matter)."""
    from ..canon import Canon
    cn = Canon(m.node)
    rets = [n for n in own_nodes(m.node) if isinstance(n, ast.Return)]
    short = "count - len(self._buffer)"
    tests_ok = {short, short + " != 0", short + " > 0", "len(self._buffer) < count", "count > len(self._buffer)", "len(self._buffer) != count"}
    ifs = [n for n in own_nodes(m.node) if isinstance(n, ast.If)]
    fills = [c for i in ifs if cn.text(i.test) in tests_ok for st in i.body for c in ast.walk(st)
             if isinstance(c, ast.Call) and cn.func_text(c) == "self._advance_window"
             and [(k.arg, cn.text(k.value)) for k in c.keywords] + [(None, cn.text(a)) for a in c.args] in ([("by", short)], [(None, short)])]
    ok = len(rets) == 1 and rets[0].value is not None and cn.text(rets[0].value) == "self._buffer[-count]" and len(ifs) == 1 and len(fills) == 1
    return ok, "peek(count) must fill the window to `count` tokens and return self._buffer[-count]"


def _advance_contract(m):
    txt = _norm(m.node)
    ok = "if not self._buffer: self._advance_window()" in txt and "self._last = self._buffer.pop()" in txt and "return self._last" in txt
    return ok, "advance() must fill an empty window, pop the oldest token into _last and return it"
