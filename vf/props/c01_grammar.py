"""C01.G1/G2/L2 — recogniser extraction (filled in by the E2 engine)."""


def check(prog, run):
    return
