"""C02 — parsed trees mirror the source: spans, constructor completeness,
verbatim numbers, escape table, block-string character classes."""
import ast

from .. import nodeshape, shapes, lexrules, cfg
from ..model import AnalysisError, own_nodes, norm_stmt

PARSER = "py_gql.lang.parser"
CONSUMERS = {"advance", "expect", "expect_keyword", "skip", "many", "any_", "delimited_list"}


def _is_self_call(n, names=None):
    return isinstance(n, ast.Call) and isinstance(n.func, ast.Attribute) and isinstance(n.func.value, ast.Name) \
        and n.func.value.id == "self" and (names is None or n.func.attr in names)


def _consumes(expr):
    for n in ast.walk(expr):
        if _is_self_call(n) and (n.func.attr in CONSUMERS or n.func.attr.startswith("parse_")):
            return True
    return False


def _single_defs(fi, name):
    return [n for n in own_nodes(fi.node) if isinstance(n, ast.Assign) and any(
        isinstance(t, ast.Name) and t.id == name for t in n.targets)]


def check(prog, run):
    from . import c01 as _c01
    _c01.check_no_bulk_scan(prog, run, "L5")   # = C01.L4: a region skipped by a bulk search drops the nodes written in it
    ncs = nodeshape.node_classes(prog)
    cons = nodeshape.parser_constructions(prog)
    parser = prog.get_class(PARSER, "Parser")

    # ---- S2 constructor completeness
    r = run.rule("S2", "every node construction in the parser supplies every constructor parameter of the class "
                       "(incl. source= and loc=), and every constructor parameter is a declared slot", 43)
    for c in cons:
        run.looked_at(c.fi)
        nc = ncs.get(c.cls)
        if nc is None:
            raise AnalysisError("parser constructs unknown node class %s" % c.cls)
        r.instance("%s builds %s(%s)" % (c.fi.qualname, c.cls, ", ".join(sorted(c.keywords))))
        if c.positional:
            continue
        for p in nc.params:
            if p not in c.keywords:
                run.report(r, "%s:%s:missing-keyword(%s.%s)" % (PARSER, c.fi.qualname, c.cls, p), c.fi.where(c.call),
                           "%s builds %s without %s=: the node does not carry it (default used)" % (c.fi.qualname, c.cls, p))
    for name, nc in sorted(ncs.items()):
        r.instance("slots of %s cover its constructor parameters" % name)
        for p in nc.params:
            if nc.own_slots is not None and p not in nc.own_slots:
                run.report(r, "py_gql.lang.ast:%s:param-not-slot(%s)" % (name, p), nc.init.where(),
                           "%s.__init__ stores %s but __slots__ lacks it: the attribute is invisible to copy()/__eq__/to_dict"
                           % (name, p))

    # ---- S1 spans
    r = run.rule("S1", "each construction's loc is self._loc(t) where t is bound by the production's first parser call "
                       "(peek() before any consumption, or the first consuming call itself) and no token is consumed after "
                       "_loc(...) is evaluated; _loc spans (t.start, last consumed token end); advance is the only writer of _last", 43)
    for c in cons:
        locv = c.keywords.get("loc")
        if locv is None:
            continue
        r.instance("%s: %s loc=%s" % (c.fi.qualname, c.cls, ast.unparse(locv)))
        key = "%s:%s:loc(%s)" % (PARSER, c.fi.qualname, c.cls)
        if isinstance(locv, ast.Name):
            # loc computed into a local first: the evaluation point is that assignment
            ldefs = _single_defs(c.fi, locv.id)
            if len(ldefs) == 1:
                locv = ldefs[0].value
        if not (_is_self_call(locv, {"_loc"}) and len(locv.args) == 1 and isinstance(locv.args[0], ast.Name)):
            run.report(r, key, c.fi.where(c.call), "loc of %s is not self._loc(<token variable>)" % c.cls)
            continue
        tok = locv.args[0].id
        # binding of the token variable
        s_call = None
        if tok not in c.fi.params:
            binds = _single_defs(c.fi, tok)
            if len(binds) != 1:
                run.report(r, key + ":start-binding", c.fi.where(c.call), "start token %s of %s is bound %d times" % (tok, c.cls, len(binds)))
                continue
            b = binds[0]
            v = b.value
            for _hop in range(3):       # `start = first` where `first` is itself bound once: the binding is that of `first`
                if isinstance(v, ast.Name) and v.id not in c.fi.params:
                    inner = _single_defs(c.fi, v.id)
                    if len(inner) == 1:
                        b, v = inner[0], inner[0].value
                        continue
                break
            ok_form = _is_self_call(v, {"peek"}) and not v.args and not v.keywords
            ok_form = ok_form or _is_self_call(v, {"expect", "advance", "expect_keyword"})
            if not ok_form:
                run.report(r, key + ":start-binding", c.fi.where(b), "start token of %s is bound by `%s`, not by peek()/expect()/advance()"
                           % (c.cls, norm_stmt(b)))
                continue
            s_call = v
        # typestate over every path: (start captured, _loc evaluated and node not yet built)
        bad = {}

        def transfer(state, node, kind, s_call=s_call, l_call=locv, k_call=c.call, bad=bad):
            if kind in ("def", "handler"):
                return [state]
            started, pending = state
            for n in cfg._postorder(node):
                if n is s_call:
                    started = True
                elif n is l_call:
                    pending = True
                elif n is k_call:
                    pending = False
                elif _is_self_call(n) and (n.func.attr in CONSUMERS or n.func.attr.startswith("parse_")):
                    if not started:
                        bad.setdefault("before", n)
                    if pending:
                        bad.setdefault("after", n)
            return [(started, pending)]

        cfg.Flow(transfer).run(c.fi.node, {(s_call is None, False)})
        if "after" in bad:
            run.report(r, key + ":consumes-after-loc", c.fi.where(bad["after"]),
                       "`%s` consumes tokens after _loc(%s) was evaluated and before %s is built: the span of %s ends too early"
                       % (norm_stmt(bad["after"]), tok, c.cls, c.cls))
        if "before" in bad:
            run.report(r, key + ":consumes-before-start", c.fi.where(bad["before"]),
                       "`%s` consumes tokens before the start token of %s is captured: the span starts too late"
                       % (norm_stmt(bad["before"]), c.cls))
    init = parser.find_method("__init__")
    lam = None
    for n in ast.walk(init.node):
        if isinstance(n, ast.Assign) and any(isinstance(t, ast.Attribute) and t.attr == "_loc" for t in n.targets):
            lam = n.value
    shapes.require(lam is not None, "C02.S1: Parser._loc assignment not found")
    r.instance("_loc definition `%s`" % " ".join(ast.unparse(lam).split()))
    lambdas = [n for n in ast.walk(lam) if isinstance(n, ast.Lambda)]
    spans = [l for l in lambdas if isinstance(l.body, ast.Tuple)]
    nones = [l for l in lambdas if isinstance(l.body, ast.Constant) and l.body.value is None]
    if len(spans) != 1 or len(nones) != 1 or not isinstance(lam, ast.IfExp):
        run.report(r, "%s:Parser.__init__:_loc-shape" % PARSER, init.where(lam), "_loc is not `None-lambda if no_location else span-lambda`")
    else:
        sp = spans[0]
        arg = sp.args.args[0].arg
        want = ("%s.start" % arg, "self._last.end")
        got = tuple(ast.unparse(e) for e in sp.body.elts)
        if got != want:
            run.report(r, "%s:Parser.__init__:_loc-span" % PARSER, init.where(sp), "span is %s, expected %s" % (got, want))
        test = ast.unparse(lam.test)
        chosen_when_true = lam.body
        if test == "no_location" and chosen_when_true is not nones[0] and nones[0] not in list(ast.walk(chosen_when_true)):
            run.report(r, "%s:Parser.__init__:_loc-flag" % PARSER, init.where(lam), "no_location selects the span lambda")
    writers = []
    for name, m in parser.methods.items():
        for n in own_nodes(m.node):
            if isinstance(n, ast.Attribute) and n.attr == "_last" and isinstance(n.ctx, ast.Store):
                writers.append((m, n))
    r.instance("writers of _last: %s" % sorted({m.qualname for m, _ in writers}))
    for m, n in writers:
        if m.name != "advance":
            run.report(r, "%s:%s:writes-_last" % (PARSER, m.qualname), m.where(n), "%s writes self._last (only advance may)" % m.qualname)
    adv = parser.find_method("advance")
    # path form: every returning execution of advance takes exactly one token out of the buffer, records that very token as
    # self._last and returns it (directly, through a local, or by reading self._last back)
    from .. import boolx
    try:
        _ev, aexits = boolx.walk_under(adv.node, lambda t: None)
    except ValueError as e:
        raise AnalysisError("C02.S1: Parser.advance: %s" % e)
    n_ret = 0
    for kind, st, env in aexits:
        if kind != "return":
            continue
        n_ret += 1
        stmts = env.get(boolx.STMTS, ())
        penv = boolx.path_env(stmts, st)
        pops_ = [c for c in env.get(boolx.CALLS, ()) if isinstance(c.func, ast.Attribute) and c.func.attr in ("pop", "popleft") and ast.unparse(c.func.value) == "self._buffer"]
        stored = [" ".join(ast.unparse(boolx.path_subst(x.value, boolx.path_env(stmts, x))).split()) for x in stmts
                  if isinstance(x, ast.Assign) and any(ast.unparse(t) == "self._last" for t in x.targets)]
        ret = " ".join(ast.unparse(boolx.path_subst(st.value, penv)).split()) if st.value is not None else None
        ok = len(pops_) == 1 and len(stored) == 1 and stored[0] == " ".join(ast.unparse(pops_[0]).split()) and ret in ("self._last", stored[0])
        if not ok:
            run.report(r, "%s:Parser.advance:shape" % PARSER, adv.where(st), "advance does not set _last to the popped token and return it "
                       "(pops: %d, stored into _last: %s, returned: %s)" % (len(pops_), stored, ret))
            break
    shapes.require(n_ret >= 1, "C02.S1: Parser.advance has no returning execution")

    # ---- S4 the span end: every token taken out of the look-ahead buffer is recorded as the last consumed token
    r = run.rule("S4", "in every Parser method, a token leaves the look-ahead buffer (`self._buffer.pop()/popleft()/remove()/clear()`, "
                       "`del self._buffer[...]`, re-binding `self._buffer` outside __init__) only in a statement that records it as "
                       "`self._last` (directly or through a local assigned to `self._last` in the same block): `_loc` ends every span at "
                       "`self._last.end`, so a token consumed behind its back leaves the span of the node - and of every node ending "
                       "there - short", 1)
    seen = set()
    for name, m in parser.methods.items():
        if id(m) in seen:
            continue
        seen.add(id(m))
        for n in own_nodes(m.node):
            what = None
            if isinstance(n, ast.Call) and isinstance(n.func, ast.Attribute) and n.func.attr in ("pop", "popleft", "remove", "clear") \
                    and ast.unparse(n.func.value) == "self._buffer":
                what = n
            elif isinstance(n, ast.Delete) and any("self._buffer" in ast.unparse(t) for t in n.targets):
                what = n
            elif isinstance(n, (ast.Assign, ast.AugAssign)) and m.name != "__init__" and any(
                    ast.unparse(t) == "self._buffer" for t in (n.targets if isinstance(n, ast.Assign) else [n.target])):
                what = n
            if what is None:
                continue
            st = what
            while not isinstance(st, ast.stmt):
                st = st._parent
            ok = False
            if isinstance(what, ast.Call) and what.func.attr in ("pop", "popleft") and isinstance(st, ast.Assign) and st.value is what:
                if any(ast.unparse(t) == "self._last" for t in st.targets):
                    ok = True
                elif len(st.targets) == 1 and isinstance(st.targets[0], ast.Name):
                    blk = next((b for b in (getattr(st._parent, f, None) for f in ("body", "orelse", "finalbody")) if isinstance(b, list) and st in b), [])
                    for later in blk[blk.index(st) + 1:] if blk else []:
                        if isinstance(later, ast.Assign) and any(ast.unparse(t) == "self._last" for t in later.targets) \
                                and isinstance(later.value, ast.Name) and later.value.id == st.targets[0].id:
                            ok = True
                            break
                        if isinstance(later, (ast.Return, ast.Raise, ast.If, ast.For, ast.While, ast.Try)):
                            break
            r.instance("%s: `%s` recorded as _last: %s" % (m.qualname, norm_stmt(st), ok))
            if not ok:
                run.report(r, "%s:%s:unrecorded-consumption" % (PARSER, m.qualname), m.where(st),
                           "`%s` takes a token out of the look-ahead buffer without recording it as `self._last`: the span of the node "
                           "being built (and of every enclosing node that ends with this token) stops at the previous token"
                           % norm_stmt(st))

    # ---- S3 no reordering
    r = run.rule("S3", "no sorted/reversed/set/dict.fromkeys/negative-step slice is applied to anything inside Parser methods "
                       "(containers keep source order)", 40)
    seen = set()
    for name, m in parser.methods.items():
        if id(m) in seen:
            continue
        seen.add(id(m))
        r.instance(m.qualname)
        for n in own_nodes(m.node):
            bad = None
            if isinstance(n, ast.Call) and isinstance(n.func, ast.Name) and n.func.id in ("sorted", "reversed", "set", "frozenset"):
                bad = n.func.id + "()"
            if isinstance(n, ast.Call) and isinstance(n.func, ast.Attribute) and n.func.attr in ("sort", "reverse", "fromkeys"):
                bad = "." + n.func.attr + "()"
            if isinstance(n, ast.Subscript) and isinstance(n.slice, ast.Slice) and n.slice.step is not None and ast.unparse(n.slice.step).startswith("-"):
                bad = "negative-step slice"
            if isinstance(n, ast.Call) and isinstance(n.func, ast.Attribute) and n.func.attr == "insert" and n.args \
                    and isinstance(n.args[0], ast.Constant) and n.args[0].value == 0:
                bad = ".insert(0, ...)"
            if isinstance(n, ast.Call) and isinstance(n.func, ast.Attribute) and n.func.attr == "appendleft" and m.name not in ("_advance_window",):
                bad = ".appendleft()"
            if bad:
                run.report(r, "%s:%s:reorders(%s)" % (PARSER, m.qualname, bad), m.where(n), "%s in %s may reorder parsed items: `%s`"
                           % (bad, m.qualname, norm_stmt(n)))

    # ---- V1 verbatim numbers
    r = run.rule("V1", "Integer/Float tokens carry the verbatim source slice [start:end] with start captured before the "
                       "first consumption and end after the last; IntValue/FloatValue receive token.value unchanged", 4)
    lexer = prog.get_class(lexrules.LEXER, "Lexer")
    rn = lexer.find_method("_read_number")
    shapes.require(rn is not None, "C02.V1: Lexer._read_number not found")
    run.looked_at(rn)
    # the capture: the first statement of the body that touches the cursor at all (statements before it that neither read nor move
    # `self._position` - a flag initialisation, a docstring - do not matter)
    def _touches_cursor(st):
        return any((isinstance(x, ast.Attribute) and x.attr == "_position") or (_is_self_call(x) and x.func.attr.startswith("_read"))
                   for x in ast.walk(st))
    first = next((st for st in rn.node.body if _touches_cursor(st)), rn.node.body[0])
    r.instance("start capture `%s`" % norm_stmt(first))
    if not (isinstance(first, ast.Assign) and ast.unparse(first.value) == "self._position" and isinstance(first.targets[0], ast.Name)):
        run.report(r, "%s:Lexer._read_number:start-capture" % lexrules.LEXER, rn.where(first), "the first statement does not capture self._position")
        startv = None
    else:
        startv = first.targets[0].id
    for n in own_nodes(rn.node):
        if isinstance(n, ast.Call) and isinstance(n.func, ast.Name) and n.func.id in ("Integer", "Float"):
            r.instance("token construction `%s`" % ast.unparse(n))
            if len(n.args) != 3:
                run.report(r, "%s:Lexer._read_number:token-args(%s)" % (lexrules.LEXER, n.func.id), rn.where(n), "unexpected arguments")
                continue
            a_start, a_end, a_val = n.args
            defs = {x.targets[0].id: x for x in own_nodes(rn.node) if isinstance(x, ast.Assign) and isinstance(x.targets[0], ast.Name)}
            vdef = defs.get(a_val.id) if isinstance(a_val, ast.Name) else None
            ok = vdef is not None and isinstance(vdef.value, ast.Subscript) and ast.unparse(vdef.value.value) == "self._source" \
                and isinstance(vdef.value.slice, ast.Slice) and ast.unparse(vdef.value.slice.lower or ast.Constant(0)) == (startv or "?") \
                and vdef.value.slice.upper is not None and vdef.value.slice.step is None
            if ok:
                endname = ast.unparse(vdef.value.slice.upper)
                edef = defs.get(endname)
                ok = (endname == "self._position") or (edef is not None and ast.unparse(edef.value) == "self._position")
                if ok and edef is not None:
                    # nothing moves the cursor after `end` was captured
                    for x in own_nodes(rn.node):
                        if isinstance(x, ast.AugAssign) and ast.unparse(x.target) == "self._position" and x.lineno > edef.lineno:
                            ok = False
                        if _is_self_call(x) and x.func.attr.startswith("_read") and x.lineno > edef.lineno:
                            ok = False
                if ast.unparse(a_start) != startv or ast.unparse(a_end) not in (endname, "self._position"):
                    ok = False
            if not ok:
                run.report(r, "%s:Lexer._read_number:verbatim(%s)" % (lexrules.LEXER, n.func.id), rn.where(n),
                           "the %s token's value is not the source slice from the captured start to the final cursor" % n.func.id)
    for c in cons:
        if c.cls in ("IntValue", "FloatValue"):
            v = c.keywords.get("value")
            r.instance("%s value=%s" % (c.cls, ast.unparse(v) if v is not None else None))
            src = v
            if isinstance(v, ast.Name):
                defs = [x for x in own_nodes(c.fi.node) if isinstance(x, ast.Assign) and isinstance(x.targets[0], ast.Name) and x.targets[0].id == v.id]
                src = defs[0].value if len(defs) == 1 else None
            if not (isinstance(src, ast.Attribute) and src.attr == "value" and isinstance(src.value, ast.Name)):
                run.report(r, "%s:%s:number-value(%s)" % (PARSER, c.fi.qualname, c.cls), c.fi.where(c.call),
                           "%s.value is not the token's value unchanged (`%s`)" % (c.cls, ast.unparse(v) if v is not None else None))

    # ---- V2 escape table and \\uXXXX pipeline
    r = run.rule("V2", "QUOTED_CHARS equals the specification's escape table; \\uXXXX decodes through chr(int(hex4, 16))", 9)
    quoted = prog.fold_name(lexrules.LEXER, "QUOTED_CHARS")
    for k in sorted(set(quoted) | set(lexrules.SPEC_ESCAPES)):
        r.instance("escape \\%s -> %r" % (k, quoted.get(k)))
        if quoted.get(k) != lexrules.SPEC_ESCAPES.get(k):
            run.report(r, "%s:QUOTED_CHARS:entry(%s)" % (lexrules.LEXER, k), lexrules.LEXER.replace(".", "/"),
                       "escape \\%s decodes to %r, specification says %r" % (k, quoted.get(k), lexrules.SPEC_ESCAPES.get(k)))
    eu = lexer.find_method("_read_escaped_unicode")
    shapes.require(eu is not None, "C02.V2: _read_escaped_unicode not found")
    run.looked_at(eu)
    conv = [n for n in own_nodes(eu.node) if isinstance(n, ast.Call) and isinstance(n.func, ast.Name) and n.func.id == "chr"]
    r.instance("unicode escape conversion `%s`" % (ast.unparse(conv[0]) if conv else None))
    okc = False
    for c0 in conv:
        a = c0.args[0] if c0.args else None
        if isinstance(a, ast.Name):
            adefs = _single_defs(eu, a.id)
            a = adefs[0].value if len(adefs) == 1 else a
        if isinstance(a, ast.Call) and isinstance(a.func, ast.Name) and a.func.id == "int" and len(a.args) == 2 \
                and isinstance(a.args[1], ast.Constant) and a.args[1].value == 16:
            okc = True
    if not okc:
        run.report(r, "%s:Lexer._read_escaped_unicode:conversion" % lexrules.LEXER, eu.where(), "\\uXXXX is not decoded with chr(int(text, 16))")

    check_block_string_classes(prog, run, "B1", lexer)
    check_block_string_decoded(prog, run, "B2", lexer)


def check_block_string_classes(prog, run, rule_id, lexer):
    # ---- B1 block string character classes
    r = run.rule(rule_id, "parse_block_string and the lexer's string readers use no Unicode-aware str method "
                       "(splitlines, argument-less strip/lstrip/split, isspace, ...) on source text: only LF/CR/CRLF end "
                       "lines and only space/tab are blank", 2)
    pbs = prog.get_func(lexrules.STRUTILS, "parse_block_string")
    fns = [pbs] + [m for n, m in lexer.methods.items() if n in ("_read_block_string", "_read_string")]
    for f in fns:
        run.looked_at(f)
        r.instance(f.qualname)
        for n, name in lexrules.unicode_aware_calls(f.node):
            run.report(r, "%s:%s:unicode-aware(%s)" % (f.module.name, f.qualname, norm_stmt(n, 70)), f.where(n),
                       "`%s` treats non-ASCII characters (e.g. U+2028, U+0085, NBSP) as line breaks/blanks: block string "
                       "values are not decoded as specified" % norm_stmt(n))
    # line splitting construct, if a regex constant is used, folds to the three terminators
    for n in own_nodes(pbs.node):
        if isinstance(n, ast.Call) and isinstance(n.func, ast.Attribute) and n.func.attr == "split" and isinstance(n.func.value, ast.Name):
            m = pbs.module
            rr = prog.resolve_name(m, n.func.value.id)
            if rr and rr[0] == "assign" and isinstance(rr[1], ast.Call) and ast.unparse(rr[1].func) == "re.compile":
                pat = rr[1].args[0].value if rr[1].args and isinstance(rr[1].args[0], ast.Constant) else None
                r.instance("line separator regex %r" % pat)
                import re as _re
                ok = pat is not None
                if ok:
                    rx = _re.compile(pat)
                    for sample, want in (("a\nb", 2), ("a\rb", 2), ("a\r\nb", 2), ("a b", 1), ("a\x85b", 1), ("a\x0bb", 1), ("a\x0cb", 1), ("a\n\rb", 3)):
                        if len(rx.split(sample)) != want:
                            ok = False
                if not ok:
                    run.report(r, "%s:parse_block_string:line-separator" % lexrules.STRUTILS, pbs.where(n),
                               "the line separator %r does not split exactly at LF, CR and CRLF" % pat)


def check_block_string_decoded(prog, run, rule_id, lexer):
    """B2: the value of every BlockString token is parse_block_string(<raw content>) — on every path."""
    from .. import boolx
    r = run.rule(rule_id, "every path of Lexer._read_block_string that builds a BlockString token has passed the raw content through "
                          "parse_block_string (common-indent and blank-line stripping, CR / CRLF / LF line splitting): no fast path "
                          "hands the raw text to the token", 1)
    m = lexer.methods.get("_read_block_string")
    if m is None:
        raise AnalysisError("%s: Lexer._read_block_string not found" % rule_id)
    run.looked_at(m)
    try:
        _ev, exits = boolx.walk_under(m.node, lambda t: None)
    except ValueError as e:
        raise AnalysisError("%s: %s" % (rule_id, e))
    rets = [(st, env) for k, st, env in exits if k == "return" and st.value is not None
            and any(isinstance(x, ast.Call) and isinstance(x.func, ast.Name) and x.func.id == "BlockString" for x in ast.walk(st.value))]
    r.instance("_read_block_string: %d paths return a BlockString token" % len(rets))
    if not rets:
        raise AnalysisError("%s: no path of _read_block_string returns a BlockString token" % rule_id)
    for st, env in rets:
        if not any(isinstance(c.func, ast.Name) and c.func.id == "parse_block_string" for c in env.get(boolx.CALLS, ())):
            cond = ", ".join("%s=%s" % kv for kv in sorted(env.items()) if kv[0] not in boolx.META)
            run.report(r, "%s:Lexer._read_block_string:raw-value" % lexrules.LEXER, m.where(st),
                       "a BlockString token can be built without parse_block_string (when %s): its value keeps the raw indentation, "
                       "blank lines and CR line ends" % (cond or "always"))
            break
