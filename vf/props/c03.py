"""C03 — print ∘ parse identity: structural clauses on lang/printer.py."""
import ast

from .. import nodeshape, shapes
from ..model import AnalysisError, own_nodes, norm_stmt

PRINTER = "py_gql.lang.printer"
LEXER = "py_gql.lang.lexer"


def printer_registry(prog):
    pr = prog.get_class(PRINTER, "ASTPrinter")
    call = pr.find_method("__call__")
    regs = nodeshape.dispatch_registries(call)
    shapes.require(len(regs) == 1, "C03: ASTPrinter.__call__ no longer holds exactly one classdispatch registry")
    return pr, call, regs[0]


def check(prog, run):
    check_verbatim_literals(prog, run, "T2")
    ncs = nodeshape.node_classes(prog)
    constructions = nodeshape.parser_constructions(prog)
    built = sorted({c.cls for c in constructions})
    pr, call, reg = printer_registry(prog)
    run.looked_at(call)

    # ---- D1 dispatch exhaustiveness
    r = run.rule("D1", "ASTPrinter.__call__ registry has an entry for every node class the parser constructs, "
                       "each naming an existing print method", 40)
    keys = {}
    for cname, h, v in reg.entries:
        keys[cname] = h
    for cname in built:
        r.instance("parser builds %s -> printer %s" % (cname, keys.get(cname)))
        if cname not in keys:
            run.report(r, "%s:ASTPrinter.__call__:no-entry(%s)" % (PRINTER, cname), call.where(reg.call),
                       "the parser constructs %s but the printer registry has no entry: print_ast raises TypeError" % cname)
        elif keys[cname] is None or pr.find_method(keys[cname]) is None:
            run.report(r, "%s:ASTPrinter.__call__:dangling(%s)" % (PRINTER, cname), call.where(reg.call),
                       "registry entry for %s does not name a method of ASTPrinter" % cname)

    # ---- D2 every content slot is read
    r = run.rule("D2", "each print_X reads (directly or in helpers receiving the node) every content slot of X "
                       "(__slots__ minus loc/source), so nothing the parser stored is dropped", 40)
    for cname, h, v in reg.entries:
        if h is None or cname not in ncs:
            continue
        m = pr.find_method(h)
        if m is None:
            continue
        run.looked_at(m)
        params = m.params[1:]
        if not params:
            continue
        reads = shapes.attr_reads(prog, m, params[0])
        nc = ncs[cname]
        for slot in nc.content_slots:
            r.instance("%s.%s read by %s" % (cname, slot, h), nontrivial=True)
            if slot not in reads:
                if not [s for s in nc.content_slots]:
                    continue
                run.report(r, "%s:ASTPrinter.%s:unread(%s.%s)" % (PRINTER, h, cname, slot), m.where(),
                           "%s never reads %s.%s: that content is lost when the tree is printed" % (h, cname, slot),
                           {"reads": sorted(reads)})
    # helper that receives a child node instead of dispatching through self(...)
    r2 = run.rule("D3", "a helper that formats a child node directly (not through the dispatcher) reads every "
                        "content slot of the child's class", 1)
    for name, m in pr.methods.items():
        for a in m.node.args.args[1:]:
            kinds = nodeshape.ann_classes(a.annotation)
            if name.startswith("print_") or not kinds:
                continue
            for k in kinds:
                if k not in ncs:
                    continue
                reads = shapes.attr_reads(prog, m, a.arg)
                # only helpers that format the node's own content (read at least one content slot)
                if not (set(ncs[k].content_slots) & reads):
                    continue
                if len(kinds) > 1:
                    continue
                for slot in ncs[k].content_slots:
                    r2.instance("%s(%s: %s) reads .%s" % (name, a.arg, k, slot))
                    if slot not in reads:
                        run.report(r2, "%s:ASTPrinter.%s:unread(%s.%s)" % (PRINTER, name, k, slot), m.where(),
                                   "%s formats a %s without consulting .%s: a tree differing only there prints identically"
                                   % (name, k, slot), {"reads": sorted(reads)})

    # ---- E1 quoted string re-encoding
    r = run.rule("E1", "the quoted-string encoder emits only escapes the lexer decodes back to the same character "
                       "(per character class: ASCII printable, quote, backslash, control, BMP non-ASCII, astral)", 6)
    psv = pr.find_method("print_string_value")
    shapes.require(psv is not None, "C03.E1: print_string_value not found")
    run.looked_at(psv)
    enc = None
    for n in ast.walk(psv.node):
        if isinstance(n, ast.Call) and ast.unparse(n.func) == "json.dumps":
            enc = n
    quoted = prog.fold_name(LEXER, "QUOTED_CHARS")
    lexer = prog.get_class(LEXER, "Lexer")
    uni = lexer.find_method("_read_escaped_unicode")
    decodes_each_u_separately = uni is not None and not any(
        isinstance(n, ast.Call) and isinstance(n.func, ast.Attribute) and n.func.attr in ("encode", "decode") for n in ast.walk(uni.node))
    if enc is None:
        raise AnalysisError("C03.E1: quoted-string encoder is no longer json.dumps; encoder model needs updating")
    ensure_ascii = True
    for k in enc.keywords:
        if k.arg == "ensure_ascii" and isinstance(k.value, ast.Constant):
            ensure_ascii = bool(k.value.value)
    # json.dumps escape alphabet: \" \\ \n \r \t \b \f, \uXXXX for other controls (+ non-ASCII when ensure_ascii)
    json_short = {'"': '"', "\\": "\\", "n": "\n", "r": "\r", "t": "\t", "b": "\b", "f": "\f"}
    classes = [
        ("ascii-printable", "verbatim", True),
        ("quote", 'short escape \\"', quoted.get('"') == '"'),
        ("backslash", "short escape \\\\", quoted.get("\\") == "\\"),
        ("control", "short escapes n r t b f and \\u00XX", all(quoted.get(k) == v for k, v in json_short.items()) and uni is not None),
        ("bmp-non-ascii", "\\uXXXX" if ensure_ascii else "verbatim", (uni is not None) if ensure_ascii else True),
        ("astral", "surrogate pair \\uD8xx\\uDCxx" if ensure_ascii else "verbatim",
         (not decodes_each_u_separately) if ensure_ascii else True),
    ]
    for cls, how, ok in classes:
        r.instance("class %s encoded as %s -> round-trips: %s" % (cls, how, ok))
        if not ok:
            run.report(r, "%s:ASTPrinter.print_string_value:roundtrip(%s)" % (PRINTER, cls), psv.where(enc),
                       "characters of class %s are encoded as %s, which the lexer does not decode back to the same "
                       "character (each \\uXXXX is decoded on its own, so a surrogate pair becomes two lone surrogates)" % (cls, how))

    # ---- E3 every string the encoder can emit is lexed back as one String token
    r = run.rule("E3", "every string the quoted-string encoder (json.dumps) can emit — any sequence of its per-character spellings: verbatim printable / "
                       "non-ASCII characters, the short escapes \\\" \\\\ \\n \\r \\t \\b \\f, and \\u00xx with LOWER-case hex digits for the "
                       "other control characters — belongs to the String-token language of the lexer, extracted from "
                       "Lexer.__next__ by abstract interpretation (language inclusion decided on the product automaton, shortest "
                       "rejected spelling as witness)", 30)
    from .. import lexextract, rx
    from ..spec import lexical
    A = lexextract.Alphabet(prog)
    li = lexextract.LexInterp(prog, A)
    try:
        limpl = li.token_language()
    except lexextract.Unsupported as e:
        raise AnalysisError("C03.E3: cannot extract the lexer: %s" % e)
    ref = lexical.LexReference(A)
    Q, BS = '"', "\\"
    spellings = []
    for cp in range(0x20):
        ch = chr(cp)
        short = {"\n": "n", "\r": "r", "\t": "t", "\b": "b", "\f": "f"}.get(ch)
        text = (BS + short) if short else (BS + "u%04x" % cp)
        spellings.append(("U+%04X as %s" % (cp, text), list(text)))
    spellings.append(("quote as \\\"", [BS, Q]))
    spellings.append(("backslash as \\\\", [BS, BS]))
    spellings.append(("printable ASCII verbatim", [sorted(ref.source_no_lt - {Q, BS})]))
    if ensure_ascii:
        spellings.append(("non-ASCII as \\uXXXX (lower-case hex)", [BS, "u", list("0123456789abcdef"), list("0123456789abcdef"), list("0123456789abcdef"), list("0123456789abcdef")]))
    alts = []
    for label, seq in spellings:
        alts.append((label, rx.cat(*[ref.S(set(x) if isinstance(x, list) else {x}) for x in seq])))
        r.instance(label)
    # every STRING the encoder can emit: any sequence of those spellings between two quotes (a spelling must also survive
    # what follows it: `\u0007` followed by the verbatim character `0`)
    one = rx.alt(*[a for _l, a in alts])
    W = rx.alt(rx.cat(ref.S({Q}), rx.plus(one), ref.S({Q}), ref.LA(ref.any), ref.RET("String")),
               rx.cat(ref.S({Q}), ref.S({Q}), ref.LA(ref.any - {Q}), ref.RET("String")))       # `""` followed by `"` opens a block string
    res = rx.equivalent(rx.alt(limpl, W), limpl)
    if res is not None:
        witness, _side = res
        shown = "".join(a if isinstance(a, str) and len(a) == 1 else "" for a in witness)
        run.report(r, "%s:ASTPrinter.print_string_value:not-lexed-back(%s)" % (PRINTER, shown.encode("unicode_escape").decode()), psv.where(enc),
                   "the encoder can print the string token %s, which Lexer.__next__ does not accept as one String token: printing a "
                   "tree holding that character produces text the parser rejects" % shown.encode("unicode_escape").decode())

    check_block_string_terminator(prog, run, "E2")

    # ---- D4 omission decisions never look at string content
    r = run.rule("D4", "the printer decides whether to emit a slot from the slot itself (`is None`, list emptiness), never from "
                       "the truthiness of a StringValue's content: the empty string is a legal description/string and must "
                       "print (truth contexts: if/ternary/while tests, and/or/not operands, comprehension filters, and "
                       "arguments of helpers that truth-test their parameter)", 20)
    mod = prog.module(PRINTER)
    fns = [f for f in prog.all_funcs() if f.module is mod]
    truth_params = {}
    for f in fns:
        if f.cls is not None:
            continue
        ps = [a.arg for a in f.node.args.args]
        # a helper *drops* its parameter when the parameter alone decides between a result and the empty string
        for n in ast.walk(f.node):
            test = None
            if isinstance(n, ast.IfExp) and any(isinstance(b, ast.Constant) and b.value == "" for b in (n.body, n.orelse)):
                test = n.test
            elif isinstance(n, ast.If) and any(isinstance(b, ast.Return) and isinstance(b.value, ast.Constant) and b.value.value == ""
                                               for b in n.body + n.orelse):
                test = n.test
            if test is not None:
                ops = _split_truth(test)
                if len(ops) == 1 and isinstance(ops[0], ast.Name) and ops[0].id in ps:
                    truth_params.setdefault(f.name, set()).add(ps.index(ops[0].id))
        for n in ast.walk(f.node):
            if isinstance(n, ast.comprehension) and isinstance(n.iter, ast.Name) and n.iter.id in ps and isinstance(n.target, ast.Name):
                if any(isinstance(c, ast.Name) and c.id == n.target.id for i in n.ifs for c in _split_truth(i)):
                    truth_params.setdefault(f.name, set()).add(("elements", ps.index(n.iter.id)))
    str_slots = _string_value_slots(ncs)
    for f in fns:
        ptypes = {a.arg: nodeshape.ann_classes(a.annotation) for a in f.node.args.args}
        cands = [(o, "truth test") for o in _truth_operands(f.node)]
        for n in own_nodes(f.node):
            if isinstance(n, ast.Call) and isinstance(n.func, ast.Name) and n.func.id in truth_params:
                for spec in truth_params[n.func.id]:
                    if isinstance(spec, tuple):
                        if spec[1] < len(n.args) and isinstance(n.args[spec[1]], (ast.List, ast.Tuple)):
                            cands.extend((e, "element of %s(), which drops falsy entries" % n.func.id) for e in n.args[spec[1]].elts)
                    elif spec < len(n.args):
                        cands.append((n.args[spec], "argument of %s(), which drops it when falsy" % n.func.id))
        for o, how in cands:
            r.instance("%s: %s" % (f.qualname, norm_stmt(o)[:60]))
            if isinstance(o, ast.Call) and isinstance(o.func, ast.Name) and o.func.id == "len" and o.args:
                o = o.args[0]
            if not (isinstance(o, ast.Attribute) and o.attr == "value"):
                continue
            base = o.value
            kinds = set()
            if isinstance(base, ast.Name):
                kinds = ptypes.get(base.id, set())
            elif isinstance(base, ast.Attribute) and base.attr in str_slots:
                kinds = {"StringValue"}
            if "StringValue" in kinds:
                run.report(r, "%s:%s:content-truthiness(%s)" % (PRINTER, f.qualname, ast.unparse(o)), f.where(o),
                           "`%s` is the content of a StringValue and is used as a %s: an explicitly empty string/description "
                           "is treated like an absent one and is not printed, so the re-parsed tree differs" % (ast.unparse(o), how))

    # ---- D5 no test in a print method relates two slots of the node to each other
    r5 = run.rule("D5", "no truth test of a print_X method (locals seen through) compares one part of the node with another part of the same "
                        "node: whether and how a slot is printed is decided by that slot (and constants) alone - a field aliased to its own "
                        "name, an argument named like its variable, a default equal to the name are different trees from the ones without "
                        "the alias / the variable / the default, and a printer that merges them does not round-trip", 5)
    from ..canon import Canon
    for f in fns:
        if f.cls is None or not f.name.startswith("print_") or len(f.params) < 2:
            continue
        run.looked_at(f)
        param = f.params[1]
        cn = Canon(f.node)
        def mentions(e):
            return any(isinstance(x, ast.Name) and x.id == param for x in ast.walk(e))
        for o in _truth_operands(f.node):
            r5.instance("%s: %s" % (f.qualname, norm_stmt(o)[:60]))
            try:
                ce = cn.expr(o)
            except Exception:
                ce = o
            for c in ast.walk(ce):
                if isinstance(c, ast.Compare) and mentions(c.left) and any(mentions(x) for x in c.comparators):
                    run.report(r5, "%s:%s:relates-slots(%s)" % (PRINTER, f.qualname, norm_stmt(o)[:80]), f.where(o),
                               "`%s` compares two parts of the printed node with each other (`%s`): trees that differ only in whether the "
                               "two parts coincide are printed alike, so one of them does not re-parse to itself"
                               % (norm_stmt(o)[:80], ast.unparse(c)[:160]))
                    break

    # ---- T1 typed attribute reads in the printer
    from .. import typedrule
    typedrule.run_rule(prog, run, "T1", "lang/printer.py", "printing a parsed tree must not raise", ["py_gql.lang.printer"], 60)

    # ---- G1 the token language of the printer lies within the grammar
    check_printer_language(prog, run, "G1")

    # ---- B1 the dedent applied when the printed block string is read back is ASCII-only (shared with C02.B1)
    from . import c02
    c02.check_block_string_classes(prog, run, "B1", prog.get_class(LEXER, "Lexer"))

    # ---- P1 purity
    r = run.rule("P1", "no method of ASTPrinter or helper of printer.py writes module/class state or iterates a set", 30)
    for f in fns:
        r.instance(f.qualname)
        for n in own_nodes(f.node):
            if isinstance(n, (ast.Global, ast.Nonlocal)):
                run.report(r, "%s:%s:global-state" % (PRINTER, f.qualname), f.where(n), "printer function declares %s" % norm_stmt(n))
            if isinstance(n, ast.Attribute) and isinstance(n.ctx, ast.Store) and isinstance(n.value, ast.Name):
                tgt = n.value.id
                if tgt == "self" and f.name != "__init__":
                    run.report(r, "%s:%s:writes-self.%s" % (PRINTER, f.qualname, n.attr), f.where(n),
                               "printing mutates the printer instance (self.%s): output depends on call history" % n.attr)
                elif tgt in mod.names and mod.names[tgt][0] in ("assign", "class"):
                    run.report(r, "%s:%s:writes-%s.%s" % (PRINTER, f.qualname, tgt, n.attr), f.where(n),
                               "printing writes module-level state %s.%s" % (tgt, n.attr))
            if isinstance(n, (ast.For, ast.comprehension)) and isinstance(n.iter, (ast.Set, ast.SetComp)) or (
                    isinstance(n, (ast.For, ast.comprehension)) and isinstance(n.iter, ast.Call)
                    and isinstance(n.iter.func, ast.Name) and n.iter.func.id in ("set", "frozenset")):
                run.report(r, "%s:%s:set-iteration" % (PRINTER, f.qualname), f.where(n.iter), "iteration over a set feeds the output")


def _split_truth(e):
    """Operands whose truthiness decides `e` (through and/or/not)."""
    if isinstance(e, ast.BoolOp):
        out = []
        for v in e.values:
            out.extend(_split_truth(v))
        return out
    if isinstance(e, ast.UnaryOp) and isinstance(e.op, ast.Not):
        return _split_truth(e.operand)
    return [e]


def _truth_operands(fnode):
    out = []
    for n in ast.walk(fnode):
        if isinstance(n, (ast.If, ast.IfExp, ast.While)):
            out.extend(_split_truth(n.test))
        elif isinstance(n, ast.comprehension):
            for i in n.ifs:
                out.extend(_split_truth(i))
        elif isinstance(n, ast.BoolOp) and not isinstance(getattr(n, "_parent", None), (ast.If, ast.IfExp, ast.While, ast.BoolOp)):
            out.extend(_split_truth(n))
    return out


def _string_value_slots(ncs):
    """Slot names annotated (Optional[])StringValue in some node class constructor."""
    out = set()
    for nc in ncs.values():
        a = nc.init.node.args
        for x in list(a.args[1:]) + list(a.kwonlyargs):
            if x.annotation is not None and "StringValue" in ast.unparse(x.annotation):
                out.add(x.arg)
    return out


def _guarded_nonempty(sub, param):
    """Is the subscript dominated by a truthiness/len test of ``param``?
    Accepts: earlier operand of the same `and`, enclosing if-test, or an earlier
    `if not param: return` in the same function."""
    cur = sub
    while getattr(cur, "_parent", None) is not None:
        par = cur._parent
        if isinstance(par, ast.BoolOp) and isinstance(par.op, ast.And):
            idx = par.values.index(cur)
            for prev in par.values[:idx]:
                if _is_nonempty_test(prev, param):
                    return True
        if isinstance(par, (ast.If, ast.IfExp)) and cur is not par.test:
            in_body = (cur in par.body) if isinstance(par, ast.If) else (cur is par.body)
            if in_body and _implies_nonempty(par.test, param):
                return True
        if isinstance(par, (ast.FunctionDef, ast.AsyncFunctionDef)):
            for st in par.body:
                if st is cur or getattr(st, "lineno", 0) >= getattr(sub, "lineno", 0):
                    break
                if isinstance(st, ast.If) and isinstance(st.test, ast.UnaryOp) and isinstance(st.test.op, ast.Not) \
                        and _is_nonempty_test(st.test.operand, param) and shapes.raises_unconditionally(st.body) is False \
                        and st.body and isinstance(st.body[-1], ast.Return):
                    return True
            return False
        cur = par
    return False


def _is_nonempty_test(e, param):
    if isinstance(e, ast.Name) and e.id == param:
        return True
    if isinstance(e, ast.Call) and isinstance(e.func, ast.Name) and e.func.id == "len" and ast.unparse(e.args[0]) == param:
        return True
    if isinstance(e, ast.Compare) and ast.unparse(e.left) in ("len(%s)" % param,) and isinstance(e.ops[0], (ast.Gt, ast.GtE, ast.NotEq)):
        return True
    if isinstance(e, ast.Compare) and ast.unparse(e.left) == param and isinstance(e.ops[0], ast.NotEq) and ast.unparse(e.comparators[0]) in ("''", '""'):
        return True
    return False


def _implies_nonempty(test, param):
    if _is_nonempty_test(test, param):
        return True
    if isinstance(test, ast.BoolOp) and isinstance(test.op, ast.And):
        return any(_implies_nonempty(v, param) for v in test.values)
    return False


def _endswith_tests_before(fn, ret):
    """Characters c for which an `X.endswith(c)` / `X[-1] == c` test occurs in a
    test expression dominating-or-preceding the return (same branch nest)."""
    found = set()
    chain = []
    cur = ret
    while getattr(cur, "_parent", None) is not None:
        chain.append(cur._parent)
        cur = cur._parent
    for n in ast.walk(fn):
        if getattr(n, "lineno", 10 ** 9) > ret.lineno:
            continue
        if isinstance(n, ast.Call) and isinstance(n.func, ast.Attribute) and n.func.attr == "endswith" and n.args:
            a = n.args[0]
            vals = [a] if isinstance(a, ast.Constant) else (a.elts if isinstance(a, ast.Tuple) else [])
            for v in vals:
                # only a one-character suffix test covers "ends in that character"; a longer suffix (e.g. two
                # backslashes) leaves the single-character case uncovered
                if isinstance(v, ast.Constant) and isinstance(v.value, str) and len(v.value) == 1:
                    found.add(v.value)
        if isinstance(n, ast.Compare) and isinstance(n.left, ast.Subscript) and ast.unparse(n.left.slice) == "-1":
            for c in n.comparators:
                if isinstance(c, ast.Constant) and isinstance(c.value, str):
                    found.update(c.value if isinstance(n.ops[0], ast.In) else [c.value])
                if isinstance(c, ast.Tuple):
                    for v in c.elts:
                        if isinstance(v, ast.Constant):
                            found.add(v.value)
    return found


def check_printer_language(prog, run, rule_id):
    """G1: L(printer) within L(reference grammar), and no two word-like tokens fused (vf/printlang.py)."""
    from .. import extract, printlang, rx
    from ..spec import grammar as ref
    from . import c01_grammar
    r = run.rule(rule_id, "the token language of ASTPrinter — every print_X interpreted abstractly for every slot state a parsed tree can "
                          "be in (helpers `_join` / `_wrap` / `_block` / `_indent` from their own bodies; strings as regular languages "
                          "over the parser's token atoms) — lies within the reference grammar C01.G1 holds the parser to, for Type, "
                          "Value, SelectionSet, each of the definition kinds and the Document frame (product-automaton inclusion, "
                          "shortest printed token string that is not derivable as witness); and no two word-like tokens (names, "
                          "numbers) are ever emitted without a separator between them", 20)
    try:
        g = extract.Grammar(prog)
        R = ref.Reference(g)
    except KeyError as e:
        raise AnalysisError("C03.%s: %s" % (rule_id, e))
    try:
        pl = printlang.PrinterLang(prog, g)
    except printlang.Unsupported as e:
        raise AnalysisError("C03.%s: %s" % (rule_id, e))
    first = R.first()
    alphabet = sorted(g.atoms, key=str) + [("NT",) + k for k in first] + [("NT", "definition", ())]

    def rename(rg):
        def f(sm):
            return rx.sym(frozenset((("NT",) + ref.VAL) if a == ("NT",) + ref.VAL_C else a for a in sm[1]))
        return printlang.map_syms(rg, f)
    wordy = g.cls_atoms("Name") | g.cls_atoms("Integer") | g.cls_atoms("Float")
    definitions = sorted(pl.shapes.expand(["Definition"]))
    shapes.require(len(definitions) >= 15, "C03.%s: definition classes of lang/ast.py not found" % rule_id)
    D = rename(rx.alt(R.operation_definition(), R.fragment_definition(True), R.type_system_definition(), R.type_system_extension()))
    DEF = rx.sym(frozenset([("NT", "definition", ())]))
    jobs = [("Type", {"NamedType", "ListType", "NonNullType"}, R.type_reference(), None),
            ("Value", pl.shapes.expand(["Value", "Variable"]), R.value(False), None),
            ("SelectionSet", {"SelectionSet"}, R.selection_set(), None)]
    for c in definitions:
        jobs.append((c, {c}, D, None))
    jobs.append(("Document", {"Document"}, rx.cat(R.T("SOF"), rx.plus(DEF), R.T("EOF")), frozenset(definitions)))
    for label, classes, reference, cut in jobs:
        pl.extra_anchor = cut
        try:
            lang = pl.language_of(classes)
        except printlang.Unsupported as e:
            raise AnalysisError("C03.%s: cannot interpret the printing of %s: %s" % (rule_id, label, e))
        fw = printlang.fusion_witness(lang, wordy)
        tokens = printlang.strip_ws(lang)
        if label == "Document":
            tokens = rx.cat(R.T("SOF"), tokens, R.T("EOF"))
        reference = rename(reference)
        res = rx.equivalent(rx.alt(tokens, reference), reference, alphabet)
        r.instance("%s: %s%s" % (label, "within the grammar" if res is None else "NOT within the grammar", "" if fw is None else ", tokens fuse"))

        def show(a):
            if a == ("NT", "definition", ()):
                return "<Definition>"
            return c01_grammar.atom_text(a, g)
        if res is not None:
            text = " ".join(show(a) for a in res[0]) or "<nothing>"
            run.report(r, "%s:ASTPrinter:%s:not-derivable(%s)" % (PRINTER, label, text), "src/py_gql/lang/printer.py",
                       "printing a %s can produce the token string `%s`, which the grammar does not derive for it: the printed "
                       "text is rejected by the parser or read back as a different tree" % (label, text), {"witness": [str(a) for a in res[0]]})
        if fw is not None:
            text = " ".join(show(a) for a in fw if a != printlang.WS)
            run.report(r, "%s:ASTPrinter:%s:tokens-fuse(%s)" % (PRINTER, label, text), "src/py_gql/lang/printer.py",
                       "printing a %s can emit `%s` with the last two tokens not separated: they are read back as one token" % (label, text))
    pl.extra_anchor = None

    # ---- G2 every present slot is printed on every execution
    r2 = run.rule("G2", "for every node class and every slot state of a parsed tree, each present content slot (a child, a non-empty "
                        "list, a token text) is emitted on every execution of its print method (descriptions enabled; the child read "
                        "from slot s is printed as the single symbol SLOT(s) and every string of the resulting language must contain "
                        "it): a form chosen under the wrong condition — the short `{...}` form for an operation with variables — drops "
                        "content that is there; slots no execution prints at all are D2's findings and not repeated here; and no two "
                        "name-valued slots of one node are printed next to each other with only whitespace between them", 60)
    # ---- O1 emission order = parse order, on the slot-marked language
    ro = run.rule("O1", "each print_X emits the slots of X in the order the parser reads them (the fill order of the constructor keywords in "
                        "the matching parse_* production, Name slots included), decided on the language: in no string that print_X can "
                        "produce for any slot state is SLOT(a) emitted after SLOT(b) when the parser reads a before b - whatever order "
                        "the code loads the slots in; text printed in another order is rejected or re-read into different slots", 30)
    porder = nodeshape.child_slots(prog, exclude_name=False)
    for c in sorted(pl.registry):
        if c not in pl.shapes.ncs or c not in porder:
            continue
        try:
            n_states, viol = pl.slot_order(c, porder[c])
        except printlang.Unsupported as e:
            raise AnalysisError("C03.O1: cannot interpret the printing of %s: %s" % (c, e))
        ro.instance("%s: %d slot states, parse order %s" % (c, n_states, porder[c]))
        if viol is not None:
            st, first_, then_ = viol
            run.report(ro, "%s:ASTPrinter.%s:emission-order(%s>%s)" % (PRINTER, pl.registry[c] if isinstance(pl.registry[c], str) else c, first_, then_),
                       "src/py_gql/lang/printer.py",
                       "a %s can be printed with its `%s` before its `%s`, but the parser reads `%s` first: the printed text does not parse "
                       "back (or parses into different slots)" % (c, first_, then_, then_))
    for c in sorted(pl.registry):
        if c not in pl.shapes.ncs:
            continue
        try:
            rows = pl.slot_presence(c)
        except printlang.Unsupported as e:
            raise AnalysisError("C03.G2: cannot interpret the printing of %s: %s" % (c, e))
        for st, slot, miss in rows:
            if miss == "adjacent":
                run.report(r2, "%s:ASTPrinter:%s:names-adjacent(%s)" % (PRINTER, c, slot), "src/py_gql/lang/printer.py",
                           "a %s is printed with the names of its slots %s next to each other, nothing but whitespace between them: no "
                           "production of the grammar reads two adjacent names back into these two slots" % (c, slot.replace("+", " and ")))
        rows = [x for x in rows if x[2] != "adjacent"]
        printed_somewhere = {slot for st, slot, miss in rows if miss is None}
        by_slot = {}
        for st, slot, miss in rows:
            r2.instance("%s.%s present (%s)" % (c, slot, ", ".join("%s=%s" % kv for kv in sorted(st.items()) if kv[1] not in ("some",))), nontrivial=False)
            if miss is not None and slot in printed_somewhere:
                by_slot.setdefault(slot, (st, miss))
        r2.instance("%s: %d (state, slot) obligations" % (c, len(rows)))
        for slot, (st, miss) in sorted(by_slot.items()):
            text = " ".join("<%s>" % a[1] if isinstance(a, tuple) and a[0] == "SLOT" else (show(a) if a != printlang.WS else "") for a in miss).split()
            run.report(r2, "%s:ASTPrinter:%s:slot-dropped(%s)" % (PRINTER, c, slot), "src/py_gql/lang/printer.py",
                       "a %s whose `%s` is present (%s) can be printed as `%s`, without it: the tree read back lacks that part"
                       % (c, slot, ", ".join("%s=%s" % kv for kv in sorted(st.items())), " ".join(text) or "<nothing>"))



def check_indent(prog, run, rule_id="I1"):
    # ---- I1 indentation of multi-line text
    r = run.rule(rule_id, "_indent folded on sample texts (one line, several lines, an interior line of blanks, an empty interior line, "
                       "U+2028 / U+0085 inside a line) x indents (two spaces, a tab): its body is a pure str expression (str methods, "
                       "% / +, textwrap) and must prefix every \\n-separated line - a line of blanks included, or the parser's "
                       "common-indentation removal eats its content - and insert nothing anywhere else; the empty text stays empty", 12)
    ind = prog.get_func(PRINTER, "_indent")
    run.looked_at(ind)
    shapes.require(len(ind.params) == 2, "C03.I1: _indent no longer takes (text, indent)")
    import textwrap as _textwrap
    from .. import fold
    allowed = {"str": str, "len": len, "bool": bool, "textwrap": _textwrap, "True": True, "False": False, "None": None,
               "map": map, "list": list, "tuple": tuple}
    for text in ("a", "a\nb", "a\n    \nb", "a\n\nb", "a\u2028b\nc", "a\x85b\nc", ""):
        for indent in ("  ", "\t"):
            try:
                outs = fold.fold_function(ind.node, {ind.params[0]: text, ind.params[1]: indent}, allowed)
            except fold.FoldError as e:
                raise AnalysisError("C03.I1: _indent cannot be folded on %r: %s" % (text, e))
            r.instance("_indent(%r, %r) -> %s" % (text, indent, [v for _k, v in outs]))
            for kind, got in outs:
                ok = kind == "return" and isinstance(got, str)
                if ok and text == "":
                    ok = got == ""
                elif ok:
                    lines, src = got.split("\n"), text.split("\n")
                    ok = len(lines) == len(src) and all(g == indent + s_ or (s_ == "" and g == "") for g, s_ in zip(lines, src))
                if not ok:
                    run.report(r, "%s:_indent:every-line(%r)" % (PRINTER, text), ind.where(),
                               "_indent(%r, %r) gives %r: not every line is prefixed (or something else is inserted), so a block string "
                               "printed inside an indented position does not read back as the same text" % (text, indent, got))
                    break


def check_verbatim_literals(prog, run, rule_id):
    """Tokens whose text IS their value are printed as that text, unchanged."""
    from .. import boolx
    r = run.rule(rule_id, "ASTPrinter prints the literals whose slot holds the token's own text - Name, IntValue, FloatValue, EnumValue - as "
                          "exactly that slot on every execution (the returned path value is `<node>.value`): any conversion on the way "
                          "(`str(int(..))`, `float`, case folding, stripping) re-spells `-0`, `1e3`, `1.50` or long integers, and the "
                          "text read back is another node", 4)
    pr = prog.get_class(PRINTER, "ASTPrinter")
    for mname in ("print_name", "print_int_value", "print_float_value", "print_enum_value"):
        m = pr.find_method(mname)
        if m is None:
            raise AnalysisError("C03.%s: ASTPrinter.%s not found" % (rule_id, mname))
        run.looked_at(m)
        ps = [x for x in m.params if x != prog.self_name(m)]
        try:
            _ev, exits = boolx.walk_under(m.node, lambda t: None)
        except ValueError as e:
            raise AnalysisError("C03.%s: %s" % (rule_id, e))
        vals = set()
        for kind, st, env in exits:
            if kind == "return" and st.value is not None:
                vals.add(" ".join(ast.unparse(boolx.path_subst(st.value, boolx.path_env(env.get(boolx.STMTS, ()), st))).split()))
            else:
                vals.add("<%s>" % kind)
        r.instance("%s returns %s" % (mname, sorted(vals)))
        if vals != {"%s.value" % ps[0]}:
            run.report(r, "%s:ASTPrinter.%s:not-verbatim" % (PRINTER, mname), m.where(),
                       "%s returns %s instead of the literal's own text `%s.value`: the printed token is re-spelled and does not read back "
                       "as the same node" % (mname, sorted(vals), ps[0]))



def check_block_string_terminator(prog, run, rule_id="E2"):
    # ---- E2 block string guards
    r = run.rule(rule_id, "_block_string: every subscript of the value is dominated by a non-emptiness test, and the "
                       "single-line form is not chosen when the text ends in a backslash or a quote without a guard", 2)
    bs = prog.get_func(PRINTER, "_block_string")
    run.looked_at(bs)
    param = bs.params[0]
    for n in own_nodes(bs.node):
        if isinstance(n, ast.Subscript) and isinstance(n.value, ast.Name) and n.value.id == param and not isinstance(n.slice, ast.Slice):
            r.instance("subscript %s in `%s`" % (ast.unparse(n), norm_stmt(n)))
            if not _guarded_nonempty(n, param):
                run.report(r, "%s:_block_string:unguarded-subscript(%s)" % (PRINTER, ast.unparse(n)), bs.where(n),
                           "%s is evaluated without a preceding non-emptiness test: printing an empty block string raises "
                           "IndexError" % ast.unparse(n), {"stmt": norm_stmt(n)})
    # single-line returns
    for n in own_nodes(bs.node):
        if isinstance(n, ast.Return) and n.value is not None:
            txt = ast.unparse(n.value)
            if "\\n" in txt.split("%")[0]:
                continue  # multi-line form: text is followed by a newline before the terminator
            r.instance("single-line return `%s`" % norm_stmt(n))
            tests = _endswith_tests_before(bs.node, n)
            for ch, label in (('"', "quote"), ("\\", "backslash")):
                if ch not in tests:
                    run.report(r, "%s:_block_string:single-line-terminator(%s)" % (PRINTER, label), bs.where(n),
                               'the single-line form concatenates the text directly with the closing """ but no test on a '
                               "trailing %s precedes it: the printed text does not lex back to the same string" % label)

    check_indent(prog, run, "I1")
