"""C04 — execution: field collection, value completion dispatch, error sites,
request isolation (structural clauses only)."""
import ast
import re

from .. import shapes, boolx
from ..cfg import event_paths
from ..model import AnalysisError, own_nodes, norm_stmt

CF = "py_gql.utilities.collect_fields"
EXE = "py_gql.execution.executor"
BEXE = "py_gql.execution.blocking_executor"
WRAP = "py_gql.execution.wrappers"
KINDS = {"Field", "FragmentSpread", "InlineFragment"}


def _role_atoms(expr, roles_of):
    env_roles = {}
    for a in boolx.atoms(expr):
        node = ast.parse(a, mode="eval").body
        role = roles_of(node, a)
        if role is None:
            raise AnalysisError("unrecognised condition atom %r" % a)
        env_roles[a] = role
    return env_roles


def _table_check(expr, roles, want, vars_):
    """Evaluate expr for all assignments of vars_; roles: atom -> (var, polarity)."""
    import itertools
    bad = []
    for vals in itertools.product([False, True], repeat=len(vars_)):
        env_v = dict(zip(vars_, vals))
        env = {a: (env_v[v] if pol else not env_v[v]) for a, (v, pol) in roles.items()}
        got = boolx.evaluate(expr, env)
        if got != want(env_v):
            bad.append(dict(env_v, got=got, expected=want(env_v)))
    return bad


def check_selection_dispatch(prog, run, rid="K1", floor=3):
    r = run.rule(rid, "every class test over elements of a selection list (loops, comprehensions, Selection-typed parameters) "
                      "anywhere in the package covers Field, FragmentSpread and InlineFragment or ends in an explicit error", floor)
    for s in shapes.selection_dispatch_sites(prog, prog.all_funcs()):
        run.looked_at(s.fi)
        r.instance("%s (%s over %s): %s default=%s" % (s.fi.key, s.kind, s.var, sorted(s.classes), s.default))
        missing = KINDS - s.classes
        if missing and s.default is None:
            run.report(r, "%s:%s:selection-dispatch(%s)" % (s.fi.module.name, s.fi.qualname, s.kind), s.fi.where(s.node),
                       "selections of kind %s are silently ignored here" % sorted(missing))


def check(prog, run):
    from . import c08 as _c08k
    _c08k.check_non_null_after_completion(prog, run, "K8")   # = C08.R14: the null is matched by an error under both executors
    # ---- K1 selection-kind exhaustiveness (whole package)
    check_selection_dispatch(prog, run, "K1")

    check_collect_filtering(prog, run, "K2")

    # ---- K3 complete_value dispatch
    r = run.rule("K3", "complete_value handles NonNull before the null short-cut, then List, Scalar, Enum and composite types, "
                       "ends in an explicit error; the abstract branch resolves the runtime type, requires an ObjectType that is "
                       "a possible type, before executing the sub-selection", 9)
    cv = prog.get_func(EXE, "Executor.complete_value")
    run.looked_at(cv)
    ft = cv.params[1]
    rv = cv.params[-1]      # the resolved value
    NULL_ATOMS = ("%s is None" % rv,)
    # path form: for a non-null value of each kind of type, every returning path went through that kind's completion step
    KIND_CLASSES = {
        "NonNull": {"NonNullType", "WrappingType"}, "List": {"ListType", "WrappingType"},
        "Scalar": {"ScalarType", "GraphQLLeafType"}, "Enum": {"EnumType", "GraphQLLeafType"},
        "Object": {"ObjectType", "GraphQLCompositeType"}, "Abstract": {"InterfaceType", "UnionType", "GraphQLAbstractType", "GraphQLCompositeType"},
    }
    STEP = {"NonNull": {"complete_non_nullable_value"}, "List": {"complete_list_value"}, "Scalar": {"serialize"}, "Enum": {"get_name"},
            "Object": {"execute_fields"}, "Abstract": {"execute_fields"}}
    null_value = [False]
    abstract_rets = []
    for kind, classes in KIND_CLASSES.items():
        def decide(t, classes=classes):
            if t in NULL_ATOMS:
                return null_value[0]
            try:
                e = ast.parse(t, mode="eval").body
            except SyntaxError:
                return None
            if isinstance(e, ast.Call) and isinstance(e.func, ast.Name) and e.func.id == "isinstance" and len(e.args) == 2 \
                    and isinstance(e.args[0], ast.Name) and e.args[0].id == ft:
                named = {x.id for x in ast.walk(e.args[1]) if isinstance(x, ast.Name)}
                return bool(named & classes)
            return None
        for isnull in (False, True):
            null_value[0] = isnull
            try:
                _ev, exits = boolx.walk_under(cv.node, decide)
            except ValueError as e:
                raise AnalysisError("C04.K3: %s" % e)
            rets = [(st, env) for k, st, env in exits if k == "return"]
            r.instance("%s value of a %s type: %d returning paths" % ("null" if isnull else "non-null", kind, len(rets)))
            if not rets:
                run.report(r, "%s:Executor.complete_value:unhandled(%s)" % (EXE, kind), cv.where(),
                           "complete_value has no returning execution for a %s value of a %s type" % ("null" if isnull else "non-null", kind))
            if kind == "Abstract" and not isnull:
                abstract_rets = rets
            for st, env in rets:
                called = {c.func.attr for c in env.get(boolx.CALLS, ()) if isinstance(c.func, ast.Attribute)}
                if isnull and kind != "NonNull":
                    # null is returned as null before any type dispatch (the NonNull wrapper is the one that looks at it)
                    allsteps = set().union(*STEP.values())
                    v = boolx.path_subst(st.value, boolx.path_env(env.get(boolx.STMTS, ()), st)) if st.value is not None else None
                    is_none = v is None or (isinstance(v, ast.Constant) and v.value is None) or (isinstance(v, ast.Name) and v.id == rv)
                    if (called & allsteps) or not is_none:
                        run.report(r, "%s:Executor.complete_value:no-null-shortcut" % EXE, cv.where(st),
                                   "a null value of a %s type is not returned as null before type dispatch (`%s`, calls %s)"
                                   % (kind, norm_stmt(st, 60), sorted(called & allsteps)))
                        break
                    continue
                if not (called & STEP[kind]):
                    cond = ", ".join("%s=%s" % kv for kv in sorted(env.items()) if kv[0] not in boolx.META and "isinstance" not in kv[0])
                    what = "null-before-nonnull" if isnull else "bypasses(%s)" % kind
                    run.report(r, "%s:Executor.complete_value:%s" % (EXE, what), cv.where(st),
                               "for a %s value of a %s type complete_value can return `%s` without %s (when %s): %s"
                               % ("null" if isnull else "non-null", kind, norm_stmt(st, 60), "/".join(sorted(STEP[kind])), cond or "always",
                                  "a null in a non-nullable position yields no error" if isnull else
                                  "the value is not completed/serialised as its type prescribes"))
                    break
    null_value[0] = False
    # a non-null value of a type that is none of the tested kinds: every execution ends in a raise
    try:
        _ev, uexits = boolx.walk_under(cv.node, lambda t: False if (t.startswith("isinstance(%s, " % ft) or t in NULL_ATOMS) else None)
    except ValueError as e:
        raise AnalysisError("C04.K3: %s" % e)
    silent = [(k, st) for k, st, env in uexits if k != "raise"]
    r.instance("unknown type kind: %d executions, %d end without raising" % (len(uexits), len(silent)))
    if silent or not uexits:
        run.report(r, "%s:Executor.complete_value:no-final-error" % EXE, cv.where(silent[0][1]) if silent and silent[0][1] is not None else cv.where(),
                   "unknown type kinds fall through silently")

    # abstract types, in path form: every returning execution for a non-null value of an abstract type resolved the runtime
    # type, found it to be an ObjectType and a possible type (both tests decided true on that execution) and then executed
    # the sub-selection
    for st, env in abstract_rets:
        calls = [c.func.attr for c in env.get(boolx.CALLS, ()) if isinstance(c.func, ast.Attribute)]
        tests = [(t, v) for t, v in env.get(boolx.TESTS, ())]
        obj_ok = any(t.startswith("isinstance(") and "ObjectType" in t and not t.startswith("isinstance(%s," % ft) and v for t, v in tests)
        poss_ok = any("is_possible_type(" in t and v for t, v in tests)
        seq = [c for c in calls if c in ("resolve_type", "is_possible_type", "execute_fields")]
        r.instance("abstract path: calls %s, ObjectType check %s, possible-type check %s" % (seq, obj_ok, poss_ok))
        if not (obj_ok and poss_ok and "resolve_type" in seq and "execute_fields" in seq and seq.index("resolve_type") < seq.index("execute_fields")):
            run.report(r, "%s:Executor.complete_value:abstract-path(%s)" % (EXE, ">".join(seq)), cv.where(st),
                       "an abstract-typed value reaches the sub-selection through calls %s with the ObjectType check %s and the "
                       "possible-type check %s (expected resolve_type, then both checks passed, then execute_fields)"
                       % (seq, "passed" if obj_ok else "not made", "passed" if poss_ok else "not made"))
            break
    # blocking overrides must not re-implement complete_value
    bx = prog.get_class(BEXE, "BlockingExecutor")
    r.instance("BlockingExecutor overrides complete_value: %s" % ("complete_value" in bx.methods))
    if "complete_value" in bx.methods:
        raise AnalysisError("C04.K3: BlockingExecutor now overrides complete_value; rule needs extending")

    # ---- K7 resolve_type: the answer None means "use the value's class name", whoever gave the answer
    r7 = run.rule("K7", "Executor.resolve_type, decided for (the abstract type has its own resolve_type / it has none) with the answer "
                        "None: every execution returns (the schema's type named by) the value's class name - the fallback applies "
                        "after a custom resolver that declines as well as after the default lookup of __typename__; with an answer "
                        "that is not None the answer itself (looked up in the schema when it is a name) is returned", 4)
    rt = prog.get_func(EXE, "Executor.resolve_type")
    run.looked_at(rt)
    for custom in (True, False):
        for none_answer in (True, False):
            def decide(t, custom=custom, none_answer=none_answer):
                tt = t.replace(" ", "")
                if re.match(r"^[\w.]+\.resolve_typeisNone$", tt):
                    return not custom
                if re.match(r"^\w+isNone$", tt):
                    return none_answer
                return None
            try:
                _ev, exits = boolx.walk_under(rt.node, decide)
            except ValueError as e:
                raise AnalysisError("C04.K7: %s" % e)
            rets = [(st, " ".join(ast.unparse(boolx.path_expand(env.get(boolx.STMTS, ()), st, st.value,
                                                                {k: v for k, v in env.items() if k not in boolx.META})).split()))
                    for kind, st, env in exits if kind == "return" and st.value is not None]
            shapes.require(bool(rets), "C04.K7: resolve_type has no returning execution for custom=%s" % custom)
            r7.instance("custom resolver %s, answer %s: returns %s" % (custom, "None" if none_answer else "given", sorted({t for _s, t in rets})))
            for st, txt in rets:
                by_class = "__name__" in txt
                if by_class != none_answer:
                    run.report(r7, "%s:Executor.resolve_type:class-name-fallback(custom=%s,answer=%s)" % (EXE, custom, "None" if none_answer else "given"), rt.where(st),
                               ("with %s and the answer None an execution returns `%s`: the value's class name is not tried, and the "
                                "abstract value fails to resolve" if none_answer else
                                "with %s and an answer that is not None an execution returns `%s`: the answer is replaced by the class name")
                               % ("a custom resolve_type" if custom else "the default lookup", txt))
                    break

    # ---- K4 error sites
    r = run.rule("K4", "field failures are recorded with (err, path, node) and yield None; a null in a non-null position "
                       "records one ResolverError carrying nodes= and path= and still returns the null", 4)
    hn = prog.get_func(EXE, "Executor._handle_non_nullable_value")
    run.looked_at(hn)
    from ..canon import Canon, inline_simple_call
    hcn = Canon(hn.node)
    value_param = hn.params[-1]
    ok = True
    for is_null in (True, False):
        try:
            _ev, hexits = boolx.walk_under(hn.node, lambda t, is_null=is_null: is_null if t == "%s is None" % value_param else None)
        except ValueError as e:
            raise AnalysisError("C04.K4: %s" % e)
        for kind, st, env in hexits:
            adds = [c for c in env.get(boolx.CALLS, ()) if isinstance(c.func, ast.Attribute) and c.func.attr == "add_error"]
            rv = hcn.text(st.value) if kind == "return" and st.value is not None else None
            if kind != "return" or rv not in ((value_param, "None") if is_null else (value_param,)) or len(adds) != (1 if is_null else 0):
                ok = False
                continue
            if is_null:
                err = hcn.expr(adds[0].args[0]) if adds[0].args else None
                seen = inline_simple_call(prog, hn, err) if err is not None else None
                err = seen if seen is not None else err
                kws = {k.arg: ast.unparse(k.value) for k in err.keywords} if isinstance(err, ast.Call) else {}
                r.instance("non-null violation error keywords %s" % kws)
                if not (isinstance(err, ast.Call) and ast.unparse(err.func) == "ResolverError" and kws.get("nodes") == hn.params[1] and kws.get("path") == hn.params[2]):
                    ok = False
    r.instance("_handle_non_nullable_value shape ok: %s" % ok)
    if not ok:
        run.report(r, "%s:Executor._handle_non_nullable_value:shape" % EXE, hn.where(),
                   "a null in a non-nullable position is not recorded as exactly one ResolverError(nodes=nodes, path=path) under "
                   "`resolved_value is None`, or the value is not returned unchanged")
    for mod, q in ((EXE, "Executor.complete_non_nullable_value"), (BEXE, "BlockingExecutor.complete_non_nullable_value")):
        f = prog.get_func(mod, q)
        run.looked_at(f)
        # the bound method may be named first (`check = self._handle_non_nullable_value; ...; return check(...)`): any
        # read of the attribute whose value is called counts, the call itself is checked by C08.R14's path form
        uses = any(isinstance(n, ast.Attribute) and n.attr == "_handle_non_nullable_value" and isinstance(n.ctx, ast.Load) for n in ast.walk(f.node))
        r.instance("%s routes through _handle_non_nullable_value: %s" % (q, uses))
        if not uses:
            run.report(r, "%s:%s:unchecked" % (mod, q), f.where(), "non-null completion does not check for null")
    check_add_error(prog, run, r)

    check_memo_keys(prog, run)
    check_seen_scope(prog, run)

    check_default_resolver(prog, run)
    check_context_threading(prog, run, "V1")
    from . import c17
    c17.check_coerced_variables(prog, run, "V2", [prog.get_func("py_gql.execution.execute", "execute")])
    from .. import typedrule
    typedrule.run_rule(prog, run, "T1", "execution/** and utilities/collect_fields.py",
                       "operation selection and field collection must hand the executor the node kinds it expects (an AttributeError "
                       "aborts the request)", ["py_gql.execution", "py_gql.utilities.collect_fields"], 25)
    from .. import valuetruth
    valuetruth.check(prog, run, "N1", ["py_gql.execution", "py_gql.utilities.coerce_value", "py_gql.utilities.value_from_ast"], 20)

    # ---- H1 request isolation
    r = run.rule("H1", "no request-scoped state outlives a request: executor caches are instance attributes created in __init__, "
                       "no class-level mutable attributes on executor classes, and mutable default arguments / module tables "
                       "written on the execution path are the allow-listed pure memo tables", 8)
    allow = {
        ("py_gql.execution.runtime.asyncio", "_isawaitable_fast", "cache"): "type -> bool memo",
        ("py_gql.execution.runtime.threadpool", "_is_future_fast", "cache"): "type -> bool memo",
    }
    mods = [m for m in prog.modules.values() if m.name.startswith("py_gql.execution") or m.name in (
        CF, "py_gql.utilities.coerce_value", "py_gql.utilities.value_from_ast", "py_gql.execution.default_resolver")]
    for m in mods:
        for f in [x for x in prog.all_funcs() if x.module is m]:
            a = f.node.args
            defaults = list(zip([x.arg for x in (a.posonlyargs + a.args)][-len(a.defaults):] if a.defaults else [], a.defaults)) + \
                [(x.arg, d) for x, d in zip(a.kwonlyargs, a.kw_defaults) if d is not None]
            for pname, d in defaults:
                mutable = isinstance(d, (ast.Dict, ast.List, ast.Set)) or (isinstance(d, ast.Call) and isinstance(d.func, ast.Name) and d.func.id in ("dict", "list", "set", "OrderedDict", "defaultdict"))
                if not mutable:
                    continue
                written = _written(f, pname)
                r.instance("%s(%s=<mutable default>) written: %s" % (f.key, pname, written))
                if written and (m.name, f.qualname, pname) not in allow:
                    run.report(r, "%s:%s:mutable-default(%s)" % (m.name, f.qualname, pname), f.where(),
                               "mutable default argument %s is written: state leaks from one request into the next" % pname)
        for c in m.classes.values():
            if not (c.name.endswith("Executor") or c.name in ("ResolutionContext", "ResolveInfo")):
                continue
            for an, av in c.attrs.items():
                if an.startswith("__"):
                    continue
                mutable = isinstance(av, (ast.Dict, ast.List, ast.Set)) or (isinstance(av, ast.Call) and isinstance(av.func, ast.Name) and av.func.id in ("dict", "list", "set", "OrderedDict", "defaultdict"))
                r.instance("%s.%s class attribute mutable: %s" % (c.name, an, mutable))
                if mutable:
                    run.report(r, "%s:%s:class-level(%s)" % (m.name, c.name, an), c.module.relpath,
                               "%s.%s is a class-level mutable object shared by every request" % (c.name, an))
    rc = prog.get_class(WRAP, "ResolutionContext")
    init = rc.methods["__init__"]
    created = {n.targets[0].attr for n in own_nodes(init.node) if isinstance(n, ast.Assign) and isinstance(n.targets[0], ast.Attribute)
               and isinstance(n.value, (ast.Dict, ast.List))}
    for cache in ("_grouped_fields", "_fragment_type_applies", "_field_defs", "_argument_values", "_resolver_cache", "_errors"):
        r.instance("ResolutionContext.%s created per instance: %s" % (cache, cache in created))
        if cache in (rc.slots() or []) and cache not in created:
            run.report(r, "%s:ResolutionContext.__init__:cache(%s)" % (WRAP, cache), init.where(), "%s is not created fresh in __init__" % cache)


def _written(f, name):
    for n in ast.walk(f.node):
        if isinstance(n, ast.Subscript) and isinstance(n.ctx, (ast.Store, ast.Del)) and isinstance(n.value, ast.Name) and n.value.id == name:
            return True
        if isinstance(n, ast.Call) and isinstance(n.func, ast.Attribute) and isinstance(n.func.value, ast.Name) and n.func.value.id == name \
                and n.func.attr in ("append", "add", "update", "setdefault", "pop", "extend", "insert", "clear", "remove"):
            return True
    return False


def memo_sites(cls):
    """(method, cache attr, key expr, compute expr) for `try: return self.C[K] / except KeyError: ... self.C[K] = <compute>`."""
    out = []
    seen = set()
    for name, m in cls.methods.items():
        if id(m) in seen:
            continue
        seen.add(id(m))
        for n in own_nodes(m.node):
            if not isinstance(n, ast.Try) or len(n.handlers) != 1 or n.handlers[0].type is None or "KeyError" not in ast.unparse(n.handlers[0].type):
                continue
            if not (len(n.body) == 1 and isinstance(n.body[0], (ast.Return, ast.Assign)) and isinstance(n.body[0].value, ast.Subscript)):
                continue
            sub = n.body[0].value
            base = sub.value
            if isinstance(base, ast.Name):
                # local alias: cache = self._x
                defs = [x for x in own_nodes(m.node) if isinstance(x, ast.Assign) and isinstance(x.targets[0], ast.Name) and x.targets[0].id == base.id]
                if len(defs) == 1:
                    base = defs[0].value
            if not (isinstance(base, ast.Attribute) and isinstance(base.value, ast.Name) and base.value.id == "self"):
                continue
            computes = []
            for x in ast.walk(ast.Module(body=n.handlers[0].body, type_ignores=[])):
                if isinstance(x, ast.Assign):
                    for t in x.targets:
                        if isinstance(t, ast.Subscript) and ast.unparse(t.slice) == ast.unparse(sub.slice):
                            computes.append((x, n.handlers[0]))
            out.append((m, base.attr, sub.slice, n.handlers[0]))
    return out


def check_memo_keys(prog, run, rule_id="H2"):
    r = run.rule(rule_id, "every per-request memo table (try: return self.C[key] / except KeyError: compute and store) is keyed by "
                       "every parameter its computation depends on: a parameter used in the miss branch but absent from the key "
                       "makes two different requests share one entry; each key component stands for a whole parameter (the parameter, "
                       "tuple()/frozenset() of it, id() of a schema object or document node the request keeps alive, or the name of a "
                       "named schema type), never for a lossy projection of it (str(), len(), the class: see Z7)", 4)
    for modname, cname in ((WRAP, "ResolutionContext"), (EXE, "Executor")):
        cls = prog.get_class(modname, cname)
        for m, cache, key, handler in memo_sites(cls):
            if m.cls is not cls:
                continue
            run.looked_at(m)
            params = set(m.params[1:])
            # local definitions: name -> names it depends on
            deps = {}
            for x in own_nodes(m.node):
                if isinstance(x, ast.Assign) and len(x.targets) == 1 and isinstance(x.targets[0], ast.Name):
                    deps.setdefault(x.targets[0].id, set()).update(y.id for y in ast.walk(x.value) if isinstance(y, ast.Name))

            def closure(names):
                out, stack = set(), list(names)
                while stack:
                    v = stack.pop()
                    if v in out:
                        continue
                    out.add(v)
                    stack.extend(deps.get(v, ()))
                return out
            key_names = closure({y.id for y in ast.walk(key) if isinstance(y, ast.Name)}) & params
            used = set()
            for st in handler.body:
                for y in ast.walk(st):
                    if isinstance(y, ast.Name) and isinstance(y.ctx, ast.Load):
                        used.add(y.id)
            used_params = closure(used) & params
            r.instance("%s.%s: cache %s keyed by %s; miss branch uses %s" % (cname, m.name, cache, sorted(key_names), sorted(used_params)))
            # every key component stands for the whole parameter: the parameter itself, tuple()/frozenset() of it, or the
            # `.name` of a parameter annotated as a named schema type (types are unique per name within one schema)
            key_expr = key
            if isinstance(key_expr, ast.Name):
                defs = [x.value for x in own_nodes(m.node) if isinstance(x, ast.Assign) and len(x.targets) == 1
                        and isinstance(x.targets[0], ast.Name) and x.targets[0].id == key_expr.id]
                if len(defs) == 1:
                    key_expr = defs[0]
            comps = list(key_expr.elts) if isinstance(key_expr, ast.Tuple) else [key_expr]
            ann = {a.arg: (ast.unparse(a.annotation) if a.annotation is not None else "") for a in m.node.args.args}
            # parameters the miss branch reads other than through the key value itself
            keyvar = key.id if isinstance(key, ast.Name) else None
            direct, stack = set(), [y.id for st in handler.body for y in ast.walk(st) if isinstance(y, ast.Name) and isinstance(y.ctx, ast.Load)]
            while stack:
                v = stack.pop()
                if v in direct or v == keyvar:
                    continue
                direct.add(v)
                stack.extend(deps.get(v, ()))
            for comp in comps:
                names = {y.id for y in ast.walk(comp) if isinstance(y, ast.Name)} & params & direct
                for pn in sorted(names):
                    lossless = (isinstance(comp, ast.Name) and comp.id == pn) or (
                        isinstance(comp, ast.Call) and isinstance(comp.func, ast.Name) and comp.func.id in ("tuple", "frozenset", "id")
                        and len(comp.args) == 1 and isinstance(comp.args[0], ast.Name) and comp.args[0].id == pn) or (
                        isinstance(comp, ast.Attribute) and comp.attr == "name" and isinstance(comp.value, ast.Name) and comp.value.id == pn
                        and ann.get(pn, "").endswith("Type"))
                    if not lossless:
                        run.report(r, "%s:%s.%s:lossy-key(%s)" % (modname, cname, m.name, pn), m.where(comp),
                                   "the key of self.%s contains `%s`, a projection of `%s` that different values of `%s` share (the same "
                                   "leading selection in two merged groups, the same field name on two object types): the entry computed "
                                   "for one is returned for the other" % (cache, " ".join(ast.unparse(comp).split()), pn, pn))
            for pmiss in sorted(used_params - key_names):
                run.report(r, "%s:%s.%s:key-omits(%s)" % (modname, cname, m.name, pmiss), m.where(),
                           "%s caches in self.%s under a key built from %s, but the cached value is computed from %s too: calls that "
                           "differ only in %s (e.g. the same field node executed against two implementing object types) share one entry"
                           % (m.name, cache, sorted(key_names), pmiss, pmiss))


def check_seen_scope(prog, run, rule_id="K5"):
    r = run.rule(rule_id, "the visited-fragment set of collect_fields / collect_fields_untyped is scoped to one selection set: only "
                          "their own recursive calls pass it on; every other caller starts a fresh set (a set shared across nesting "
                          "levels drops a fragment legitimately spread again deeper down); a fragment is marked visited only on a path "
                          "that merged its fields; whatever is collected from a fragment is handed to _merge, which extends the "
                          "existing group of every response key exactly once", 3)
    for fname in ("collect_fields", "collect_fields_untyped"):
        target = prog.get_func(CF, fname)
        idx = target.params.index("_seen_fragments") if "_seen_fragments" in target.params else None
        if idx is None:
            raise AnalysisError("%s: visited-fragment parameter not found" % fname)
        for f in prog.all_funcs():
            for n in own_nodes(f.node):
                if isinstance(n, ast.Call) and target in prog.resolve_call(f, n):
                    passes = len(n.args) > idx or any(k.arg == "_seen_fragments" for k in n.keywords)
                    r.instance("%s calls %s, passes visited set: %s" % (f.qualname, fname, passes))
                    if passes and f is not target:
                        run.report(r, "%s:%s:shares-visited-set(%s)" % (f.module.name, f.qualname, fname), f.where(n),
                                   "%s hands its own visited-fragment set to %s: the set then spans several nesting levels and a "
                                   "fragment spread a second time deeper in the document is silently skipped" % (f.qualname, fname))
        # a fragment is marked visited only on a path that merged its fields
        loops = [n for n in target.node.body if isinstance(n, ast.For)]
        shapes.require(len(loops) == 1, "%s: main loop not found" % fname)

        def ev(n):
            if isinstance(n, ast.Call) and isinstance(n.func, ast.Attribute) and n.func.attr == "add" and "_seen_fragments" in ast.unparse(n.func.value):
                return "mark"
            if isinstance(n, ast.Call) and isinstance(n.func, ast.Name) and n.func.id == "_merge":
                return "merge"
            return None
        from ..canon import Canon
        tcn = Canon(target.node)

        def ev2(n, fname=fname, tcn=tcn):
            if isinstance(n, ast.Call) and isinstance(n.func, ast.Name) and n.func.id == fname:
                return "collect"
            # _merge(<the collected groups>, ...): directly, or through a local bound to the recursive call
            if isinstance(n, ast.Call) and isinstance(n.func, ast.Name) and n.func.id == "_merge" and any(
                    isinstance(x, ast.Call) and isinstance(x.func, ast.Name) and x.func.id == fname
                    for a in list(n.args) + [k.value for k in n.keywords] for x in ast.walk(tcn.expr(a))):
                return "merge"
            return None
        paths2, _ = event_paths(None, ev2, body=loops[0].body, may_raise=lambda n: None, cap=12)
        collected = [q for q in paths2 if "collect" in q]
        r.instance("%s: %d iteration paths collect a fragment's fields, all handed to _merge: %s" % (fname, len(collected), all("merge" in q for q in collected)))
        for q in collected:
            if "merge" not in q:
                run.report(r, "%s:%s:collected-without-merge" % (CF, fname), target.where(loops[0]),
                           "the fields collected from a fragment are not handed to _merge (which extends the group of every response "
                           "key): fields whose key already exists in the enclosing selection are dropped, so their sub-selections are "
                           "neither executed nor measured")
                break
        normal, _ = event_paths(None, ev, body=loops[0].body, may_raise=lambda n: None, cap=12)
        marked = [seq for seq in normal if "mark" in seq]
        r.instance("%s: %d iteration paths mark a fragment visited, all of them merge it: %s" % (fname, len(marked), all("merge" in q for q in marked)))
        shapes.require(bool(marked), "%s: no path marks a fragment as visited" % fname)
        for seq in marked:
            if "merge" not in seq:
                run.report(r, "%s:%s:marked-without-merge" % (CF, fname), target.where(loops[0]),
                           "a path through the loop marks the fragment as visited without merging its fields (the mark precedes a "
                           "`continue`): a spread switched off by @skip/@include, or one whose type condition does not apply here, "
                           "suppresses every later spread of the same fragment in this selection set")
                break
        # _merge extends the existing group of every key
        mg = prog.get_func(CF, "_merge")
        mloops = [n for n in mg.node.body if isinstance(n, ast.For)]
        shapes.require(len(mloops) == 1, "_merge: loop not found")

        from ..canon import Canon
        mcn = Canon(mg.node)
        into_param = set(mg.all_params)

        def ev3(n, mcn=mcn, into_param=into_param):
            # `into[key].extend(...)`, directly or through a local bound to `into[key]`
            if isinstance(n, ast.Call) and isinstance(n.func, ast.Attribute) and n.func.attr == "extend":
                recv = mcn.expr(n.func.value)
                if isinstance(recv, ast.Subscript) and isinstance(recv.value, ast.Name) and recv.value.id in into_param:
                    return "extend"
            if isinstance(n, ast.AugAssign) and isinstance(n.op, ast.Add) and isinstance(n.target, ast.Subscript):
                return "extend"
            return None
        mp, _ = event_paths(None, ev3, body=mloops[0].body, may_raise=lambda n: None, cap=12)
        if fname == "collect_fields":
            r.instance("_merge: every iteration path extends into[key]: %s" % all(q.count("extend") == 1 for q in mp))
            for q in mp:
                if q.count("extend") != 1:
                    run.report(r, "%s:_merge:not-extending" % CF, mg.where(mloops[0]),
                               "a path through _merge's loop does not extend the existing group exactly once: fields of a key that is "
                               "already present are dropped (or duplicated)")
                    break
        # the default must create a fresh set per top-level call
        fresh = any(isinstance(n, ast.Assign) and ast.unparse(n.targets[0]) == "_seen_fragments" and "set()" in ast.unparse(n.value) for n in own_nodes(target.node))
        r.instance("%s creates a fresh set when none is given: %s" % (fname, fresh))
        if not fresh:
            run.report(r, "%s:%s:no-fresh-set" % (CF, fname), target.where(), "%s does not create a fresh visited set per call" % fname)


def check_default_resolver(prog, run):
    """R1: a mapping parent is resolved by key lookup only."""
    from .. import boolx
    r = run.rule("R1", "default_resolver: on every execution consistent with `isinstance(root, Mapping)` being true, the parent is "
                       "only read by key (`.get` / subscript / `in`) and the function returns: no getattr on the mapping and no "
                       "call of a looked-up value, so a missing key yields null instead of invoking dict.items/keys/get/... with "
                       "(context, info) (path-consistent walk under the fixed atom; robust to re-orderings of the tests)", 2)
    f = prog.get_func("py_gql.execution.default_resolver", "default_resolver")
    run.looked_at(f)
    a = f.node.args
    root = a.args[0].arg if a.args else None
    shapes.require(root is not None, "C04.R1: default_resolver has no positional parameter")
    defaults = {x.arg: ast.unparse(d) for x, d in zip(a.kwonlyargs, a.kw_defaults) if d is not None}
    defaults.update({x.arg: ast.unparse(d) for x, d in zip(a.args[len(a.args) - len(a.defaults):], a.defaults)})

    def alias(name):
        return defaults.get(name, name)

    def is_mapping_test(text_):
        try:
            e = ast.parse(text_, mode="eval").body
        except SyntaxError:
            return False
        return (isinstance(e, ast.Call) and isinstance(e.func, ast.Name) and alias(e.func.id) == "isinstance" and len(e.args) == 2
                and isinstance(e.args[0], ast.Name) and e.args[0].id == root
                and any(alias(n.id) in ("Mapping", "dict", "MutableMapping", "collections.abc.Mapping")
                        for n in ast.walk(e.args[1]) if isinstance(n, ast.Name)))

    tests = [t for n in ast.walk(f.node) if isinstance(n, ast.Call) for t in [boolx.text(n)] if is_mapping_test(t)]
    shapes.require(bool(tests), "C04.R1: default_resolver no longer tests isinstance(root, Mapping)")
    try:
        evaluated, exits = boolx.walk_under(f.node, lambda t: True if is_mapping_test(t) else None)
    except ValueError as e:
        raise AnalysisError("C04.R1: %s" % e)
    r.instance("mapping parent: %d evaluated expressions, exits %s" % (len(evaluated), sorted({k for k, _s, _e in exits})))
    local_values = {n.id for st in ast.walk(f.node) if isinstance(st, ast.Assign) for t in st.targets for n in ast.walk(t) if isinstance(n, ast.Name)}
    for n, env in evaluated.values():
        if not isinstance(n, ast.Call):
            continue
        if isinstance(n.func, ast.Name) and alias(n.func.id) == "getattr" and n.args and isinstance(n.args[0], ast.Name) and n.args[0].id == root:
            run.report(r, "py_gql.execution.default_resolver:default_resolver:mapping-getattr", f.where(n),
                       "with a mapping parent (%s) `%s` is still evaluated: a key missing from the mapping falls through to the "
                       "mapping's own attributes (items, keys, get, ...), which are then called with (context, info)"
                       % (", ".join("%s=%s" % kv for kv in sorted(env.items()) if kv[0] not in boolx.META), boolx.text(n)))
        if isinstance(n.func, ast.Name) and n.func.id in local_values and n.func.id not in defaults:
            run.report(r, "py_gql.execution.default_resolver:default_resolver:mapping-call(%s)" % n.func.id, f.where(n),
                       "with a mapping parent the looked-up value `%s` is called" % n.func.id)
    for kind, st, env in exits:
        if kind != "return":
            run.report(r, "py_gql.execution.default_resolver:default_resolver:mapping-exit(%s)" % kind, f.where(st) if st is not None else f.where(),
                       "with a mapping parent the function can %s instead of returning the looked-up value" % kind)
    # positive control: with a non-mapping parent getattr must be reachable (the walk is not vacuous)
    ev2, _ = boolx.walk_under(f.node, lambda t: False if is_mapping_test(t) else None)
    got = [n for n, _e in ev2.values() if isinstance(n, ast.Call) and isinstance(n.func, ast.Name) and alias(n.func.id) == "getattr"]
    r.instance("object parent: getattr reachable = %s" % bool(got))
    shapes.require(bool(got), "C04.R1: control failed — getattr(root, ...) is not reached for a non-mapping parent")


def check_context_threading(prog, run, rule_id):
    """V1: context parameters (variables, fragments, ...) are handed on at every call."""
    from .. import ctxparams
    r = run.rule(rule_id, "context threading in execution/** and utilities/**: when a function hands its own parameter p on, unchanged "
                          "and under the same name, to an optional parameter p of a callee at one call site (variables, fragments, "
                          "visited sets, the error node), every one of its calls to that callee hands p on — a call that leaves p "
                          "to the callee's default evaluates that part without the context (variables inside a singleton literal "
                          "wrapped into a list are no longer substituted)", 5)
    funcs = [f for f in prog.all_funcs() if f.module.name.startswith(("py_gql.execution", "py_gql.utilities"))]
    inst, probs = ctxparams.check(prog, funcs)
    for i in inst:
        r.instance(i)
    for g, n, f, p in probs:
        run.report(r, "%s:%s:drops-context(%s->%s)" % (g.module.name, g.qualname, p, f.qualname), g.where(n),
                   "`%s` calls %s without `%s` although its other calls pass it on: that sub-computation runs with the default "
                   "(no %s)" % (norm_stmt(n, 80), f.qualname, p, p))


def check_add_error(prog, run, r):
    """add_error(err, path, node): when a path is given the error carries exactly that path; the error is always appended."""
    ae = prog.get_func(WRAP, "ResolutionContext.add_error")
    run.looked_at(ae)
    ps = [p for p in ae.params if p != prog.self_name(ae)]
    shapes.require(len(ps) >= 2, "add_error(err, path, ...) signature changed")
    err, path = ps[0], ps[1]
    atom = "%s is None" % path
    try:
        _ev, exits = boolx.walk_under(ae.node, lambda t: False if t == atom else None)
    except ValueError as e:
        raise AnalysisError("add_error: %s" % e)
    r.instance("add_error: %d executions with a path given" % len(exits))
    for kind, st, env in exits:
        atoms = {k: v for k, v in env.items() if k not in boolx.META}
        appended = any(isinstance(c.func, ast.Attribute) and c.func.attr == "append" and c.args and ast.unparse(c.args[0]) == err
                       for c in env.get(boolx.CALLS, ()))
        val = None
        for x in env.get(boolx.STMTS, ()):
            if isinstance(x, ast.Assign) and ast.unparse(x.targets[0]) == "%s.path" % err:
                val = ast.unparse(boolx.path_value(env.get(boolx.STMTS, ()), x, boolx.path_subst(x.value, boolx.path_env(env.get(boolx.STMTS, ()), x)), atoms))
        if kind == "raise" or not appended or val != path:
            cond = ", ".join("%s=%s" % kv for kv in sorted(atoms.items()))
            run.report(r, "%s:ResolutionContext.add_error:path-not-taken" % WRAP, ae.where(st) if st is not None else ae.where(),
                       "when a response path is given (%s) add_error can finish with err.path = %s%s: the error reported for the "
                       "nulled field does not carry that field's path" % (cond, val, "" if appended else " and without appending the error"))
            break



def check_collect_filtering(prog, run, rule_id="K2"):
    # ---- K2 collect_fields filtering
    r = run.rule(rule_id, "collect_fields / collect_fields_untyped: a selection is skipped iff @skip/@include say so (fields), or "
                       "also iff the type condition does not apply / the fragment was already visited (fragments); nothing is "
                       "added or merged before those tests; groups are keyed by the response name (alias first); "
                       "_skip_selection and _fragment_type_applies compute the specified conditions", 14)
    for fname, typed in (("collect_fields", True), ("collect_fields_untyped", False)):
        f = prog.get_func(CF, fname)
        run.looked_at(f)
        loops = [n for n in f.node.body if isinstance(n, ast.For)]
        shapes.require(len(loops) == 1, "C04.K2: %s main loop not found" % fname)
        lp = loops[0]
        var = lp.target.id

        def bev(test, truth, var=var):
            for names, _, pos in shapes.class_tests_signed(test, var):
                if truth == pos:
                    return "is:" + "|".join(names)
            return None

        acc_names = {x.value.id for x in own_nodes(f.node) if isinstance(x, ast.Return) and isinstance(x.value, ast.Name)}

        def ev(n):
            if isinstance(n, ast.Call) and isinstance(n.func, ast.Name):
                if n.func.id == "_skip_selection":
                    return "skip"
                if n.func.id == "_fragment_type_applies":
                    return "applies"
                if n.func.id == "_merge":
                    return "merge"
            if isinstance(n, ast.Call) and isinstance(n.func, ast.Attribute) and n.func.attr == "append" \
                    and any(isinstance(x, ast.Name) and x.id in acc_names for x in ast.walk(n.func.value)):
                return "add"      # appended to a group of the accumulator (= the mapping the function returns)
            return None
        normal, _ = event_paths(None, ev, branch_event=bev, body=lp.body, may_raise=lambda n: None, cap=12)
        for seq in sorted(normal):
            r.instance("%s iteration path %s" % (fname, list(seq)))
            kind = [e[3:] for e in seq if e.startswith("is:")]
            act = [e for e in seq if e in ("add", "merge")]
            if not act:
                continue
            first_act = min(seq.index(a) for a in act)
            key = "%s:%s:path(%s)" % (CF, fname, ">".join(seq))
            if "skip" not in seq[:first_act]:
                run.report(r, key, f.where(lp), "a selection is collected without @skip/@include having been evaluated: %s" % list(seq))
            if typed and kind and kind[-1] in ("InlineFragment", "FragmentSpread") and "applies" not in seq[:first_act]:
                run.report(r, key, f.where(lp), "a fragment's fields are merged without checking its type condition: %s" % list(seq))
            if kind and kind[-1] == "Field" and "merge" in act or (kind and kind[-1] != "Field" and "add" in act):
                run.report(r, key, f.where(lp), "wrong accumulation for selection kind %s: %s" % (kind[-1], list(seq)))
        # truth tables of the skip conditions, in path form: for each selection kind and each assignment of
        # (skipped by directives, type condition applies, fragment already seen) the iteration either collects the
        # selection (an add/merge event happens) or does not — whatever the shape of the tests and `continue`s
        from .. import dispatch
        hier = dispatch.Hierarchy(prog)
        body_fn = boolx.body_function(lp.body)
        for kind_name in ("Field", "InlineFragment", "FragmentSpread"):
            bad, rows = [], 0
            for skip in (False, True):
                for applies in (False, True):
                    for seen in (False, True):
                        def extra(t, skip=skip, applies=applies, seen=seen):
                            if t.startswith("_skip_selection("):
                                return skip
                            if t.startswith("_fragment_type_applies("):
                                return applies
                            if t.endswith(" in _seen_fragments"):
                                return seen
                            return None
                        try:
                            _ev, bexits = boolx.walk_under(body_fn, dispatch.decide_for(hier, var, kind_name, extra))
                        except ValueError as e:
                            raise AnalysisError("C04.K2 %s: %s" % (fname, e))
                        outcomes = set()
                        for k_, st_, env_ in bexits:
                            if any(h.type is not None and "KeyError" in ast.unparse(h.type) for h in env_.get(boolx.HANDLERS, ())):
                                continue      # the spread names an unknown fragment: nothing to collect
                            collected_ = any(ev(c) in ("add", "merge") for c in env_.get(boolx.CALLS, ()))
                            outcomes.add(collected_)
                        if kind_name == "Field":
                            want = not skip
                        elif kind_name == "InlineFragment":
                            want = (not skip and applies) if typed else (not skip)
                        else:
                            want = (not skip and not seen and applies) if typed else (not skip and not seen)
                        rows += 1
                        if outcomes != {want}:
                            bad.append({"skip": skip, "applies": applies, "seen": seen, "collected": sorted(outcomes), "expected": want})
            r.instance("%s: %s skip table (%d rows), %d wrong" % (fname, kind_name, rows, len(bad)))
            if bad:
                run.report(r, "%s:%s:skip-condition(%s)" % (CF, fname, kind_name), f.where(lp),
                           "the skip condition for %s has the wrong truth table: %s" % (kind_name, bad[:3]), {"rows": bad})
        # grouping key and accumulator, by data flow: the accumulator is what the function returns; every subscript of it
        # inside the loop is keyed (through locals) by <selection>.response_name
        from ..canon import Canon
        fcn = Canon(f.node)
        accs = {n.value.id for n in own_nodes(f.node) if isinstance(n, ast.Return) and isinstance(n.value, ast.Name)}
        shapes.require(len(accs) == 1, "C04.K2: %s does not return a single accumulator variable" % fname)
        accn = accs.pop()
        subs = [n for n in ast.walk(lp) if isinstance(n, ast.Subscript) and isinstance(n.value, ast.Name) and n.value.id == accn]
        ktexts = sorted({fcn.text(n.slice) for n in subs})
        r.instance("%s group key(s) %s" % (fname, ktexts))
        if ktexts != ["%s.response_name" % var]:
            run.report(r, "%s:%s:group-key" % (CF, fname), f.where(lp), "fields are not grouped under selection.response_name")
        acc = [n for n in f.node.body if isinstance(n, ast.Assign) and ast.unparse(n.targets[0]) == accn]
        if not acc or "OrderedDict" not in ast.unparse(acc[0].value) and ast.unparse(acc[0].value) not in ("{}", "dict()"):
            run.report(r, "%s:%s:accumulator" % (CF, fname), f.where(), "grouped fields are not accumulated in an insertion-ordered mapping")
    fld = prog.get_class("py_gql.lang.ast", "Field")
    rn = fld.find_method("response_name")
    shapes.require(rn is not None, "C04.K2: ast.Field.response_name not found")
    # path form: alias present -> alias.value, absent -> name.value (whatever the statement shape)
    got = {}
    for present in (True, False):
        def decide(t, present=present):
            if t == "self.alias":
                return present
            if t == "self.alias is None":
                return not present
            return None
        try:
            _ev, rexits = boolx.walk_under(rn.node, decide)
        except ValueError as e:
            raise AnalysisError("C04.K2: %s" % e)
        vals = set()
        for kind, st, env in rexits:
            atoms = {a: b for a, b in env.items() if a not in boolx.META}
            vals.add(ast.unparse(boolx.path_value(env.get(boolx.STMTS, ()), st, st.value, atoms)) if kind == "return" and st.value is not None else "<%s>" % kind)
        got[present] = vals
    r.instance("response_name returns %s with an alias, %s without" % (sorted(got[True]), sorted(got[False])))
    if got[True] != {"self.alias.value"} or got[False] != {"self.name.value"}:
        run.report(r, "py_gql.lang.ast:Field.response_name:shape", rn.where(), "response_name is not `alias if present else name`")
    # _skip_selection
    sk = prog.get_func(CF, "_skip_selection")
    run.looked_at(sk)
    binds = {}
    for n in own_nodes(sk.node):
        if isinstance(n, ast.Assign) and isinstance(n.value, ast.Call) and isinstance(n.value.func, ast.Name) and n.value.func.id == "directive_arguments":
            binds[n.targets[0].id] = ast.unparse(n.value.args[0])
    inv = {v: k for k, v in binds.items()}
    r.instance("_skip_selection directive bindings %s" % binds)
    if set(binds.values()) != {"SkipDirective", "IncludeDirective"}:
        run.report(r, "%s:_skip_selection:directives" % CF, sk.where(), "_skip_selection does not read both @skip and @include: %s" % binds)
    else:
        # path form of the truth table: what the function returns on each of the 16 assignments of
        # (skip present, skip.if, include present, include.if), whatever its statement shape
        sv, iv = inv["SkipDirective"], inv["IncludeDirective"]
        bad, rows = [], 0
        for sp in (False, True):
            for si in (False, True):
                for ip in (False, True):
                    for ii in (False, True):
                        env = {"%s is None" % sv: not sp, sv: sp, "%s['if']" % sv: si,
                               "%s is None" % iv: not ip, iv: ip, "%s['if']" % iv: ii}
                        try:
                            got = boolx.returned_truths(sk.node, lambda t, env=env: env.get(t))
                        except ValueError as e:
                            raise AnalysisError("C04.K2: _skip_selection: %s" % e)
                        want = (sp and si) or (ip and not ii)
                        rows += 1
                        if got != {want}:
                            bad.append({"skip_present": sp, "skip_if": si, "include_present": ip, "include_if": ii, "returns": sorted(map(str, got)), "expected": want})
        r.instance("_skip_selection truth table (%d rows), %d wrong" % (rows, len(bad)))
        if bad:
            run.report(r, "%s:_skip_selection:truth-table" % CF, sk.where(),
                       "_skip_selection differs from (skip present and skip.if) or (include present and not include.if) on %d of 16 "
                       "rows, e.g. %s" % (len(bad), bad[0]), {"rows": bad})
    # _fragment_type_applies
    fa = prog.get_func(CF, "_fragment_type_applies")
    run.looked_at(fa)
    # path form: (has a type condition, same type, abstract, possible) -> applies; the local holding the resolved
    # fragment type is found by data flow (bound to get_type_from_literal(...)), parameters keep their names
    ftv = [n.targets[0].id for n in own_nodes(fa.node) if isinstance(n, ast.Assign) and len(n.targets) == 1 and isinstance(n.targets[0], ast.Name)
           and isinstance(n.value, ast.Call) and isinstance(n.value.func, ast.Attribute) and n.value.func.attr == "get_type_from_literal"]
    shapes.require(len(ftv) == 1, "C04.K2: _fragment_type_applies no longer resolves the type condition with get_type_from_literal")
    ftn = ftv[0]
    objp, fragp = fa.params[1], fa.params[2]
    bad, rows = [], 0
    for has_cond in (False, True):
        for same in (False, True):
            for abstract in (False, True):
                for possible in (False, True):
                    def decide(t, has_cond=has_cond, same=same, abstract=abstract, possible=possible):
                        tt = t.replace(" ", "")
                        if tt == "%s.type_condition" % fragp:
                            return has_cond
                        if tt == "%s.type_conditionisNone" % fragp:
                            return not has_cond
                        if tt in ("%s==%s" % (ftn, objp), "%s==%s" % (objp, ftn), "%sis%s" % (ftn, objp), "%sis%s" % (objp, ftn)):
                            return same
                        if tt.startswith("isinstance(%s," % ftn) and "GraphQLAbstractType" in tt:
                            return abstract
                        if tt.endswith(".is_possible_type(%s,%s)" % (ftn, objp)):
                            return possible
                        if "is_possible_type(" in tt:
                            raise AnalysisError("is_possible_type called with other arguments: %s" % t)
                        return None
                    try:
                        got = boolx.returned_truths(fa.node, decide)
                    except ValueError as e:
                        raise AnalysisError("C04.K2: _fragment_type_applies: %s" % e)
                    except AnalysisError as e:
                        run.report(r, "%s:_fragment_type_applies:arguments" % CF, fa.where(), "type-condition test: %s" % e)
                        got = None
                    if got is None:
                        break
                    want = (not has_cond) or same or (abstract and possible)
                    rows += 1
                    if got != {want}:
                        bad.append({"has_condition": has_cond, "same": same, "abstract": abstract, "possible": possible, "returns": sorted(map(str, got)), "expected": want})
    r.instance("_fragment_type_applies truth table (%d rows), %d wrong" % (rows, len(bad)))
    if bad:
        key = "no-condition" if any(not b["has_condition"] for b in bad) and all(not b["has_condition"] or b["returns"] == [str(b["expected"])] for b in bad) else "truth-table"
        run.report(r, "%s:_fragment_type_applies:%s" % (CF, key), fa.where(),
                   "the type-condition test differs from (no type condition) or same-type or (abstract and possible type): %s" % bad[:2])
