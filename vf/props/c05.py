"""C05 — validation never crashes; structural safety of the shared walk."""
import ast
import re

from .. import shapes, excflow, nodeshape
from ..cfg import event_paths, Flow, calls_only_may_raise
from ..model import AnalysisError, own_nodes, norm_stmt
from . import c06

VISITORS = "py_gql.validation.visitors"
VALIDATE = "py_gql.validation.validate"
LANGVIS = "py_gql.lang.visitor"

# Explicit raises that cannot be reached from validation, one line of reason each
# (keyed by raising function and exception class; anything else is reported).
UNREACHABLE = {
    ("Schema.get_type_from_literal", "TypeError"): "final else for a node that is not NamedType/ListType/NonNullType; the parser only builds those three under a Type slot",
    ("NonNullType.__init__", "ValueError"): "NonNull(NonNull(..)): the grammar has no `T!!`, so parser-built literals never nest two NonNullType nodes",
    ("Schema.get_possible_types", "TypeError"): "final raise for a non-abstract argument; every caller reached from validation tests isinstance(x, GraphQLAbstractType) (= InterfaceType | UnionType, the two handled kinds) first",
    ("classdispatch", "TypeError"): "dispatch on a class missing from the registry: registries cover every node kind (checked by C18.V1)",
}


def stacks_of(cls):
    """Instance attributes used as stacks: both .append()ed and .pop()ped (no-arg pop) somewhere in the class."""
    app, pop = set(), set()
    for k in cls.mro():
        for m in k.methods.values():
            for x in ast.walk(m.node):
                if isinstance(x, ast.Call) and isinstance(x.func, ast.Attribute) and isinstance(x.func.value, ast.Attribute) \
                        and isinstance(x.func.value.value, ast.Name):
                    if x.func.attr == "append":
                        app.add(x.func.value.attr)
                    if x.func.attr == "pop" and not x.args:
                        pop.add(x.func.value.attr)
    return app & pop


def handler_methods(cls):
    seen, out = set(), []
    for c in cls.mro():
        for n, m in c.methods.items():
            if (n.startswith("enter_") or n.startswith("leave_")) and n not in seen:
                seen.add(n)
                out.append((n, m))
    return out


def check(prog, run):
    from . import c06 as _c06t
    _c06t.check_conditionless_fragment_type(prog, run, "T1")   # = C06.T1
    from . import c06 as _c06p
    _c06p.check_all_pairs_within(prog, run, "P1")   # = C06.P1
    from . import c06 as _c06v
    _c06v.check_allowed_position_table(prog, run, "V1")   # = C06.V1: a usage validation lets through wrongly reaches coercion with a null
    from . import c06 as _c06
    _c06.check_parent_exclusivity(prog, run, "E1")   # = C06.E1: a pair validation lets through is answered by whichever field is written first
    rcs = c06.rule_classes(prog)
    spec = c06.specified_rules(prog)
    tiv = prog.get_class(VISITORS, "TypeInfoVisitor")
    disp = prog.get_class(LANGVIS, "DispatchingVisitor")
    base_handlers = {n for n in disp.methods if n.startswith("enter_") or n.startswith("leave_")}

    # ---- X1 no exception escapes a handler
    r = run.rule("X1", "no exception other than SkipNode can leave a handler (enter_*/leave_*) of TypeInfoVisitor or of a "
                       "registered rule: explicit raises through resolved calls (incl. by-name resolution of schema methods), "
                       "minus handlers; raises listed as unreachable carry a reason", 60)
    mr = excflow.MayRaise(prog)
    classes = [tiv] + [rcs[n] for n in spec if n in rcs]
    for c in classes:
        done = set()
        for n, m in handler_methods(c):
            if m.cls is disp or id(m) in done:
                continue
            done.add(id(m))
            run.looked_at(m)
            res = mr.of(m)
            r.instance("%s.%s may raise %s" % (c.name, n, sorted(res)))
            for exc, wit in sorted(res.items()):
                if exc == "SkipNode":
                    continue
                origin = wit[-1] if wit else ""
                src_fn = None
                for w in reversed(wit):
                    if " calls " in w:
                        src_fn = w.split(" calls ")[-1]
                        break
                if src_fn is None:
                    src_fn = "%s.%s" % (c.name, n)
                if (src_fn, exc) in UNREACHABLE:
                    continue
                run.report(r, "%s:%s.%s:escapes(%s<-%s)" % (m.module.name, c.name, m.name, exc, src_fn), m.where(),
                           "%s raised in %s can escape %s.%s, i.e. validate_ast raises instead of returning errors: %s"
                           % (exc, src_fn, c.name, n, " -> ".join(wit[:5])), {"witness": wit})

    # ---- B1 stack balance
    r = run.rule("B1", "for every enter_K/leave_K pair of a visitor that keeps stacks (TypeInfoVisitor, KnownDirectivesChecker, "
                       "UniqueInputFieldNamesChecker): on every path enter_K pushes exactly the multiset of stacks that leave_K pops", 10)
    for c in [tiv, rcs.get("KnownDirectivesChecker"), rcs.get("UniqueInputFieldNamesChecker")]:
        if c is None:
            continue
        def stack_events(m, c=c):
            def ev(n):
                if isinstance(n, ast.Call) and isinstance(n.func, ast.Attribute):
                    if n.func.attr in ("append", "pop") and isinstance(n.func.value, ast.Attribute) and isinstance(n.func.value.value, ast.Name) \
                            and n.func.value.value.id == m.params[0] and n.func.value.attr in stacks_of(c):
                        return ("push:" if n.func.attr == "append" else "pop:") + n.func.value.attr
                    if isinstance(n.func.value, ast.Name) and n.func.value.id == m.params[0]:
                        helper = c.find_method(n.func.attr)
                        if helper is not None and helper is not m and not n.func.attr.startswith(("enter_", "leave_")):
                            evs = []
                            for x in own_nodes(helper.node):
                                if isinstance(x, ast.Call) and isinstance(x.func, ast.Attribute) and x.func.attr in ("append", "pop") \
                                        and isinstance(x.func.value, ast.Attribute) and x.func.value.attr in stacks_of(c):
                                    evs.append(("push:" if x.func.attr == "append" else "pop:") + x.func.value.attr)
                            if evs:
                                return "+".join(evs)
                return None
            normal, _ = event_paths(m.node, ev, may_raise=lambda n: None, cap=12)
            out = set()
            for seq in normal:
                flat = []
                for e in seq:
                    flat.extend(e.split("+"))
                out.add(tuple(sorted(flat)))
            return out
        names = sorted({n[6:] for n, _ in handler_methods(c) if n.startswith("enter_")} | {n[6:] for n, _ in handler_methods(c) if n.startswith("leave_")})
        for k in names:
            em, lm = c.find_method("enter_" + k), c.find_method("leave_" + k)
            if em is not None and em.cls is disp:
                em = None
            if lm is not None and lm.cls is disp:
                lm = None
            pushes = stack_events(em) if em is not None else {()}
            pops = stack_events(lm) if lm is not None else {()}
            push_sets = {tuple(e[5:] for e in p if e.startswith("push:")) for p in pushes}
            pop_sets = {tuple(e[4:] for e in p if e.startswith("pop:")) for p in pops}
            if push_sets == {()} and pop_sets == {()}:
                continue
            r.instance("%s %s: pushes %s / pops %s" % (c.name, k, sorted(push_sets), sorted(pop_sets)))
            if len(push_sets) != 1 or len(pop_sets) != 1 or push_sets != pop_sets:
                run.report(r, "%s:%s:unbalanced(%s)" % (c.module.name, c.name, k), (em or lm).where(),
                           "%s.enter_%s pushes %s but leave_%s pops %s: the stacks drift and later nodes are validated against the "
                           "wrong type information" % (c.name, k, sorted(push_sets), k, sorted(pop_sets)))
            # misplaced pushes in leave / pops in enter
            if any(e.startswith("pop:") for p in pushes for e in p) or any(e.startswith("push:") for p in pops for e in p):
                run.report(r, "%s:%s:wrong-phase(%s)" % (c.module.name, c.name, k), (em or lm).where(), "enter_%s pops or leave_%s pushes" % (k, k))

    # ---- B2 dead handlers
    r = run.rule("B2", "every enter_*/leave_* name defined (method or class-body alias) in a DispatchingVisitor subclass is a "
                       "handler name of the dispatch tables, so it is actually called", 80)
    for c in prog.subclasses(disp):
        for n in list(c.methods):
            if n.startswith("enter_") or n.startswith("leave_"):
                r.instance("%s.%s" % (c.name, n))
                if n not in base_handlers:
                    run.report(r, "%s:%s:dead-handler(%s)" % (c.module.name, c.name, n), c.methods[n].where(),
                               "%s.%s matches no node kind of the dispatch tables and is never called" % (c.name, n))

    # ---- B3 chain order
    r = run.rule("B3", "default_validator builds ChainedVisitor(type_info, *rule visitors): the type-info walk is entered first "
                       "(and left last); every rule receives the same type_info instance", 2)
    dv = prog.get_func(VALIDATE, "default_validator")
    run.looked_at(dv)
    cv = [n for n in own_nodes(dv.node) if isinstance(n, ast.Call) and isinstance(n.func, ast.Name) and n.func.id == "ChainedVisitor"]
    r.instance("chain construction `%s`" % (ast.unparse(cv[0]) if cv else None))
    ok = len(cv) == 1 and cv[0].args and isinstance(cv[0].args[0], ast.Name)
    if ok:
        first = cv[0].args[0].id
        tdef = [n for n in own_nodes(dv.node) if isinstance(n, ast.Assign) and ast.unparse(n.targets[0]) == first]
        ok = len(tdef) == 1 and isinstance(tdef[0].value, ast.Call) and ast.unparse(tdef[0].value.func) == "TypeInfoVisitor"
        rest = cv[0].args[1:]
        ok = ok and len(rest) == 1 and isinstance(rest[0], ast.Starred)
        # each rule class (the variable of a comprehension or of a for loop) is instantiated with (schema, <the type-info visitor>)
        loopvars = {x.id for n in ast.walk(dv.node) if isinstance(n, (ast.For, ast.comprehension)) for x in ast.walk(n.target) if isinstance(x, ast.Name)}
        builds = [n for n in ast.walk(dv.node) if isinstance(n, ast.Call) and isinstance(n.func, ast.Name) and n.func.id in loopvars and len(n.args) == 2]
        r.instance("rule construction `%s`" % (ast.unparse(builds[0]) if builds else None))
        if not builds or any(ast.unparse(b_.args[1]) != first for b_ in builds):
            ok = False
    if not ok:
        run.report(r, "%s:default_validator:chain" % VALIDATE, dv.where(), "the type-info visitor is not the first element of the chain shared by all rules")

    # ---- B4 SkipNode only after an error (or for kinds no earlier visitor tracks)
    r = run.rule("B4", "a rule handler raises SkipNode only after add_error on that path, unless no visitor entered before it "
                       "keeps a stack for that node kind (a silent skip would unbalance the type-info stacks of a valid document)", 8)
    stack_kinds = {}
    for c in [tiv] + [rcs[n] for n in spec if n in rcs]:
        for n, m in handler_methods(c):
            if n.startswith("enter_") and m.cls is not disp:
                if any(isinstance(x, ast.Call) and isinstance(x.func, ast.Attribute) and x.func.attr == "append" and isinstance(x.func.value, ast.Attribute)
                       and x.func.value.attr in stacks_of(c) for x in ast.walk(m.node)) or any(
                        isinstance(x, ast.Call) and isinstance(x.func, ast.Attribute) and isinstance(x.func.value, ast.Name) and x.func.value.id == m.params[0]
                        and c.find_method(x.func.attr) is not None and any(
                            isinstance(y, ast.Call) and isinstance(y.func, ast.Attribute) and y.func.attr == "append" and isinstance(y.func.value, ast.Attribute)
                            and y.func.value.attr in stacks_of(c) for y in ast.walk(c.find_method(x.func.attr).node)) for x in ast.walk(m.node)):
                    stack_kinds.setdefault(n[6:], []).append(c.name)
    order = ["TypeInfoVisitor"] + spec
    for cname in spec:
        c = rcs.get(cname)
        if c is None:
            continue
        done = set()
        for n, m in handler_methods(c):
            if m.cls is disp or not n.startswith("enter_"):
                continue
            if not any(isinstance(x, ast.Raise) and x.exc is not None and "SkipNode" in ast.unparse(x.exc) for x in ast.walk(m.node)):
                continue

            def ev(x, c=c, m=m):
                if isinstance(x, ast.Call) and isinstance(x.func, ast.Attribute) and x.func.attr in ("add_error", "_report_bad_value"):
                    return "error"
                if isinstance(x, ast.Call) and isinstance(x.func, ast.Attribute) and isinstance(x.func.value, ast.Name) and x.func.value.id == m.params[0]:
                    helper = c.find_method(x.func.attr)
                    if helper is not None and helper is not m:
                        # helper that reports on some path
                        if any(isinstance(y, ast.Call) and isinstance(y.func, ast.Attribute) and y.func.attr in ("add_error", "_report_bad_value") for y in ast.walk(helper.node)):
                            return "maybe-error"
                return None
            normal, raised = event_paths(m.node, ev, may_raise=lambda n_: None, cap=10)
            kind = n[6:]
            earlier = [v for v in stack_kinds.get(kind, []) if order.index(v) < order.index(cname)]
            for seq in sorted(raised):
                if seq[-1] != "raise:SkipNode":
                    continue
                r.instance("%s.%s skip path %s (stack keepers before it: %s)" % (cname, n, list(seq), earlier))
                if "error" not in seq and earlier:
                    run.report(r, "%s:%s.%s:silent-skip(%s)" % (m.module.name, cname, m.name, ">".join(seq)), m.where(),
                               "SkipNode is raised without a validation error on this path while %s already pushed state for %s: its "
                               "leave is skipped and the stacks drift for the rest of a document that may be valid" % (earlier, kind))

    # ---- F1 fragment closures (shared with C06.R3): a missed nested fragment means a validated document can crash
    r = run.rule("F1", "fragment reachability closures used by the variable rules and the cycle rule never stop at a visited or "
                       "leaf element (`break`/`return` on a membership test inside the closure loop): otherwise undefined "
                       "variables or cycles deeper in the spread graph pass validation and crash execution", 2)
    vc = prog.get_class(VISITORS, "VariablesCollector")
    nf = rcs.get("NoFragmentCyclesChecker")
    fns = [vc.methods["_flatten_fragments"]] + (c06.cycle_search_functions(nf) if nf and "leave_document" in nf.methods else [])
    for f in fns:
        r.instance("closure %s" % f.qualname)
    c06.closure_breaks(prog, run, r, fns)

    # ---- A1 definite assignment in the execution path
    # ---- L1 literal kinds are accepted only where the executor can coerce them
    r = run.rule("L1", "ValuesOfCorrectType: a list / object / enum literal is accepted silently only where the expected type is a "
                       "ListType / InputObjectType / EnumType: on every execution of the handler consistent with every "
                       "`isinstance(_, <that class>)` test being false, each exit has reported an error, delegated to the scalar "
                       "check, or left because the expected type is unknown (None); otherwise the literal reaches the "
                       "executor's coercion, which raises", 3)
    from .. import boolx
    voc = rcs.get("ValuesOfCorrectTypeChecker")
    shapes.require(voc is not None, "C05.L1: ValuesOfCorrectTypeChecker not found")
    for hname, accept in (("enter_list_value", "ListType"), ("enter_object_value", "InputObjectType"), ("enter_enum_value", "EnumType")):
        m = voc.find_method(hname)
        shapes.require(m is not None, "C05.L1: ValuesOfCorrectTypeChecker.%s not found" % hname)
        run.looked_at(m)

        def decide(t, accept=accept):
            try:
                e = ast.parse(t, mode="eval").body
            except SyntaxError:
                return None
            if isinstance(e, ast.Call) and isinstance(e.func, ast.Name) and e.func.id == "isinstance" and len(e.args) == 2 \
                    and any(isinstance(n, ast.Name) and n.id == accept for n in ast.walk(e.args[1])):
                return False
            return None
        has_test = any(decide(boolx.text(n)) is False for n in ast.walk(m.node) if isinstance(n, ast.Call))
        try:
            _ev, exits = boolx.walk_under(m.node, decide)
        except ValueError as e:
            raise AnalysisError("C05.L1: %s" % e)
        r.instance("%s: %d exits with every isinstance(_, %s) false (test present: %s)" % (hname, len(exits), accept, has_test))
        if not has_test:
            run.report(r, "%s:%s:no-type-test(%s)" % (voc.module.name, m.qualname, accept), m.where(),
                       "%s never tests the expected type against %s: a %s literal in any other position is not rejected by that test"
                       % (hname, accept, hname[6:].replace("_", " ")))
        for kind, st, env in exits:
            calls = [boolx.text(c.func) for c in env.get(boolx.CALLS, ())]
            reported = any(c.split(".")[-1] in ("_report_bad_value", "add_error") or c.split(".")[-1].startswith("_check_") for c in calls)
            # ... or the type-info stacks hold no expected type at this depth (`len(self.type_info.<stack>) < 2`, whichever way the
            # comparison is written: with too few entries there is no type to test)
            def _short_stack(k, v):
                mm = re.match(r"^len\(self\.type_info\.\w+\) *(<|<=|>=|>|==) *\d+$", k)
                return bool(mm) and ((mm.group(1) in ("<", "<=", "==") and v is True) or (mm.group(1) in (">=", ">") and v is False))
            unknown = any((k.endswith(" is None") and v is True) or (k != boolx.CALLS and v is False and k.replace(".", "_").isidentifier())
                          or (isinstance(k, str) and _short_stack(k, v))
                          for k, v in env.items())
            if not (reported or unknown):
                cond = ", ".join("%s=%s" % kv for kv in sorted(env.items()) if kv[0] not in boolx.META)
                run.report(r, "%s:%s:silent-accept(%s)" % (voc.module.name, m.qualname, accept), m.where(st) if st is not None else m.where(),
                           "%s can finish without reporting although the expected type is not a %s (when %s): the literal passes "
                           "validation and the executor's coercion of it raises" % (hname, accept, cond or "always"))

    # ---- N1 node-kind attribute agreement (implicit AttributeError)
    r = run.rule("N1", "every attribute read on the node a handler receives — in the handler of TypeInfoVisitor / a registered "
                       "rule, or in any resolved callee the node is passed to (incl. by-name resolution such as "
                       "ScalarType.parse_literal) — exists on every node class the dispatch table registers for that handler "
                       "(slots, methods), unless narrowed by isinstance or inside try/except AttributeError; an "
                       "AttributeError would leave validation as a crash", 100)
    from .. import kindflow
    ncs = nodeshape.node_classes(prog)
    kf = kindflow.KindFlow(prog, ncs, nodeshape.abstract_classes(prog))
    h2k = {}
    for mname in ("enter", "leave"):
        dm = disp.find_method(mname)
        shapes.require(dm is not None, "C05.N1: DispatchingVisitor.%s not found" % mname)
        for reg in nodeshape.dispatch_registries(dm):
            for cname, h, _v in reg.entries:
                if h:
                    h2k.setdefault(h, set()).add(cname)
    shapes.require(len(h2k) >= 60, "C05.N1: dispatch tables shrank (%d handlers)" % len(h2k))
    for c in classes:
        for n, m in handler_methods(c):
            if m.cls is disp or n not in h2k:
                continue
            ps = [x for x in m.params if x != prog.self_name(m)]
            if not ps:
                continue
            before = kf.reads
            kf.flow(m, ps[0], kf.expand(h2k[n]))
            r.instance("%s.%s(%s: %s): %d attribute reads followed" % (c.name, n, ps[0], "|".join(sorted(h2k[n])), kf.reads - before))
    seen_p = set()
    from .. import pathfeas, dispatch as _dispatch
    _hier = _dispatch.Hierarchy(prog)
    for fi, node, attr, missing, chain in kf.problems:
        # second opinion (vf/pathfeas.py): a read protected by a correlation carried in a local is not evaluated for that class
        if isinstance(node.value, ast.Name):
            missing = [c for c in missing if pathfeas.evaluated_for(prog, fi, node, node.value.id, c, _hier) is not False]
            if not missing:
                continue
        k = (fi.key, attr, tuple(missing))
        if k in seen_p:
            continue
        seen_p.add(k)
        run.report(r, "%s:%s:no-attribute(%s.%s)" % (fi.module.name, fi.qualname, "|".join(missing), attr), fi.where(node),
                   "`%s` is evaluated with a %s node (via %s), which has no attribute `%s`: AttributeError escapes validation"
                   % (norm_stmt(node), " / ".join(missing), " -> ".join(chain), attr))

    # ---- N2 typed attribute chains on AST nodes
    from .. import typedrule

    def seed(eng):
        for c in prog.subclasses(disp):
            for n, m in c.methods.items():
                if n in h2k:
                    ps = [x for x in m.params if x != prog.self_name(m)]
                    if ps:
                        eng.param_types[(m.key, ps[0])] = ("node", eng.expand(h2k[n]))
    typedrule.run_rule(prog, run, "N2", "validation/**, utilities/** and execution/** (handler parameters typed by the dispatch table)",
                       "an AttributeError/TypeError would leave validation or execution as an internal exception",
                       ["py_gql.validation", "py_gql.utilities", "py_gql.execution"], 120, seed)

    # ---- W1 pairwise wrapper comparison (response-shape conflicts), shared with C06
    from .. import pairwrap
    pairwrap.check(prog, run, "W1", ["py_gql.validation", "py_gql.schema.schema"], 2)

    # ---- S1 narrow sentinel handlers in validation and the coercion utilities
    from .. import sentinel
    sentinel.check(prog, run, "S1", ["py_gql.validation", "py_gql.utilities"], 3,
                   "a KeyError raised while validating or collecting would be read as `unknown name` and the document accepted")

    # ---- M1 per-request memo tables of the executor (shared with C04.H2): the grouped sub-selection of a response key is
    #         cached per (runtime type, merged selections); a lossy key hands one object's sub-fields to another
    from . import c04
    c04.check_memo_keys(prog, run, "M1")
    # the response shape of a validated operation is what collect_fields makes of its selection sets (shared with C04.K5)
    c04.check_seen_scope(prog, run, "K6")

    # ---- K1 no lossy skip sets in validation loops
    from .. import loopskip
    loopskip.check(prog, run, "K1", ["py_gql.validation"], 20,
                   "e.g. only the first usage of a variable is type-checked, so an incompatible later usage passes validation")

    r = run.rule("A1", "every local variable read in execution/** and utilities/** functions is assigned on every path reaching "
                       "the read (definite assignment over the CFG incl. exception edges)", 100)
    mods = [m for m in prog.modules.values() if m.name.startswith("py_gql.execution") or m.name.startswith("py_gql.utilities")]
    for m in mods:
        for f in [x for x in prog.all_funcs() if x.module is m]:
            bad = undefined_reads(f)
            if bad is None:
                continue
            r.instance(f.key, nontrivial=True)
            run.looked_at(f)
            for name, node in bad:
                run.report(r, "%s:%s:possibly-unassigned(%s)" % (m.name, f.qualname, name), f.where(node),
                           "local variable %s can be read before assignment on some path (UnboundLocalError): `%s`" % (name, norm_stmt(node, 80)))


def undefined_reads(f):
    """Definite-assignment analysis.  Returns list of (name, node) for loads of
    locals not assigned on some path, or None if the function is skipped."""
    node = f.node
    if isinstance(node, ast.Lambda):
        return None
    locals_ = set()
    for n in own_nodes(node):
        if isinstance(n, ast.Name) and isinstance(n.ctx, ast.Store):
            locals_.add(n.id)
        if isinstance(n, (ast.FunctionDef, ast.AsyncFunctionDef, ast.ClassDef)):
            locals_.add(n.name)
        if isinstance(n, ast.ExceptHandler) and n.name:
            locals_.add(n.name)
        if isinstance(n, (ast.Import, ast.ImportFrom)):
            for a in n.names:
                locals_.add((a.asname or a.name).split(".")[0])
    for n in own_nodes(node):
        if isinstance(n, (ast.Global, ast.Nonlocal)):
            locals_ -= set(n.names)
    params = set(f.all_params)
    locals_ -= params
    if not locals_:
        return []
    # names stored inside comprehensions are scoped to them
    comp_vars = set()
    for n in own_nodes(node):
        if isinstance(n, ast.comprehension):
            for x in ast.walk(n.target):
                if isinstance(x, ast.Name):
                    comp_vars.add(x.id)
    bad = {}

    def stores(n):
        out = set()
        for x in _walk_scope(n):
            if isinstance(x, ast.Name) and isinstance(x.ctx, ast.Store):
                out.add(x.id)
            if isinstance(x, (ast.Import, ast.ImportFrom)):
                for a in x.names:
                    out.add((a.asname or a.name).split(".")[0])
        return out

    def loads(n):
        for x in _walk_scope(n):
            if isinstance(x, ast.Name) and isinstance(x.ctx, ast.Load) and x.id in locals_:
                yield x

    def transfer(state, n, kind):
        if kind == "def":
            return [state | {n.name}]
        if kind == "handler":
            return [state | ({n.name} if n.name else set())]
        # AugAssign reads its target
        for x in loads(n):
            if x.id not in state and x.id not in comp_vars:
                bad.setdefault((x.id, x.lineno), x)
        if isinstance(n, ast.AugAssign) and isinstance(n.target, ast.Name) and n.target.id in locals_ and n.target.id not in state:
            bad.setdefault((n.target.id, n.lineno), n.target)
        if kind == "iter":
            # the for target is assigned only when the loop body runs; handled by adding it for the body states
            return [state]
        return [frozenset(state | stores(n))]

    class F(Flow):
        def _stmt(self, st, states):
            if isinstance(st, (ast.For, ast.AsyncFor)):
                # assign the loop target on entry of the body: model by rewriting states in transfer of first body stmt
                tgt = stores(st.target)
                orig_body = st.body
                marker = ast.Pass()
                marker._assign = tgt
                st = type(st)(target=st.target, iter=st.iter, body=[marker] + list(orig_body), orelse=st.orelse, lineno=st.lineno, col_offset=st.col_offset)
            return super()._stmt(st, states)

    def transfer2(state, n, kind):
        if isinstance(n, ast.Pass) and hasattr(n, "_assign"):
            return [frozenset(state | n._assign)]
        return transfer(state, n, kind)
    try:
        fl = F(transfer2, max_states=600)
        fl.run(node, {frozenset()})
    except AnalysisError:
        return None
    return [(k[0], v) for k, v in sorted(bad.items(), key=lambda kv: kv[0][1])]


def _walk_scope(n):
    stack = [n]
    while stack:
        x = stack.pop()
        yield x
        for ch in ast.iter_child_nodes(x):
            if isinstance(ch, (ast.FunctionDef, ast.AsyncFunctionDef, ast.Lambda, ast.ClassDef)):
                continue
            stack.append(ch)
