"""C06 — validation verdicts: rule registry, tables shared with parser/schema,
closures iterated to a fixpoint, per-usage records, handler coverage."""
import ast

from .. import shapes, nodeshape
from ..model import AnalysisError, own_nodes, norm_stmt

RULES = "py_gql.validation.rules"
VALIDATE = "py_gql.validation.validate"
VISITORS = "py_gql.validation.visitors"
PARSER = "py_gql.lang.parser"

# June-2018 specification, section 5 (Validation): rule -> implementing class
SPEC_RULES = {
    "5.1.1 Executable Definitions": "ExecutableDefinitionsChecker",
    "5.2.1.1 Operation Name Uniqueness": "UniqueOperationNameChecker",
    "5.2.2.1 Lone Anonymous Operation": "LoneAnonymousOperationChecker",
    "5.2.3.1 Single root field": "SingleFieldSubscriptionsChecker",
    "5.3.1 Field Selections on Objects, Interfaces, and Unions Types": "FieldsOnCorrectTypeChecker",
    "5.3.2 Field Selection Merging": "OverlappingFieldsCanBeMergedChecker",
    "5.3.3 Leaf Field Selections": "ScalarLeafsChecker",
    "5.4.1 Argument Names": "KnownArgumentNamesChecker",
    "5.4.2 Argument Uniqueness": "UniqueArgumentNamesChecker",
    "5.4.2.1 Required Arguments": "ProvidedRequiredArgumentsChecker",
    "5.5.1.1 Fragment Name Uniqueness": "UniqueFragmentNamesChecker",
    "5.5.1.2 Fragment Spread Type Existence": "KnownTypeNamesChecker",
    "5.5.1.3 Fragments On Composite Types": "FragmentsOnCompositeTypesChecker",
    "5.5.1.4 Fragments Must Be Used": "NoUnusedFragmentsChecker",
    "5.5.2.1 Fragment spread target defined": "KnownFragmentNamesChecker",
    "5.5.2.2 Fragment spreads must not form cycles": "NoFragmentCyclesChecker",
    "5.5.2.3 Fragment spread is possible": "PossibleFragmentSpreadsChecker",
    "5.6.1 Values of Correct Type": "ValuesOfCorrectTypeChecker",
    "5.6.2 Input Object Field Names (part of values of correct type)": "ValuesOfCorrectTypeChecker",
    "5.6.3 Input Object Field Uniqueness": "UniqueInputFieldNamesChecker",
    "5.6.4 Input Object Required Fields (part of values of correct type)": "ValuesOfCorrectTypeChecker",
    "5.7.1 Directives Are Defined": "KnownDirectivesChecker",
    "5.7.2 Directives Are In Valid Locations": "KnownDirectivesChecker",
    "5.7.3 Directives Are Unique Per Location": "UniqueDirectivesPerLocationChecker",
    "5.8.1 Variable Uniqueness": "UniqueVariableNamesChecker",
    "5.8.2 Variables Are Input Types": "VariablesAreInputTypesChecker",
    "5.8.3 All Variable Uses Defined": "NoUndefinedVariablesChecker",
    "5.8.4 All Variables Used": "NoUnusedVariablesChecker",
    "5.8.5 All Variable Usages are Allowed": "VariablesInAllowedPositionChecker",
}


def snake(name):
    out = []
    for i, ch in enumerate(name):
        if ch.isupper() and i and (not name[i - 1].isupper() or (i + 1 < len(name) and name[i + 1].islower())):
            out.append("_")
        out.append(ch.lower())
    return "".join(out)


def rule_classes(prog):
    base = prog.get_class(VISITORS, "ValidationVisitor")
    out = {}
    for c in prog.subclasses(base):
        if c.module.name.startswith(RULES):
            out[c.name] = c
    return out


def specified_rules(prog):
    vals = prog.fold_name(VALIDATE, "SPECIFIED_RULES")
    out = []
    for v in vals:
        if isinstance(v, tuple) and v[0] == "class":
            out.append(v[1])
        else:
            raise AnalysisError("SPECIFIED_RULES entry %r is not a class" % (v,))
    return out


def check(prog, run):
    check_conditionless_fragment_type(prog, run, "T1")
    check_all_pairs_within(prog, run, "P1")
    check_allowed_position_table(prog, run, "V1")
    check_parent_exclusivity(prog, run, "E1")
    rcs = rule_classes(prog)
    spec = specified_rules(prog)
    ncs = nodeshape.node_classes(prog)

    # ---- R1 registry
    r = run.rule("R1", "SPECIFIED_RULES = rules.__all__ = the concrete ValidationVisitor subclasses defined under "
                       "validation/rules, and every validation rule of the June-2018 specification has its implementing class "
                       "registered (once)", 26)
    all_ = list(prog.fold_name(RULES, "__all__"))
    for name in sorted(set(spec) | set(all_) | set(rcs) | set(SPEC_RULES.values())):
        r.instance("rule class %s" % name)
        where = "src/py_gql/validation/validate.py"
        if name in rcs and name not in spec:
            run.report(r, "%s:SPECIFIED_RULES:unregistered(%s)" % (VALIDATE, name), where, "rule class %s exists but is not in SPECIFIED_RULES: that specification rule is never checked" % name)
        if name in spec and name not in rcs:
            run.report(r, "%s:SPECIFIED_RULES:not-a-rule(%s)" % (VALIDATE, name), where, "%s is registered but is not a ValidationVisitor defined under validation/rules" % name)
        if name in rcs and name not in all_:
            run.report(r, "%s:__all__:unexported(%s)" % (RULES, name), "src/py_gql/validation/rules/__init__.py", "%s is not exported in __all__" % name)
        if name in SPEC_RULES.values() and name not in spec:
            sec = [k for k, v in SPEC_RULES.items() if v == name]
            run.report(r, "%s:SPECIFIED_RULES:spec-rule-missing(%s)" % (VALIDATE, name), where, "specification rule(s) %s have no registered implementation (%s)" % (sec, name))
    if len(spec) != len(set(spec)):
        dup = sorted({x for x in spec if spec.count(x) > 1})
        run.report(r, "%s:SPECIFIED_RULES:duplicate" % VALIDATE, "src/py_gql/validation/validate.py", "rules registered twice: %s (errors are reported twice)" % dup)

    # ---- R2 directive locations
    r = run.rule("R2", "KnownDirectivesChecker._current_location can produce every location of parser.DIRECTIVE_LOCATIONS and "
                       "nothing else; every node class it maps is tracked as an ancestor (enter_/leave_ pair)", 19)
    kd = rcs.get("KnownDirectivesChecker")
    shapes.require(kd is not None, "C06.R2: KnownDirectivesChecker not found")
    cl = kd.methods.get("_current_location")
    shapes.require(cl is not None, "C06.R2: _current_location not found")
    run.looked_at(cl)
    produced = set()
    mapped_classes = set()
    for n in ast.walk(cl.node):
        if isinstance(n, ast.Dict):
            for k, v in zip(n.keys, n.values):
                if isinstance(v, ast.Constant) and isinstance(v.value, str):
                    produced.add(v.value)
                if isinstance(k, ast.Attribute):
                    mapped_classes.add(k.attr)
        if isinstance(n, ast.Return) and isinstance(n.value, ast.IfExp):
            for b in (n.value.body, n.value.orelse):
                if isinstance(b, ast.Constant):
                    produced.add(b.value)
        if isinstance(n, ast.Compare) and isinstance(n.ops[0], ast.Is) and isinstance(n.comparators[0], ast.Attribute) \
                and isinstance(n.left, ast.Name) and n.left.id == "kind":
            mapped_classes.add(n.comparators[0].attr)
    for n in ast.walk(cl.node):
        if isinstance(n, ast.Call) and isinstance(n.func, ast.Attribute) and n.func.attr == "get" and len(n.args) == 2 and isinstance(n.args[1], ast.Constant):
            produced.add(n.args[1].value)
    locations = set(prog.fold_name(PARSER, "DIRECTIVE_LOCATIONS"))
    for loc in sorted(locations | produced):
        r.instance("location %s" % loc)
        if loc not in produced:
            run.report(r, "%s:KnownDirectivesChecker._current_location:missing(%s)" % (RULES, loc), cl.where(),
                       "the parser and Directive accept location %s but the rule can never attribute a directive to it: a "
                       "directive declared only for %s is always reported as misplaced" % (loc, loc))
        if loc not in locations:
            run.report(r, "%s:KnownDirectivesChecker._current_location:unknown(%s)" % (RULES, loc), cl.where(), "%s is not a directive location" % loc)
    for cname in sorted(mapped_classes):
        h = snake(cname)
        ok = ("enter_" + h) in kd.methods and ("leave_" + h) in kd.methods
        r.instance("ancestor tracking for %s: %s" % (cname, ok))
        if not ok:
            run.report(r, "%s:KnownDirectivesChecker:untracked(%s)" % (RULES, cname), kd.module.relpath,
                       "%s is mapped to a location but not pushed/popped as an ancestor" % cname)
    # schema side: Directive accepts exactly the parser's locations
    dcls = prog.get_class("py_gql.schema.types", "Directive")
    txt = ast.unparse(dcls.node)
    r.instance("schema Directive validates locations against DIRECTIVE_LOCATIONS: %s" % ("DIRECTIVE_LOCATIONS" in txt))

    # ---- R3 closures iterate to a fixpoint
    r = run.rule("R3", "fragment-reachability closures are computed to a fixpoint (recursion or a worklist that re-examines what "
                       "it adds), not by a single pass over an insertion-ordered mapping", 2)
    vc = prog.get_class(VISITORS, "VariablesCollector")
    ff = vc.methods.get("_flatten_fragments")
    shapes.require(ff is not None, "C06.R3: VariablesCollector._flatten_fragments not found")
    run.looked_at(ff)
    has_while = any(isinstance(n, ast.While) for n in own_nodes(ff.node))
    recursive = any(isinstance(n, ast.Call) and isinstance(n.func, ast.Attribute) and n.func.attr == "_flatten_fragments" for n in own_nodes(ff.node))
    worklist = False
    for n in own_nodes(ff.node):
        if isinstance(n, ast.While):
            pops = [x for x in ast.walk(n) if isinstance(x, ast.Call) and isinstance(x.func, ast.Attribute) and x.func.attr in ("pop", "popleft")]
            pushes = [x for x in ast.walk(n) if isinstance(x, ast.Call) and isinstance(x.func, ast.Attribute) and x.func.attr in ("append", "extend", "add")]
            for p in pops:
                if any(ast.unparse(q.func.value) == ast.unparse(p.func.value) for q in pushes):
                    worklist = True
            if ast.unparse(n.test).startswith("changed") or "changed" in ast.unparse(n.test):
                worklist = True
    r.instance("_flatten_fragments: while=%s worklist=%s recursive=%s" % (has_while, worklist, recursive))
    if not (worklist or recursive):
        run.report(r, "%s:VariablesCollector._flatten_fragments:single-pass" % VISITORS, ff.where(),
                   "fragments spread through other fragments are added in one pass over the fragments in definition order: a chain "
                   "op > A > B > C is only followed when A, B, C are defined in that order, so the verdict depends on definition order")
    nf = rcs.get("NoFragmentCyclesChecker")
    ld = nf.methods.get("leave_document") if nf else None
    shapes.require(ld is not None, "C06.R3: NoFragmentCyclesChecker.leave_document not found")
    srch = cycle_search_functions(nf)
    rec = any(isinstance(n, ast.Call) and ((isinstance(n.func, ast.Name) and n.func.id == f.name) or (
        isinstance(n.func, ast.Attribute) and n.func.attr == f.name and isinstance(n.func.value, ast.Name) and n.func.value.id == "self"))
        for f in srch for n in own_nodes(f.node))
    closure_breaks(prog, run, r, [ff] + srch)
    # what the search skips is decided by sets that belong to this search (created in it or handed to it), never by one that
    # outlives it: a fragment settled while searching from another root may still lie on a cycle of its own
    for sf in srch:
        own = set(sf.all_params) | {x.id for x in own_nodes(sf.node) if isinstance(x, ast.Name) and isinstance(x.ctx, ast.Store)}
        for n in own_nodes(sf.node):
            if isinstance(n, ast.Compare) and len(n.ops) == 1 and isinstance(n.ops[0], (ast.In, ast.NotIn)) and isinstance(n.comparators[0], ast.Name) \
                    and n.comparators[0].id not in own and prog.local_binding(sf, n.comparators[0].id)[0] in ("local", "param"):
                run.report(r, "%s:NoFragmentCyclesChecker.%s:skip-set-outlives-search(%s)" % (RULES, sf.name, n.comparators[0].id), sf.where(n),
                           "the cycle search consults `%s`, a set of the enclosing function that persists from one root to the next: a "
                           "fragment reached from an acyclic root is never searched again, so a cycle among fragments defined later goes "
                           "unreported and the verdict depends on definition order" % n.comparators[0].id)
    r.instance("NoFragmentCyclesChecker search is recursive: %s" % rec)
    if not rec:
        run.report(r, "%s:NoFragmentCyclesChecker.leave_document:not-transitive" % RULES, ld.where(), "cycle search does not follow spreads transitively")

    # ---- R8 symmetric pairwise comparison in the field-merging rule
    r8 = run.rule("R8", "the field-merging rule compares the two selection sets symmetrically: every helper call comparing side 1 "
                        "with side 2 has its mirror, and no call compares a side with itself", 3)
    symmetric_comparisons(prog, run, r8)

    # ---- R9 enclosing type of a spread is the parent type of the selection set
    r9 = run.rule("R9", "both handlers of PossibleFragmentSpreadsChecker take the enclosing type passed to types_overlap from "
                        "type_info.parent_type (the unwrapped type of the enclosing selection set), never from type_info.type "
                        "(the enclosing field's declared type, wrappers included)", 2)
    pf = rcs.get("PossibleFragmentSpreadsChecker")
    shapes.require(pf is not None, "C06.R9: PossibleFragmentSpreadsChecker not found")
    for hname in ("enter_fragment_spread", "enter_inline_fragment"):
        hm = pf.methods.get(hname)
        shapes.require(hm is not None, "C06.R9: %s not found" % hname)
        run.looked_at(hm)
        calls = [n for n in own_nodes(hm.node) if isinstance(n, ast.Call) and isinstance(n.func, ast.Attribute) and n.func.attr == "types_overlap"]
        shapes.require(len(calls) == 1 and len(calls[0].args) == 2, "C06.R9: types_overlap call not found in %s" % hname)
        enclosing = calls[0].args[1]
        src = None
        if isinstance(enclosing, ast.Name):
            defs = [x.value for x in own_nodes(hm.node) if isinstance(x, ast.Assign) and ast.unparse(x.targets[0]) == enclosing.id]
            src = ast.unparse(defs[0]) if len(defs) == 1 else None
        r9.instance("%s: enclosing type `%s` = %s" % (hname, ast.unparse(enclosing), src))
        if src != "self.type_info.parent_type":
            run.report(r9, "%s:PossibleFragmentSpreadsChecker.%s:enclosing-type(%s)" % (RULES, hname, src), hm.where(calls[0]),
                       "the enclosing type compared with the fragment type is `%s`: for a list or non-null field it is a wrapper, the "
                       "composite-type test fails and impossible spreads under such fields are accepted" % src)

    # ---- M1 visited sets are scoped to the values they were filled for
    rm = run.rule("M1", "every `if key in S: return ... S.add(key)` skip in the validation package is fed, at every call site, a set "
                        "created for that computation (fresh set(), the function's own set forwarded unchanged in recursion, or a "
                        "local set() shared only by calls with identical other arguments): otherwise a fragment marked as compared "
                        "for one field map suppresses its comparison with another, and the verdict depends on selection order", 3)
    from .. import visitedset
    vfuncs = [f for f in prog.all_funcs() if f.module.name.startswith("py_gql.validation")]
    idioms = visitedset.find_idioms(vfuncs)
    shapes.require(any(f.qualname == "_conflicts_between_fields_and_fragment" for f, _s, _k in idioms),
                   "C06.M1: the compared_fragments skip of _conflicts_between_fields_and_fragment was not recognised")
    sites, problems = visitedset.check_sites(prog, vfuncs, idioms)
    for f, S, keys in idioms:
        run.looked_at(f)
    for t in sites:
        rm.instance(t)
    for caller, node, key, msg in problems:
        run.report(rm, "%s:%s:%s" % (caller.module.name, caller.qualname, key), caller.where(node), msg)

    # ---- W1 pairwise wrapper comparison descends level by level
    from .. import pairwrap
    pairwrap.check(prog, run, "W1", ["py_gql.validation", "py_gql.schema.schema"], 2)

    # ---- I1 per-document state lives on the instance
    ri = run.rule("I1", "no validation visitor class (TypeInfoVisitor, VariablesCollector, every registered rule and their bases in "
                        "validation/**) keeps mutable state in a class attribute (set/dict/list literal or constructor call in the "
                        "class body): such a container is shared by every validation in the process, so names left in it by an "
                        "aborted or concurrent validation change the verdict of an unrelated document", 25)
    vclasses = [c for c in prog.all_classes() if c.module.name.startswith("py_gql.validation")]
    for c in vclasses:
        ri.instance(c.name)
        for an, av in c.attrs.items():
            if an.startswith("__"):
                continue
            mutable = isinstance(av, (ast.Dict, ast.List, ast.Set, ast.ListComp, ast.DictComp, ast.SetComp)) or (
                isinstance(av, ast.Call) and isinstance(av.func, ast.Name) and av.func.id in ("dict", "list", "set", "OrderedDict", "defaultdict", "deque"))
            if not mutable:
                continue
            written = any(
                (isinstance(n, ast.Call) and isinstance(n.func, ast.Attribute) and isinstance(n.func.value, ast.Attribute) and n.func.value.attr == an
                 and n.func.attr in ("add", "append", "update", "clear", "pop", "setdefault", "extend", "discard", "remove"))
                or (isinstance(n, ast.Subscript) and isinstance(n.ctx, ast.Store) and isinstance(n.value, ast.Attribute) and n.value.attr == an)
                for k in [c] + prog.subclasses(c) for m in k.methods.values() for n in ast.walk(m.node))
            if written:
                run.report(ri, "%s:%s:class-level-state(%s)" % (c.module.name, c.name, an), c.module.relpath,
                           "%s.%s is a mutable container created in the class body and written by the handlers: every %s instance in "
                           "the process shares it" % (c.name, an, c.name))

    # ---- U1 kinds of declared input types are tested after unwrapping
    ru = run.rule("U1", "in TypeInfoVisitor and ValuesOfCorrectTypeChecker, an expected input type read from the input-type stack "
                        "(`_peek(self._input_type_stack, k)`, `self.input_type`, `self.type_info.input_type`, `...parent_input_type` is "
                        "built from it) is a DECLARED type and may be wrapped in NonNull/List: a test of its kind against a named "
                        "kind (InputObjectType, EnumType, ScalarType) is made on unwrap_type(...) of it (flow-sensitive within the "
                        "function: the last binding before the test counts) — otherwise `In!` and `[In]` positions are treated as "
                        "`not an input object` and their unknown fields / bad members are never reported", 5)
    NAMED_IN = {"ScalarType", "EnumType", "InputObjectType"}
    tiv = prog.get_class("py_gql.validation.visitors", "TypeInfoVisitor")
    ucls = [tiv] + ([rcs["ValuesOfCorrectTypeChecker"]] if "ValuesOfCorrectTypeChecker" in rcs else [])

    def _is_stack_read(e):
        t = ast.unparse(e)
        if isinstance(e, ast.Call) and isinstance(e.func, ast.Name) and e.func.id == "_peek" and "_input_type_stack" in t:
            return True
        if isinstance(e, ast.Subscript) and "_input_type_stack" in ast.unparse(e.value):
            return True
        return isinstance(e, ast.Attribute) and e.attr == "input_type" and t in ("self.input_type", "self.type_info.input_type")
    for c in ucls:
        for mname, m in c.methods.items():
            for n in own_nodes(m.node):
                if not (isinstance(n, ast.Call) and isinstance(n.func, ast.Name) and n.func.id == "isinstance" and len(n.args) == 2):
                    continue
                ks = {x.id for x in ast.walk(n.args[1]) if isinstance(x, ast.Name)}
                if not (ks & NAMED_IN) or (ks & {"ListType", "NonNullType", "WrappingType"}):
                    continue
                e = n.args[0]
                hops = 0
                while isinstance(e, ast.Name) and hops < 4:
                    # the last simple binding of that name located before the test (source order)
                    binds = [x for x in own_nodes(m.node) if isinstance(x, ast.Assign) and len(x.targets) == 1 and isinstance(x.targets[0], ast.Name)
                             and x.targets[0].id == e.id and (x.lineno, x.col_offset) < (n.lineno, n.col_offset)]
                    if not binds:
                        break
                    e = max(binds, key=lambda x: (x.lineno, x.col_offset)).value
                    if isinstance(e, ast.IfExp):
                        e = e.body if not (isinstance(e.body, ast.Constant) and e.body.value is None) else e.orelse
                    hops += 1
                sanitized = isinstance(e, ast.Call) and isinstance(e.func, ast.Name) and e.func.id in ("unwrap_type",)
                src = _is_stack_read(e)
                ru.instance("%s.%s: `%s` tests %s" % (c.name, mname, " ".join(ast.unparse(n).split())[:60], "an unwrapped type" if sanitized else ("a raw stack entry" if src else "another value")))
                if src and not sanitized:
                    run.report(ru, "%s:%s.%s:kind-test-on-wrapped-type(%s)" % (c.module.name, c.name, mname, "|".join(sorted(ks & NAMED_IN))), m.where(n),
                               "`%s` tests a declared input type taken from the input-type stack without unwrapping it: for `T!` or `[T]` "
                               "the test is false and the position is treated as not being of that kind" % " ".join(ast.unparse(n).split())[:80])

    # ---- K1 no lossy skip sets in validation loops
    from .. import loopskip
    loopskip.check(prog, run, "K1", ["py_gql.validation"], 20,
                   "e.g. only the first usage of a variable is type-checked, so an incompatible later usage passes validation")

    # ---- S2 two-sided comparisons keep their sides apart
    from .. import sides
    sides.check(prog, run, "S2", ["py_gql.validation", "py_gql.schema.schema"], 4)

    # ---- K2 selection kinds
    # a rule that counts or compares selections must see all three kinds (shared with C04.K1): SingleFieldSubscriptions counting
    # only fields and inline fragments accepts `subscription { a ...F }`
    from . import c04
    c04.check_selection_dispatch(prog, run, "K2")

    # ---- R4 per-usage records
    r = run.rule("R4", "variable usages checked by VariablesInAllowedPositionChecker come from a container that records every "
                       "usage (appended per occurrence), not from a mapping keyed by the variable name alone", 1)
    va = rcs.get("VariablesInAllowedPositionChecker")
    it = va.methods.get("iter_op_variables") if va else None
    shapes.require(it is not None, "C06.R4: iter_op_variables not found")
    run.looked_at(it)
    ev = vc.methods.get("enter_variable")
    appended = set()
    keyed_by_name = set()
    for n in own_nodes(ev.node):
        if isinstance(n, ast.Call) and isinstance(n.func, ast.Attribute) and n.func.attr == "append":
            base = n.func.value
            if isinstance(base, ast.Subscript) and isinstance(base.value, ast.Attribute):
                appended.add(base.value.attr)
        if isinstance(n, ast.Assign) and isinstance(n.targets[0], ast.Subscript) and isinstance(n.targets[0].value, ast.Subscript) \
                and isinstance(n.targets[0].value.value, ast.Attribute):
            keyed_by_name.add(n.targets[0].value.value.attr)
    for n in own_nodes(it.node):
        src = None
        if isinstance(n, ast.For):
            src = n.iter
        if src is None:
            continue
        attrs = [x.attr for x in ast.walk(src) if isinstance(x, ast.Attribute) and isinstance(x.value, ast.Name) and x.value.id == "self"]
        for a in attrs:
            if a in appended or a in keyed_by_name:
                r.instance("iter_op_variables reads self.%s (%s)" % (a, "per-usage list" if a in appended else "mapping keyed by variable name"))
                if a in keyed_by_name and a not in appended:
                    run.report(r, "%s:VariablesInAllowedPositionChecker.iter_op_variables:keyed-by-name(%s)" % (RULES, a), it.where(n),
                               "usages are read from self.%s, where a second usage of the same variable overwrites the first: only "
                               "the last usage's position is type-checked, so `{ g(s: $a) f(i: $a) }` and the reverse order get "
                               "different verdicts" % a)

    # ---- R5 directive-bearing executable nodes covered by the uniqueness rule
    r = run.rule("R5", "UniqueDirectivesPerLocationChecker has an enter handler for every executable node class that carries "
                       "directives", 6)
    ud = rcs.get("UniqueDirectivesPerLocationChecker")
    shapes.require(ud is not None, "C06.R5: UniqueDirectivesPerLocationChecker not found")
    executable = ["OperationDefinition", "VariableDefinition", "Field", "FragmentSpread", "InlineFragment", "FragmentDefinition"]
    for cname in executable:
        nc = ncs.get(cname)
        if nc is None or "directives" not in (nc.own_slots or []):
            continue
        h = "enter_" + snake(cname)
        r.instance("%s -> %s" % (cname, h))
        if h not in ud.methods:
            run.report(r, "%s:UniqueDirectivesPerLocationChecker:no-handler(%s)" % (RULES, cname), ud.module.relpath,
                       "duplicate directives on a %s are not reported" % cname)

    # ---- R6 value-kind exhaustiveness of the literal checker
    r = run.rule("R6", "ValuesOfCorrectTypeChecker has an enter handler for every concrete Value node class (variables are "
                       "checked by VariablesInAllowedPositionChecker)", 8)
    vt = rcs.get("ValuesOfCorrectTypeChecker")
    shapes.require(vt is not None, "C06.R6: ValuesOfCorrectTypeChecker not found")
    for cname in nodeshape.concrete_subclasses(prog, "Value"):
        h = "enter_" + snake(cname)
        r.instance("%s -> %s" % (cname, h))
        if h not in vt.methods:
            run.report(r, "%s:ValuesOfCorrectTypeChecker:no-handler(%s)" % (vt.module.name, cname), vt.module.relpath,
                       "literals of kind %s are never checked against the expected input type" % cname)

    # ---- R7 untraversed type references are resolved by a rule
    r = run.rule("R7", "every type-reference slot of an executable node that the AST visitor does not traverse (so "
                       "KnownTypeNamesChecker never sees it) is resolved by a rule handler of that node class which reports "
                       "UnknownType as a validation error", 2)
    from . import c18
    visitor = prog.get_class("py_gql.lang.visitor", "ASTVisitor")
    routes, _ = c18.routed_classes(prog, visitor)
    children = nodeshape.child_slots(prog)
    cons = {c.cls: c for c in nodeshape.parser_constructions(prog)}
    type_kinds = {"NamedType", "ListType", "NonNullType", "Type"}
    for h, classes in routes.items():
        m = visitor.find_method(h)
        if m is None or len(m.params) < 2:
            continue
        trs = {s for s, _, _, _ in c18.traversals(m, m.params[1], prog)}
        for cname in classes:
            if cname not in ("InlineFragment", "FragmentDefinition", "VariableDefinition", "OperationDefinition", "Field", "FragmentSpread"):
                continue
            c = cons.get(cname)
            if c is None:
                continue
            for slot, kinds in c.child_kinds.items():
                if not (kinds & type_kinds) or slot in trs:
                    continue
                # which rule handlers for this class read node.<slot> and turn UnknownType into an error?
                handled_by = []
                hn = "enter_" + snake(cname)
                for rn, rc in rcs.items():
                    if rn not in spec:
                        continue
                    hm = rc.methods.get(hn)
                    if hm is None or len(hm.params) < 2:
                        continue
                    reads = any(isinstance(x, ast.Attribute) and x.attr == slot and isinstance(x.value, ast.Name) and x.value.id == hm.params[1]
                                for x in ast.walk(hm.node))
                    reports = False
                    for x in ast.walk(hm.node):
                        if isinstance(x, ast.ExceptHandler) and x.type is not None and "UnknownType" in ast.unparse(x.type):
                            if any(isinstance(y, ast.Call) and isinstance(y.func, ast.Attribute) and y.func.attr == "add_error" for y in ast.walk(x)):
                                reports = True
                    if reads and reports:
                        handled_by.append(rn)
                r.instance("%s.%s untraversed; unknown types reported by %s" % (cname, slot, handled_by))
                if not handled_by:
                    run.report(r, "%s:untraversed-type-reference(%s.%s)" % (RULES, cname, slot), "src/py_gql/validation/rules/__init__.py",
                               "%s.%s is not traversed by the visitor, so KnownTypeNamesChecker never sees it, and no rule handler of "
                               "%s reports an unknown type there: a document referring to an undefined type passes (or crashes) "
                               "validation" % (cname, slot, cname))

    # ---- A1 document lists are never paired by position
    check_positional_pairing(prog, run, "A1")


def closure_breaks(prog, run, r, fns):
    """In a reachability closure (worklist `while` / recursive search over successors) an element that is already
    visited, or has nothing to expand, must be skipped (`continue`), never end the traversal (`break` / `return`)."""
    for f in fns:
        for n in own_nodes(f.node):
            if not isinstance(n, (ast.While, ast.For)):
                continue
            for st in ast.walk(n):
                if isinstance(st, ast.If) and len(st.body) >= 1 and isinstance(st.body[-1], (ast.Break, ast.Return)) and not st.orelse:
                    # the innermost loop containing this `if` must be n
                    cur, inner = st, None
                    while getattr(cur, "_parent", None) is not None:
                        cur = cur._parent
                        if isinstance(cur, (ast.While, ast.For)):
                            inner = cur
                            break
                    if inner is not n:
                        continue
                    t = " ".join(ast.unparse(st.test).split())
                    if isinstance(st.test, ast.Compare) and isinstance(st.test.ops[0], (ast.In, ast.NotIn)):
                        r.instance("%s: `if %s: %s` in closure loop" % (f.qualname, t, type(st.body[-1]).__name__.lower()))
                        run.report(r, "%s:%s:closure-stops-early(%s)" % (f.module.name, f.qualname, t), f.where(st),
                                   "the reachability loop `%s` ends (`%s`) when `%s`: elements queued or listed after it are never "
                                   "examined, so the result depends on the order of fragments/spreads" % (norm_stmt(n), type(st.body[-1]).__name__.lower(), t))


def _side(name):
    if name.endswith("_1"):
        return 1
    if name.endswith("_2"):
        return 2
    return None


def side_pairs(fn_node, callee_names):
    """For calls of the named comparison helpers inside ``fn_node``: the tuple of 'sides' (1/2) of their arguments, where
    a side comes from a `_1`/`_2` suffixed name, directly or through loop variables iterating over such names
    (including the tuple-of-pairs idiom)."""
    out = []
    # side of a local = the side of the parameters (named *_1 / *_2 by the rule's interface) it is computed from
    local_sides = {}
    params = set()
    if hasattr(fn_node, "args"):
        params = {a.arg for a in fn_node.args.posonlyargs + fn_node.args.args + fn_node.args.kwonlyargs}
    for _round in range(3):
        for n in ast.walk(fn_node):
            if isinstance(n, ast.Assign) and len(n.targets) == 1:
                tnames = [x.id for x in ast.walk(n.targets[0]) if isinstance(x, ast.Name)]
                srcs = set()
                for x in ast.walk(n.value):
                    if isinstance(x, ast.Name):
                        sd = (_side(x.id) if x.id in params else None) or local_sides.get(x.id)
                        if sd:
                            srcs.add(sd)
                if len(srcs) == 1:
                    for t in tnames:
                        local_sides.setdefault(t, next(iter(srcs)))

    def arg_side(a, env):
        if isinstance(a, ast.Name):
            if a.id in env:
                return env[a.id]
            return local_sides.get(a.id) or _side(a.id)
        if isinstance(a, ast.Call) and a.args:
            # _at(fragment_2, i), enumerate(x), deduplicate(x): side of the first argument
            return arg_side(a.args[0], env)
        if isinstance(a, ast.Subscript):
            return arg_side(a.value, env)
        return None

    def walk(stmts, env):
        for st in stmts:
            if isinstance(st, ast.For):
                it, tgt = st.iter, st.target
                for n in ast.walk(it):
                    if isinstance(n, ast.Call) and isinstance(n.func, ast.Name) and n.func.id in callee_names:
                        sides = tuple(x for x in (arg_side(a, env) for a in n.args) if x is not None)
                        out.append((n.func.id, sides, n))
                if isinstance(it, ast.Tuple) and all(isinstance(e, ast.Tuple) for e in it.elts) and isinstance(tgt, ast.Tuple):
                    for e in it.elts:
                        env2 = dict(env)
                        for t, v in zip(tgt.elts, e.elts):
                            if isinstance(t, ast.Name):
                                env2[t.id] = arg_side(v, env)
                        walk(st.body, env2)
                    continue
                env2 = dict(env)
                if isinstance(it, ast.Call) and isinstance(it.func, ast.Name) and it.func.id == "_cross" and isinstance(tgt, ast.Tuple) and len(it.args) == 2:
                    for t, v in zip(tgt.elts, it.args):
                        if isinstance(t, ast.Name):
                            env2[t.id] = arg_side(v, env)
                else:
                    side = arg_side(it, env)
                    names = [tgt] if isinstance(tgt, ast.Name) else (list(tgt.elts) if isinstance(tgt, ast.Tuple) else [])
                    for t in names[-1:]:
                        if isinstance(t, ast.Name):
                            env2[t.id] = side
                walk(st.body, env2)
            elif isinstance(st, (ast.If, ast.While, ast.With, ast.Try)):
                for field in ("body", "orelse", "finalbody"):
                    walk(getattr(st, field, []) or [], env)
                for h in getattr(st, "handlers", []) or []:
                    walk(h.body, env)
            else:
                for n in ast.walk(st):
                    if isinstance(n, ast.Call) and isinstance(n.func, ast.Name) and n.func.id in callee_names:
                        sides = tuple(x for x in (arg_side(a, env) for a in n.args) if x is not None)
                        out.append((n.func.id, sides, n))
    walk(fn_node.body, {})
    return out


def symmetric_comparisons(prog, run, r):
    """Pairwise comparison helpers of the field-merging rule must be applied symmetrically: for every call comparing side a
    with side b (a != b) the mirrored call exists, and no call compares a side with itself."""
    modname = "py_gql.validation.rules.overlapping_fields_can_be_merged"
    checks = [("_conflicts_between_subselections", ("_conflicts_between_fields_and_fragment", "_conflicts_between_fragments", "_conflicts_between")),
              ("_conflicts_between_fragments", ("_conflicts_between_fragments", "_conflicts_between"))]
    for fname, callees in checks:
        f = prog.get_func(modname, fname)
        run.looked_at(f)
        pairs = side_pairs(f.node, callees)
        by_callee = {}
        for callee, sides, n in pairs:
            if len(sides) >= 2:
                by_callee.setdefault(callee, []).append((sides[:2], n))
        for callee, lst in sorted(by_callee.items()):
            got = sorted({sd for sd, _ in lst})
            r.instance("%s -> %s compares sides %s" % (fname, callee, got))
            for sd, n in lst:
                if sd[0] == sd[1]:
                    run.report(r, "%s:%s:same-side(%s:%s)" % (modname, fname, callee, sd), f.where(n),
                               "%s compares side %d with side %d of the pair through %s: the cross comparison with the other side is "
                               "missing, so a conflict is found or missed depending on which selection comes first" % (fname, sd[0], sd[1], callee))
            sset = {sd for sd, _ in lst}
            # a helper whose two compared parameters have different types (fields vs fragment) is not symmetric in
            # itself, so both directions must be called; same-typed helpers (fragment vs fragment) are symmetric relations
            cdef = prog.get_func(modname, callee)
            sided_idx = [i for i, a in enumerate(lst[0][1].args) if True]
            anns = []
            for i, a in enumerate(lst[0][1].args):
                nm = a.id if isinstance(a, ast.Name) else None
                if i < len(cdef.node.args.args) and cdef.node.args.args[i].annotation is not None:
                    anns.append((i, ast.unparse(cdef.node.args.args[i].annotation)))
            heterogeneous = False
            sided_positions = [i for i, a in enumerate(lst[0][1].args) if (isinstance(a, ast.Name) and (_side(a.id) or True))]
            # positions of the two sided arguments = last two positional params that are not ctx/flags
            cand = [t for i, t in anns if t not in ("Context", "bool")]
            if len(cand) >= 2 and cand[0] != cand[1]:
                heterogeneous = True
            for sd in sorted(sset):
                if heterogeneous and sd[0] != sd[1] and (sd[1], sd[0]) not in sset:
                    run.report(r, "%s:%s:asymmetric(%s:%s)" % (modname, fname, callee, sd), f.where(),
                               "%s applies %s to sides %s but never to %s" % (fname, callee, sd, (sd[1], sd[0])))


def check_positional_pairing(prog, run, rule_id):
    """Two lists of document nodes are never paired by position."""
    import ast as _a
    from .. import boolx
    r = run.rule(rule_id, "validation/**: `zip(A, B)` never pairs two lists taken from the document (parameters annotated as lists of "
                          "AST nodes, or `.arguments` / `.fields` / `.directives` / `.selections` of nodes) by position: on every "
                          "execution both operands are order-normalised first (`sorted(...)` by name) — the order in which arguments "
                          "are written must not change the verdict", 1)
    n = 0
    for f in prog.all_funcs():
        if not f.module.name.startswith("py_gql.validation") or isinstance(f.node, _a.Lambda):
            continue
        zips = [c for c in _a.walk(f.node) if isinstance(c, _a.Call) and isinstance(c.func, _a.Name) and c.func.id == "zip" and len(c.args) == 2]
        if not zips:
            continue
        a = f.node.args
        listy = set()
        for p in a.posonlyargs + a.args + a.kwonlyargs:
            ann = _a.unparse(p.annotation) if p.annotation is not None else ""
            if ann.startswith(("List[", "Sequence[", "Iterable[")) and "_ast." in ann:
                listy.add(p.arg)
        try:
            _ev, exits = boolx.walk_under(f.node, lambda t: None)
        except ValueError as e:
            raise AnalysisError("C06.%s: %s" % (rule_id, e))
        reported = set()
        for z in zips:
            holder = z
            while holder is not None and not isinstance(holder, _a.stmt):
                holder = getattr(holder, "_parent", None)
            raw_paths = 0
            paths = 0
            for kind, st, env in exits:
                stmts = env.get(boolx.STMTS, ())
                if holder not in stmts and holder is not st:
                    continue
                paths += 1
                penv = boolx.path_env(stmts, holder)
                for arg in z.args:
                    v = boolx.path_subst(arg, penv)
                    raw = (isinstance(v, _a.Name) and v.id in listy) or (
                        isinstance(v, _a.Attribute) and v.attr in ("arguments", "fields", "directives", "selections", "values"))
                    if raw:
                        raw_paths += 1
                        if id(z) not in reported:
                            reported.add(id(z))
                            run.report(r, "%s:%s:positional-pairing(%s)" % (f.module.name, f.qualname, _a.unparse(v)[:30]), f.where(z),
                                       "%s pairs `%s` with the other list by position on some execution (not sorted first): the same "
                                       "arguments written in another order are compared crosswise and reported as different"
                                       % (f.qualname, _a.unparse(v)[:40]))
            n += 1
            r.instance("%s: `%s` reached on %d executions, raw operand on %d" % (f.qualname, " ".join(_a.unparse(z).split())[:50], paths, raw_paths))
    if not n:
        raise AnalysisError("C06.%s: no zip() pairing found under validation/" % rule_id)


def check_parent_exclusivity(prog, run, rule_id):
    """Two fields under one response key may differ in name / arguments only when they can never apply to the same object."""
    from .. import boolx, dispatch
    import re
    modname = "py_gql.validation.rules.overlapping_fields_can_be_merged"
    r = run.rule(rule_id, "_find_conflict, decided for every pair of parent kinds (ObjectType, InterfaceType, UnionType) x (same parent, "
                          "different parents) with no exclusivity inherited from the enclosing selections and two different field names: "
                          "the pair is reported as a conflict on every execution, except that two different *object* types excuse it (no "
                          "object is an instance of both) - an abstract parent (interface or union) may share objects with the other "
                          "parent, so treating it as exclusive lets `k: __typename ... on Dog { k: name }` through and the executor "
                          "answers whichever field is written first", 18)
    fc = prog.get_func(modname, "_find_conflict")
    run.looked_at(fc)
    ps = [a.arg for a in fc.node.args.args]
    if len(ps) < 5:
        raise AnalysisError("C06.%s: _find_conflict no longer takes (ctx, exclusive, key, field_1, field_2)" % rule_id)
    excl, f1, f2 = ps[1], ps[3], ps[4]
    parents = {}
    for n in own_nodes(fc.node):
        if isinstance(n, ast.Assign) and isinstance(n.targets[0], ast.Tuple) and isinstance(n.value, ast.Name) and n.value.id in (f1, f2) \
                and n.targets[0].elts and isinstance(n.targets[0].elts[0], ast.Name):
            parents[n.value.id] = n.targets[0].elts[0].id
    if set(parents) != {f1, f2}:
        raise AnalysisError("C06.%s: the parent types of the two fields are not unpacked from %s / %s" % (rule_id, f1, f2))
    p1, p2 = parents[f1], parents[f2]
    hier = dispatch.Hierarchy(prog)
    # the two field names: `<node>.name.value`, or a local bound to it
    nm = {x.targets[0].id for x in own_nodes(fc.node) if isinstance(x, ast.Assign) and len(x.targets) == 1 and isinstance(x.targets[0], ast.Name)
          and ast.unparse(x.value).endswith(".name.value")}
    side = r"(?:[\w.]+\.name\.value%s)" % "".join("|" + re.escape(n) for n in sorted(nm))
    name_atom = re.compile(r"^%s (!=|==) %s$" % (side, side))
    bad, rows = [], 0
    for k1 in ("ObjectType", "InterfaceType", "UnionType"):
        for k2 in ("ObjectType", "InterfaceType", "UnionType"):
            for differ in (True, False):
                seen_name_test = []

                def extra(t, differ=differ):
                    if t == excl:
                        return False
                    if t in ("%s != %s" % (p1, p2), "%s != %s" % (p2, p1), "%s is not %s" % (p1, p2), "%s is not %s" % (p2, p1)):
                        return differ
                    if t in ("%s == %s" % (p1, p2), "%s == %s" % (p2, p1), "%s is %s" % (p1, p2), "%s is %s" % (p2, p1)):
                        return not differ
                    m = name_atom.match(t)
                    if m:
                        return m.group(1) == "!="
                    return None
                d2 = dispatch.decide_for(hier, p2, k2, extra)
                d1 = dispatch.decide_for(hier, p1, k1, d2)
                try:
                    _ev, exits = boolx.walk_under(fc.node, d1)
                except ValueError as e:
                    raise AnalysisError("C06.%s: %s" % (rule_id, e))
                outcomes = set()
                for kind, st, env in exits:
                    tested = any(name_atom.match(t) for t, _v in env.get(boolx.TESTS, ()))
                    if kind == "return" and tested and isinstance(st.value, ast.Tuple):
                        outcomes.add("conflict")
                    elif tested:
                        outcomes.add("tested-but-%s" % kind)
                    else:
                        outcomes.add("not-compared")
                exclusive = differ and k1 == "ObjectType" and k2 == "ObjectType"
                want = {"not-compared"} if exclusive else {"conflict"}
                rows += 1
                r.instance("parents (%s, %s) %s -> %s" % (k1, k2, "different" if differ else "same", sorted(outcomes)))
                if outcomes != want:
                    bad.append({"parent_1": k1, "parent_2": k2, "different": differ, "outcomes": sorted(outcomes), "expected": sorted(want)})
    if bad:
        run.report(r, "%s:_find_conflict:parent-exclusivity" % modname, fc.where(),
                   "fields with different names under one response key are %s for parent kinds %s" % (
                       "not reported" if "conflict" in bad[0]["expected"] else "reported although no object can have both parents",
                       ["%s/%s/%s" % (b["parent_1"], b["parent_2"], "different" if b["different"] else "same") for b in bad[:4]]), {"rows": bad})


def cycle_search_functions(nf):
    """The functions that walk the spread graph for NoFragmentCyclesChecker.leave_document: its nested closures, and the
    methods of the class it calls (transitively) through `self.` - wherever a refactoring put the search."""
    ld = nf.methods.get("leave_document")
    out = list(ld.nested.values())
    seen, todo = set(), [ld] + out
    while todo:
        g = todo.pop()
        for n in own_nodes(g.node):
            if isinstance(n, ast.Call) and isinstance(n.func, ast.Attribute) and isinstance(n.func.value, ast.Name) and n.func.value.id == "self":
                m = nf.methods.get(n.func.attr)
                if m is not None and m.name not in seen and not m.name.startswith(("enter_", "leave_", "__")) and m.cls is nf:
                    seen.add(m.name)
                    out.append(m)
                    todo.append(m)
    return out


def check_allowed_position_table(prog, run, rule_id):
    """The verdict of VariablesInAllowedPosition, row by row."""
    from .. import boolx, predcall
    import re
    r = run.rule(rule_id, "VariablesInAllowedPositionChecker, the check of one usage decided for all 256 assignments of (location type is NonNull, "
                          "variable type is NonNull, the variable has a default, that default is not the null literal, the location has an "
                          "input definition, that definition has a default, variable type is a subtype of the location's nullable type, of the "
                          "location type): an error is recorded exactly when - for a nullable variable in a NonNull position - there is "
                          "neither a non-null variable default nor a location default, or the variable type does not fit the nullable type; "
                          "otherwise exactly when the variable type does not fit the location type (the specification's "
                          "AreTypesCompatible / allowed-position rule)", 256)
    rcs = rule_classes(prog)
    va = rcs.get("VariablesInAllowedPositionChecker")
    ld = va.methods.get("leave_document") if va else None
    if ld is None:
        raise AnalysisError("C06.%s: VariablesInAllowedPositionChecker.leave_document not found" % rule_id)
    run.looked_at(ld)
    loops = [n for n in own_nodes(ld.node) if isinstance(n, ast.For) and any(
        isinstance(x, ast.Call) and isinstance(x.func, ast.Attribute) and x.func.attr == "iter_op_variables" for x in ast.walk(n.iter))]
    if len(loops) != 1:
        raise AnalysisError("C06.%s: the loop over the usages of an operation's variables was not found" % rule_id)
    body = boolx.body_function(loops[0].body)
    pats = [
        ("A", re.compile(r"^isinstance\((\w*input_type\w*|\w*location_type\w*|\w*expected\w*), (\w+\.)?NonNullType\)$")),
        ("B", re.compile(r"^isinstance\((\w*var_type\w*|\w*variable_type\w*), (\w+\.)?NonNullType\)$")),
        ("d1", re.compile(r"^(\w*var_default\w*|\w+\.default_value) is None$")),          # canonical form of `is not None`
        ("d2", re.compile(r"^type\((\w*var_default\w*|\w+\.default_value)\) (==|is) (\w+\.)?NullValue$|^isinstance\((\w*var_default\w*|\w+\.default_value), (\w+\.)?NullValue\)$")),
        ("l1", re.compile(r"^\w*input_value_def\w* is None$")),
        ("l2", re.compile(r"^\w*input_value_def\w*\.has_default_value$")),
        ("S1", re.compile(r"^[\w.]+\.is_subtype\(\w+, \w+\.type\)$")),
        ("S2", re.compile(r"^[\w.]+\.is_subtype\(\w+, \w+\)$")),
    ]
    import itertools
    bad, rows, seen_atoms = [], 0, set()
    for combo in itertools.product((True, False), repeat=8):
        A, B, hasdef, nonnull_lit, hasloc, locdef, S1, S2 = combo
        val = {"A": A, "B": B, "d1": not hasdef, "d2": not nonnull_lit, "l1": not hasloc, "l2": locdef, "S1": S1, "S2": S2}

        def decide(t, val=val):
            for name, p in pats:
                if p.match(t):
                    seen_atoms.add(name)
                    return val[name]
            if re.match(r"^\w*vardef\w*$|^\w*input_type\w*$|^\w*var_def\w*$", t):
                return True
            return None
        try:
            # a condition moved into a helper is decided by enumerating the helper under the same assignment
            _ev, exits = boolx.walk_under(body, predcall.decide_with_helpers(prog, ld, decide, run.looked_at))
        except ValueError as e:
            raise AnalysisError("C06.%s: %s" % (rule_id, e))
        outcomes = set()
        for kind, st, env in exits:
            if env.get(boolx.HANDLERS):
                continue        # the variable's declared type is unknown: reported by another rule
            outcomes.add(any(isinstance(c.func, ast.Attribute) and c.func.attr == "add_error" for c in env.get(boolx.CALLS, ())))
        D = hasdef and nonnull_lit
        Lc = hasloc and locdef
        want = ((not D and not Lc) or not S1) if (A and not B) else (not S2)
        rows += 1
        if outcomes != {want}:
            bad.append({"location_nonnull": A, "variable_nonnull": B, "variable_default": hasdef, "default_not_null": nonnull_lit,
                        "location_definition": hasloc, "location_default": locdef, "fits_nullable": S1, "fits": S2,
                        "error_recorded": sorted(outcomes), "expected": want})
    for i in range(rows):
        r.instance("row %d" % i, nontrivial=False)
    missing = {"A", "B", "d1", "l2", "S1", "S2"} - seen_atoms
    if missing and not bad:
        raise AnalysisError("C06.%s: the tests %s of the allowed-position check were not recognised" % (rule_id, sorted(missing)))
    if bad:
        run.report(r, "%s:VariablesInAllowedPositionChecker.leave_document:allowed-position-table" % RULES, ld.where(loops[0]),
                   "the allowed-position verdict is wrong on %d of 256 rows, e.g. %s" % (len(bad), bad[0]), {"rows": bad[:12]})


def check_all_pairs_within(prog, run, rule_id):
    """Every two fields that share a response key within one selection set are compared."""
    modname = "py_gql.validation.rules.overlapping_fields_can_be_merged"
    r = run.rule(rule_id, "_conflicts_within hands _find_conflict every unordered pair of the fields collected under one response key: the pairs "
                          "come from a loop over all positions i with an inner loop over the positions after i (`for i, a in enumerate(L): for b "
                          "in L[i + 1:]`, itertools.combinations(L, 2), or the helper that is exactly that), never from one fixed element "
                          "against the rest - sameness is not transitive when some parents are mutually exclusive, and a conflict between "
                          "the 2nd and 3rd occurrence would go unreported", 2)
    cw = prog.get_func(modname, "_conflicts_within")
    run.looked_at(cw)

    def all_pairs_loops(fn_node, lst_name):
        """does fn_node contain `for i, a in enumerate(L): for b in L[i + 1:]` over L = lst_name? returns (a, b) or None"""
        for o in ast.walk(fn_node):
            if isinstance(o, ast.For) and isinstance(o.iter, ast.Call) and isinstance(o.iter.func, ast.Name) and o.iter.func.id == "enumerate" \
                    and o.iter.args and isinstance(o.iter.args[0], ast.Name) and o.iter.args[0].id == lst_name \
                    and isinstance(o.target, ast.Tuple) and len(o.target.elts) == 2 and all(isinstance(e, ast.Name) for e in o.target.elts):
                i, a = o.target.elts[0].id, o.target.elts[1].id
                for inner in ast.walk(o):
                    if isinstance(inner, ast.For) and inner is not o and isinstance(inner.iter, ast.Subscript) and isinstance(inner.iter.value, ast.Name) \
                            and inner.iter.value.id == lst_name and isinstance(inner.iter.slice, ast.Slice) and inner.iter.slice.upper is None \
                            and inner.iter.slice.step is None and inner.iter.slice.lower is not None \
                            and " ".join(ast.unparse(inner.iter.slice.lower).split()) in ("%s + 1" % i, "1 + %s" % i) and isinstance(inner.target, ast.Name):
                        return a, inner.target.id
        return None
    calls = [n for n in ast.walk(cw.node) if isinstance(n, ast.Call) and isinstance(n.func, ast.Name) and n.func.id == "_find_conflict"]
    if len(calls) != 1 or len(calls[0].args) < 5:
        raise AnalysisError("C06.%s: the _find_conflict call of _conflicts_within was not found" % rule_id)
    a1, a2 = calls[0].args[3], calls[0].args[4]
    groups = [n for n in ast.walk(cw.node) if isinstance(n, ast.For) and isinstance(n.iter, ast.Call) and isinstance(n.iter.func, ast.Attribute)
              and n.iter.func.attr in ("items", "values")]
    if len(groups) != 1:
        raise AnalysisError("C06.%s: the loop over response keys of _conflicts_within was not found" % rule_id)
    gt = groups[0].target
    lst = gt.elts[-1].id if isinstance(gt, ast.Tuple) and isinstance(gt.elts[-1], ast.Name) else (gt.id if isinstance(gt, ast.Name) else None)
    verdict, how = None, None
    if isinstance(a1, ast.Name) and isinstance(a2, ast.Name) and lst:
        # (1) explicit nested loops in _conflicts_within
        got = all_pairs_loops(groups[0], lst)
        if got is not None and {got[0], got[1]} == {a1.id, a2.id}:
            verdict, how = True, "nested loops over %s and %s[i + 1:]" % (lst, lst)
        for lp in ast.walk(groups[0]):
            if verdict is None and isinstance(lp, ast.For) and isinstance(lp.target, ast.Tuple) and [getattr(e, "id", None) for e in lp.target.elts] in ([a1.id, a2.id], [a2.id, a1.id]) \
                    and isinstance(lp.iter, ast.Call):
                fn = lp.iter.func
                nm = fn.attr if isinstance(fn, ast.Attribute) else fn.id if isinstance(fn, ast.Name) else None
                args = lp.iter.args
                if nm == "combinations" and len(args) == 2 and isinstance(args[0], ast.Name) and args[0].id == lst and isinstance(args[1], ast.Constant) and args[1].value == 2:
                    verdict, how = True, "itertools.combinations(%s, 2)" % lst
                elif len(args) == 1 and isinstance(args[0], ast.Name) and args[0].id == lst:
                    cal = [c for c in prog.resolve_call(cw, lp.iter) if c.module.name == modname]
                    if len(cal) == 1:
                        run.looked_at(cal[0])
                        ps = cal[0].params
                        inner = all_pairs_loops(cal[0].node, ps[0]) if ps else None
                        ys = [y for y in ast.walk(cal[0].node) if isinstance(y, ast.Yield)]
                        ok = inner is not None and len(ys) == 1 and isinstance(ys[0].value, ast.Tuple) and \
                            [getattr(e, "id", None) for e in ys[0].value.elts] == [inner[0], inner[1]]
                        verdict, how = ok, "%s(%s)%s" % (cal[0].name, lst, "" if ok else " which does not yield every pair (i, j > i)")
    # one fixed element against the rest: the recognisably partial form
    fixed = [x for x in (a1, a2) if isinstance(x, ast.Name) and any(
        isinstance(s, ast.Assign) and len(s.targets) == 1 and isinstance(s.targets[0], ast.Name) and s.targets[0].id == x.id
        and isinstance(s.value, ast.Subscript) and isinstance(s.value.slice, ast.Constant) for s in ast.walk(cw.node))]
    r.instance("_conflicts_within pairs the fields of a response key through %s" % (how or "an unrecognised construct"))
    r.instance("one element fixed by a constant index: %s" % bool(fixed))
    if fixed or verdict is False:
        run.report(r, "%s:_conflicts_within:not-every-pair" % modname, cw.where(calls[0]),
                   "_conflicts_within does not compare every pair of the fields under one response key (%s): a conflict between two later "
                   "occurrences is never looked at" % ("`%s` is one fixed element compared with the rest" % fixed[0].id if fixed else how))
    elif verdict is None:
        raise AnalysisError("C06.%s: how _conflicts_within enumerates the pairs of a response key was not recognised" % rule_id)


def check_conditionless_fragment_type(prog, run, rule_id):
    """An inline fragment without a type condition keeps the type it sits in."""
    from .. import boolx
    import re
    VIS = "py_gql.validation.visitors"
    r = run.rule(rule_id, "TypeInfoVisitor.enter_inline_fragment: without a type condition, with a current type that is an output type, every "
                          "execution pushes exactly that current type (`self.type`) as the fragment's type - no further class test on it: "
                          "the enclosing field's declared type still carries its list / non-null wrappers at that point, and a test those "
                          "fail blanks the type for the whole fragment, so unknown fields, leaf sub-selections and unknown arguments "
                          "inside `... @include(if: $x) { }` pass validation", 1)
    ti = prog.get_class(VIS, "TypeInfoVisitor")
    m = ti.find_method("enter_inline_fragment")
    if m is None:
        raise AnalysisError("C06.%s: TypeInfoVisitor.enter_inline_fragment not found" % rule_id)
    run.looked_at(m)
    np_ = [p for p in m.params if p != prog.self_name(m)][0]

    def decide(t):
        if t == "%s.type_condition" % np_:
            return False
        if t == "%s.type_condition is None" % np_:
            return True
        if t == "self.type":
            return True
        if t == "self.type is None":
            return False
        if re.match(r"^is_output_type\(.*\)$", t):
            return True
        return None
    try:
        _ev, exits = boolx.walk_under(m.node, decide)
    except ValueError as e:
        raise AnalysisError("C06.%s: %s" % (rule_id, e))
    pushed = set()
    for kind, st, env in exits:
        if kind == "raise":
            continue
        atoms = {a: b for a, b in env.items() if a not in boolx.META}
        stmts = env.get(boolx.STMTS, ())
        vals = []
        for c in env.get(boolx.CALLS, ()):
            if isinstance(c.func, ast.Attribute) and c.func.attr == "append" and "_type_stack" in ast.unparse(boolx.path_subst(c.func.value, boolx.path_env(stmts))) and c.args:
                holder = c
                while holder is not None and not isinstance(holder, ast.stmt):
                    holder = getattr(holder, "_parent", None)
                v = boolx.path_value(stmts, holder, boolx.path_subst(c.args[0], boolx.path_env(stmts, holder)), atoms)
                for _ in range(3):
                    if isinstance(v, ast.IfExp):
                        try:
                            class _Env(dict):
                                def __missing__(self, k):
                                    d_ = decide(k)
                                    if d_ is None:
                                        raise KeyError(k)
                                    return d_
                            v = v.body if boolx.evaluate(v.test, _Env(atoms)) else v.orelse
                        except Exception:
                            break
                vals.append(" ".join(ast.unparse(v).split()))
        pushed.add(tuple(vals) or ("<nothing pushed>",))
    r.instance("condition-less fragment, current type an output type: pushes %s" % sorted(pushed))
    if pushed != {("self.type",)}:
        run.report(r, "%s:TypeInfoVisitor.enter_inline_fragment:type-not-kept" % VIS, m.where(),
                   "for an inline fragment without a type condition the pushed type is %s on some execution, not the current type: the "
                   "fragment's selection set is validated against no type (or another one)" % sorted(pushed))
