"""C07 — resolver arguments conform to declared input types: the three coercion
routes implement the same obligation table; scalar tables equal the spec's."""
import ast
import re

from .. import shapes, boolx
from ..cfg import event_paths
from ..model import AnalysisError, own_nodes, norm_stmt

CV = "py_gql.utilities.coerce_value"
VFA = "py_gql.utilities.value_from_ast"
SC = "py_gql.schema.scalars"
TY = "py_gql.schema.types"


def _contains(node, pred):
    return any(pred(x) for x in ast.walk(node))


def _absent_branches(loop, member):
    """Statement lists executed when the declared member is absent from the input:
    body of `if <name> not in X` / else of `if <name> in X` / `except KeyError` handler."""
    out = []
    for n in ast.walk(loop):
        if isinstance(n, ast.If) and isinstance(n.test, ast.Compare) and len(n.test.ops) == 1:
            if isinstance(n.test.ops[0], ast.NotIn):
                out.append(("if " + ast.unparse(n.test), n.body, n.orelse))
            elif isinstance(n.test.ops[0], ast.In) and n.orelse:
                out.append(("else of if " + ast.unparse(n.test), n.orelse, n.body))
        if isinstance(n, ast.Try):
            for h in n.handlers:
                if h.type is not None and "KeyError" in ast.unparse(h.type):
                    out.append(("except KeyError", h.body, n.orelse))
    return out[:1]


def check(prog, run):
    check_member_type(prog, run, "F1")
    check_unknown_variable(prog, run, "U1")
    check_non_finite_guard(prog, run, "I5")
    cv = prog.get_func(CV, "coerce_value")
    cio = prog.get_func(CV, "_coerce_input_object")
    clv = prog.get_func(CV, "_coerce_list_value")
    cav = prog.get_func(CV, "coerce_argument_values")
    vfa = prog.get_func(VFA, "value_from_ast")
    eio = prog.get_func(VFA, "_extract_input_object")
    evar = prog.get_func(VFA, "_extract_variable")
    for f in (cv, cio, clv, cav, vfa, eio, evar):
        run.looked_at(f)

    # ---- O1 obligation table
    r = run.rule("O1", "obligation table x coercion route (variables: coerce_value; literals: value_from_ast; per-field "
                       "assembly: coerce_argument_values): null rejected for NonNull, declared default used when a member is "
                       "absent, absent required member rejected, results keyed by python_name, enum names mapped with get_value, "
                       "single value wrapped for list types, unknown input-object keys rejected", 18)

    # O-null
    def has_null_guard(f, null_atom):
        """path form: with the type NonNull and the value null (and the node not a variable) every execution raises"""
        def decide(t):
            tt = t.replace(" ", "")
            if re.match(r"^isinstance\(\w+,(_ast\.)?Variable\)$", tt):
                return False
            if re.match(r"^isinstance\(\w+,NonNullType\)$", tt):
                return True
            v = null_atom(tt)
            if v is not None:
                return v
            return None
        try:
            _ev, exits = boolx.walk_under(f.node, decide)
        except ValueError as e:
            raise AnalysisError("C07.O1: %s: %s" % (f.qualname, e))
        return bool(exits) and all(kind == "raise" for kind, _st, _env in exits)

    def none_atom(tt):
        m = re.match(r"^(\w+)isNone$", tt)
        return True if m and m.group(1) not in ("path", "variables", "node") else None

    def nullvalue_atom(tt):
        return True if re.match(r"^isinstance\(\w+,(_ast\.)?NullValue\)$", tt) else None
    for f, pred, label in ((cv, none_atom, "variable route (coerce_value)"),
                           (vfa, nullvalue_atom, "literal route (value_from_ast)"),
                           (evar, none_atom, "variable inside literal (_extract_variable)")):
        ok = has_null_guard(f, pred)
        r.instance("O-null %s: %s" % (label, ok))
        if not ok:
            run.report(r, "%s:%s:O-null" % (f.module.name, f.qualname), f.where(), "%s does not reject null for a NonNull type" % label)
    # argument assembly: the value taken from `variables` must be null-checked against a NonNull argument type
    # path form: on the executions of the per-argument body with the variable provided, its value None and the argument type
    # NonNull, the statement that stores the variable's value is never reached
    def _from_variables(e):
        return ((isinstance(e, ast.Subscript) and ast.unparse(e.value) == "variables")
                or (isinstance(e, ast.Call) and isinstance(e.func, ast.Attribute) and e.func.attr == "get" and ast.unparse(e.func.value) == "variables"))
    var_locals = {n.targets[0].id for n in own_nodes(cav.node) if isinstance(n, ast.Assign) and len(n.targets) == 1
                  and isinstance(n.targets[0], ast.Name) and _from_variables(n.value)}
    stores = [n for n in own_nodes(cav.node) if isinstance(n, ast.Assign) and isinstance(n.targets[0], ast.Subscript)
              and (_from_variables(n.value) or (isinstance(n.value, ast.Name) and n.value.id in var_locals))]
    shapes.require(stores, "C07.O1: coerce_argument_values no longer stores variables[...] directly; rule needs updating")

    def decide_null_variable(t):
        tt = t.replace(" ", "")
        if re.match(r"^isinstance\([\w.]+,(_ast\.)?Variable\)$", tt):
            return True
        if re.match(r"^isinstance\([\w.]+,NonNullType\)$", tt):
            return True
        if re.match(r"^\(?[\w.]+invariables\)?$", tt):
            return True
        m = re.match(r"^(.+)isNone$", tt)
        if m and (m.group(1).startswith("variables[") or m.group(1).startswith("variables.get(") or m.group(1) in var_locals):
            return True
        return None
    for st in stores:
        scope = st
        while getattr(scope, "_parent", None) is not None and not isinstance(scope, (ast.For, ast.FunctionDef)):
            scope = scope._parent
        scope_fn = boolx.body_function(scope.body) if isinstance(scope, ast.For) else scope
        try:
            _ev, exits = boolx.walk_under(scope_fn, decide_null_variable)
        except ValueError as e:
            raise AnalysisError("C07.O1: coerce_argument_values: %s" % e)
        shapes.require(exits, "C07.O1: coerce_argument_values: no execution found for the null-variable case")
        reached = [1 for _k, _s, env in exits if any(x is st for x in env.get(boolx.STMTS, ()))]
        guarded = not reached
        r.instance("O-null argument assembly `%s` unreachable with (value None, type NonNull): %s over %d executions" % (norm_stmt(st), guarded, len(exits)))
        if not guarded:
            run.report(r, "%s:coerce_argument_values:O-null(variable)" % CV, cav.where(st),
                       "`%s` hands a variable's value to the resolver without checking null against a NonNull argument type: "
                       "`query($v: Int = 1) { f(x: $v) }` with x: Int! and variables {v: null} delivers None" % norm_stmt(st))

    # O-default / O-required / O-key on the three member loops
    loops = []
    for f, member_attr in ((cav, "arguments"), (cio, "fields"), (eio, "fields")):
        # the loop over the *declared* members (its body consults the member's python_name / default), not a loop over
        # the provided AST fields that happens to use the same attribute name
        lp = [n for n in own_nodes(f.node) if isinstance(n, ast.For) and isinstance(n.iter, ast.Attribute) and n.iter.attr == member_attr
              and isinstance(n.target, ast.Name)
              and any(isinstance(x, ast.Attribute) and x.attr in ("python_name", "has_default_value") and isinstance(x.value, ast.Name)
                      and x.value.id == n.target.id for st in n.body for x in ast.walk(st))]
        shapes.require(len(lp) == 1, "C07.O1: member loop over .%s not found in %s" % (member_attr, f.qualname))
        loops.append((f, lp[0]))
    for f, lp in loops:
        var = lp.target.id
        # path form: the executions of the per-member loop body on which the member is absent from the provided values
        # (a `name in provided` test is false, or the `except KeyError` handler of the lookup is entered)
        body_fn = boolx.body_function(lp.body)

        def absent_exits(has_default, nonnull, var=var, body_fn=body_fn, f=f):
            def decide(t):
                if re.match(r"^[\w.]+\.has_default_value$", t):
                    return has_default
                if re.match(r"^isinstance\([\w.]+, [\w.]*NonNullType\)$", t):
                    return nonnull
                return None
            try:
                _ev, exits = boolx.walk_under(body_fn, decide)
            except ValueError as e:
                raise AnalysisError("C07.O1: %s: %s" % (f.qualname, e))
            out = []
            for kind, st, env in exits:
                absent = any(isinstance(h.type, ast.expr) and "KeyError" in ast.unparse(h.type) for h in env.get(boolx.HANDLERS, ()) if h.type is not None)
                for a, v in env.get(boolx.TESTS, ()):
                    if v is not False:
                        continue
                    try:
                        e = ast.parse(a, mode="eval").body
                    except SyntaxError:
                        continue
                    if isinstance(e, ast.Compare) and len(e.ops) == 1 and isinstance(e.ops[0], ast.In):
                        absent = True
                if absent:
                    out.append((kind, st, env))
            return out
        ex_default = absent_exits(True, None)
        shapes.require(ex_default, "C07.O1: no execution of the member loop of %s has the member absent" % f.qualname)
        bad_default = []
        for kind, st, env in ex_default:
            atoms = {a: b for a, b in env.items() if a not in boolx.META}
            stored = False
            for x in env.get(boolx.STMTS, ()):
                if isinstance(x, ast.Assign) and isinstance(x.targets[0], ast.Subscript):
                    v = boolx.path_value(env.get(boolx.STMTS, ()), x, x.value, atoms)
                    if isinstance(v, ast.Attribute) and v.attr == "default_value" and ast.unparse(v.value) == var:
                        stored = True
            if not stored:
                bad_default.append((kind, st))
        r.instance("O-default %s: %d absent-member executions with a declared default, %d do not store it" % (f.qualname, len(ex_default), len(bad_default)))
        if bad_default:
            run.report(r, "%s:%s:O-default" % (f.module.name, f.qualname), f.where(lp),
                       "when a declared member is absent its declared default is not filled in on every path: the same input given inline "
                       "and through a variable yields different resolver arguments")
        ex_req = absent_exits(False, True)
        bad_req = []
        for kind, st, env in ex_req:
            # rejected: the path raises, or records an error into a list that the function raises afterwards
            raised_lists = {x.id for rs in ast.walk(f.node) if isinstance(rs, ast.Raise) and rs.exc is not None
                            for x in ast.walk(rs.exc) if isinstance(x, ast.Name)}
            rejected = kind == "raise" or any(isinstance(c.func, ast.Attribute) and c.func.attr == "append" and isinstance(c.func.value, ast.Name)
                                              and c.func.value.id in raised_lists for c in env.get(boolx.CALLS, ()))
            if not rejected:
                bad_req.append((kind, st))
        r.instance("O-required %s: %d absent required-member executions, %d not rejected" % (f.qualname, len(ex_req), len(bad_req)))
        if bad_req or not ex_req:
            run.report(r, "%s:%s:O-required" % (f.module.name, f.qualname), f.where(lp), "an absent member of NonNull type without default is not rejected")
        # keys
        pyname_vars = {n.targets[0].id for n in ast.walk(lp) if isinstance(n, ast.Assign) and isinstance(n.targets[0], ast.Name)
                       and isinstance(n.value, ast.Attribute) and n.value.attr == "python_name"}
        for n in ast.walk(lp):
            if isinstance(n, ast.Assign) and isinstance(n.targets[0], ast.Subscript) and isinstance(n.targets[0].value, ast.Name) \
                    and n.targets[0].value.id.startswith("coerced"):
                k = n.targets[0].slice
                ok = (isinstance(k, ast.Attribute) and k.attr == "python_name") or (isinstance(k, ast.Name) and k.id in pyname_vars)
                r.instance("O-key %s: `%s`" % (f.qualname, norm_stmt(n, 70)))
                if not ok:
                    run.report(r, "%s:%s:O-key(%s)" % (f.module.name, f.qualname, ast.unparse(k)), f.where(n),
                               "a coerced member is stored under `%s`, not under the configured python_name" % ast.unparse(k))
    # O-enum
    for f, label in ((cv, "variable route"), (vfa, "literal route")):
        ok = False
        for n in own_nodes(f.node):
            if isinstance(n, ast.If) and "EnumType" in ast.unparse(n.test):
                if _contains(n, lambda x: isinstance(x, ast.Call) and isinstance(x.func, ast.Attribute) and x.func.attr == "get_value"):
                    ok = True
        r.instance("O-enum %s: %s" % (label, ok))
        if not ok:
            run.report(r, "%s:%s:O-enum" % (f.module.name, f.qualname), f.where(), "%s does not map enum names with EnumType.get_value" % label)
    # O-wrap (path form): when the type is a list type and the value is not a list, some returning execution hands back a
    # one-element list holding the recursive coercion of the value
    def wraps(f, callee):
        from .. import dispatch
        tparam = [a.arg for a in f.node.args.args if a.arg.startswith("type")]
        if not tparam:
            return False

        def not_a_list(t):
            if t.startswith("isinstance(") and ("ListValue" in t or "list" in t.split(",", 1)[-1]):
                return False
            return None
        for kind, st, env in dispatch.executions(prog, f, tparam[0], "ListType", extra=not_a_list):
            if kind != "return" or st is None or st.value is None:
                continue
            v = boolx.path_subst(st.value, boolx.path_env(env.get(boolx.STMTS, ()), st))
            if isinstance(v, ast.List) and len(v.elts) == 1 and isinstance(v.elts[0], ast.Call) and isinstance(v.elts[0].func, ast.Name) \
                    and v.elts[0].func.id == callee and len(v.elts[0].args) >= 2:
                return True
        return False
    for f, callee, label in ((clv, "coerce_value", "variable route"), (vfa, "value_from_ast", "literal route")):
        ok = wraps(f, callee)
        r.instance("O-wrap %s: %s" % (label, ok))
        if not ok:
            run.report(r, "%s:%s:O-wrap" % (f.module.name, f.qualname), f.where(), "%s does not wrap a single value into a one-element list for a list type" % label)
    # O-unknown-field
    ok = False
    for n in own_nodes(cio.node):
        if isinstance(n, ast.For) and "keys()" in ast.unparse(n.iter) or (isinstance(n, ast.For) and ast.unparse(n.iter) == cio.params[0]):
            if _contains(n, lambda x: isinstance(x, ast.Raise)) and _contains(n, lambda x: isinstance(x, ast.Compare) and isinstance(x.ops[0], ast.NotIn)):
                ok = True
    r.instance("O-unknown-field variable route: %s" % ok)
    if not ok:
        run.report(r, "%s:_coerce_input_object:O-unknown-field" % CV, cio.where(), "undeclared keys of an input object are not rejected")
    else:
        # the scan over the provided keys must lie on every path that returns the coerced dictionary
        def uev(x):
            if isinstance(x, ast.Call) and isinstance(x.func, ast.Attribute) and x.func.attr == "keys" and ast.unparse(x.func.value) == cio.params[0]:
                return "scan-keys"
            return None

        def ubev(test, truth):
            return None
        normal, _ = event_paths(cio.node, lambda x: "scan-keys" if (isinstance(x, ast.Name) and isinstance(x.ctx, ast.Load) and x.id == cio.params[0]
                                                                       and isinstance(getattr(x, "_parent", None), (ast.For,)) and x._parent.iter is x) else uev(x),
                                may_raise=lambda n_: None, cap=6)
        # `for k in value.keys()` / `for k in value`: the iter expression is evaluated by the For header ('iter' kind)
        for seq in sorted(normal):
            r.instance("_coerce_input_object returning path %s" % list(seq))
            if "scan-keys" not in seq:
                run.report(r, "%s:_coerce_input_object:O-unknown-field(conditional)" % CV, cio.where(),
                           "some path returns the coerced dictionary without scanning the provided keys for undeclared ones: the "
                           "unknown-field rejection is conditional (e.g. skipped when defaults were filled in)")

    # ---- I1 Int range
    r = run.rule("I1", "coerce_int accepts exactly the integers in [-2^31, 2^31 - 1]: the function is folded on integer samples "
                       "(the bounds, their neighbours, 0, +-1, +-(2^32-1), 2^32, 2^40) - its class tests and its range guard are "
                       "pure expressions over the argument and module constants - and must return the value inside and raise outside", 1)
    ci = prog.get_func(SC, "coerce_int")
    run.looked_at(ci)
    m = prog.module(SC)
    # the function folded on integer samples: the class tests on the argument, the range guard (whatever it is written with:
    # comparisons with MIN_INT / MAX_INT, bit_length(), abs()) and nothing else are evaluated, like constants
    from .. import fold
    allowed = {"isinstance": isinstance, "int": int, "float": float, "str": str, "bool": bool, "abs": abs, "len": len, "repr": repr,
               "True": True, "False": False, "None": None}
    for k, exprs in m.assigns.items():
        if k.isupper():
            try:
                allowed[k] = prog.fold(m, ast.Name(id=k, ctx=ast.Load()))
            except Exception:
                pass
    shapes.require(len(ci.params) == 1, "C07.I1: coerce_int no longer takes one value")
    lo_, hi_ = -2 ** 31, 2 ** 31 - 1
    table = {}
    for v in (lo_ - 1, lo_, lo_ + 1, -1, 0, 1, hi_ - 1, hi_, hi_ + 1, 2 ** 32 - 1, -(2 ** 32 - 1), 2 ** 32, 2 ** 40):
        try:
            outs = fold.fold_function(ci.node, {ci.params[0]: v}, allowed)
        except fold.FoldError as e:
            raise AnalysisError("C07.I1: coerce_int cannot be folded on %d: %s" % (v, e))
        table[v] = sorted({"return %r" % (val,) if kind == "return" else kind for kind, val in outs})
    r.instance("coerce_int folded on integers: %s" % table)
    for v, got in table.items():
        want = ["return %r" % v] if lo_ <= v <= hi_ else ["raise"]
        if got != want:
            run.report(r, "%s:coerce_int:range" % SC, ci.where(),
                       "for the integer %d coerce_int gives %s (expected: %s): the accepted interval is not [-2147483648, 2147483647]"
                       % (v, " / ".join(got) or "no outcome", want[0]))
            break

    # ---- I2 literal kinds
    r = run.rule("I2", "literal kinds accepted by the specified scalars: Int<-IntValue, Float<-FloatValue|IntValue, "
                       "String<-StringValue, Boolean<-BooleanValue, ID<-StringValue|IntValue", 5)
    want = {"Int": {"IntValue"}, "Float": {"FloatValue", "IntValue"}, "String": {"StringValue"}, "Boolean": {"BooleanValue"}, "ID": {"StringValue", "IntValue"}}
    coerce_defs = {}
    for name, exprs in m.assigns.items():
        for e in exprs:
            if isinstance(e, ast.Call) and isinstance(e.func, ast.Name) and e.func.id == "_typed_coerce":
                coerce_defs[name] = {a.attr for a in e.args[1:] if isinstance(a, ast.Attribute)}
    for sname, kinds in want.items():
        e = m.assigns.get(sname, [None])[-1]
        shapes.require(isinstance(e, ast.Call), "C07.I2: scalar %s not found" % sname)
        pl = [k.value for k in e.keywords if k.arg == "parse_literal"]
        got = coerce_defs.get(pl[0].id) if pl and isinstance(pl[0], ast.Name) else None
        r.instance("%s parse_literal accepts %s" % (sname, sorted(got) if got is not None else None))
        if got != kinds:
            run.report(r, "%s:%s:literal-kinds" % (SC, sname), "src/py_gql/schema/scalars.py",
                       "%s accepts literal kinds %s, the specification says %s" % (sname, sorted(got) if got is not None else None, sorted(kinds)))
    tc = prog.get_func(SC, "_typed_coerce")
    inner = list(tc.nested.values())
    # path form: when the literal's class is not among the accepted ones every execution of the inner function raises
    okc = False
    if inner:
        tparam = tc.node.args.vararg.arg if tc.node.args.vararg else None
        seen_atoms = []

        def decide(t, tparam=tparam):
            if tparam and t.endswith(" in %s" % tparam) and ("type(" in t or "__class__" in t):
                seen_atoms.append(t)
                return False
            return None
        try:
            _ev, exits = boolx.walk_under(inner[0].node, decide)
        except ValueError as e:
            raise AnalysisError("C07.I2: %s" % e)
        okc = bool(seen_atoms) and bool(exits) and all(kind == "raise" for kind, st, env in exits)
    r.instance("_typed_coerce rejects other node kinds: %s" % bool(okc))
    if not okc:
        run.report(r, "%s:_typed_coerce:kind-check" % SC, tc.where(), "_typed_coerce no longer rejects literal kinds outside its list")

    # ---- I3 scalar error conversion
    r = run.rule("I3", "ScalarType.parse / parse_literal / serialize convert exactly ValueError|TypeError of the user function "
                       "into the library's ScalarParsingError / ScalarSerializationError", 3)
    st = prog.get_class(TY, "ScalarType")
    for meth, exc in (("parse", "ScalarParsingError"), ("parse_literal", "ScalarParsingError"), ("serialize", "ScalarSerializationError")):
        f = st.methods.get(meth)
        shapes.require(f is not None, "C07.I3: ScalarType.%s not found" % meth)
        run.looked_at(f)
        ok = False
        for n in own_nodes(f.node):
            if isinstance(n, ast.ExceptHandler) and n.type is not None:
                ts = {ast.unparse(t) for t in (n.type.elts if isinstance(n.type, ast.Tuple) else [n.type])}
                if ts == {"ValueError", "TypeError"} and _contains(n, lambda x: isinstance(x, ast.Raise) and x.exc is not None and exc in ast.unparse(x.exc)):
                    ok = True
        r.instance("ScalarType.%s converts ValueError|TypeError to %s: %s" % (meth, exc, ok))
        if not ok:
            run.report(r, "%s:ScalarType.%s:conversion" % (TY, meth), f.where(), "%s does not convert exactly ValueError|TypeError into %s" % (meth, exc))
    # and the routes catch those library errors
    for f, exc in ((cv, "ScalarParsingError"),):
        ok = _contains(f.node, lambda x: isinstance(x, ast.ExceptHandler) and x.type is not None and exc in ast.unparse(x.type))
        r.instance("%s handles %s: %s" % (f.qualname, exc, ok))
        if not ok:
            run.report(r, "%s:%s:unhandled(%s)" % (f.module.name, f.qualname, exc), f.where(), "%s lets %s escape as is" % (f.qualname, exc))

    check_numeric_conversions(prog, run, "I4")
    check_element_type(prog, run, "L1", cv, clv, vfa)
    # the configured Python names and defaults survive every rebuild of an argument / input field (shared with C14.C2)
    from . import c14
    c14.check_copy_sources(prog, run, "R1")
    check_default_only_when_absent(prog, run, "D1")
    from . import c04
    c04.check_context_threading(prog, run, "V1")
    c04.check_memo_keys(prog, run, "M1")
    from .. import valuetruth
    valuetruth.check(prog, run, "N1", ["py_gql.utilities.coerce_value", "py_gql.utilities.value_from_ast", "py_gql.schema.scalars",
                                       "py_gql.execution.wrappers", "py_gql.execution.executor"], 10)


NUMERIC_CATALOGUE_TEXT = (
    "every builtin numeric conversion in the scalar coercers of schema/scalars.py (`int(x)`, `int(x, base)`, `float(x)`) that can "
    "raise OverflowError for the kind of argument reaching it (int(float) for ±inf, float(int) for integers beyond the double "
    "range, any conversion of an argument of unknown kind) sits inside a handler for OverflowError/ArithmeticError: "
    "ScalarType.parse/serialize convert only ValueError|TypeError, so an OverflowError leaves the request as an internal exception")


def check_element_type(prog, run, rule_id, cv, clv, vfa):
    """L1: the item type handed to the recursive coercion of list elements."""
    from .. import dispatch
    r = run.rule(rule_id, "list coercion on both routes (value_from_ast, _coerce_list_value): on every execution where the type is a "
                          "ListType, each recursive coercion of an element (or of the single value wrapped into a list) is given "
                          "exactly `<list type>.type` (path value, local aliases followed): an item type unwrapped or replaced on the "
                          "way lets a null — e.g. a variable holding null inside a list literal — into a NonNull item position", 2)
    names = {cv.name, vfa.name}
    for f in (vfa, clv):
        tparam = None
        for a in f.node.args.args:
            if a.arg.startswith("type"):
                tparam = a.arg
        if tparam is None:
            raise AnalysisError("C07.%s: type parameter of %s not found" % (rule_id, f.qualname))
        exits = dispatch.executions(prog, f, tparam, "ListType")
        seen_calls = 0
        bad = {}
        for kind, st, env in exits:
            if kind == "raise":
                continue
            stmts = env.get(boolx.STMTS, ())
            for c in env.get(boolx.CALLS, ()):
                fname = c.func.id if isinstance(c.func, ast.Name) else None
                if fname not in names or len(c.args) < 2:
                    continue
                holder = c
                while holder is not None and not isinstance(holder, ast.stmt):
                    holder = getattr(holder, "_parent", None)
                penv = boolx.path_env(stmts, holder)
                t = " ".join(ast.unparse(boolx.path_subst(c.args[1], penv)).split())
                seen_calls += 1
                if t != "%s.type" % tparam:
                    bad.setdefault(t, c)
        r.instance("%s: %d element coercions on %d list-type executions" % (f.qualname, seen_calls, len(exits)))
        if not seen_calls:
            run.report(r, "%s:%s:element-type(none)" % (f.module.name, f.qualname), f.where(),
                       "no recursive coercion of the elements is reached when the type is a list type")
        for t, c in sorted(bad.items()):
            run.report(r, "%s:%s:element-type(%s)" % (f.module.name, f.qualname, t), f.where(c),
                       "an element of a list is coerced against `%s` instead of the list's item type `%s.type` on some execution: "
                       "what the item type requires (non-null, the element's own wrappers) is not enforced for it" % (t, tparam))


def check_numeric_conversions(prog, run, rule_id):
    r = run.rule(rule_id, NUMERIC_CATALOGUE_TEXT, 3)
    mod = prog.module(SC)
    funcs = [f for f in prog.all_funcs() if f.module is mod]
    for f in funcs:
        for n in own_nodes(f.node):
            if not (isinstance(n, ast.Call) and isinstance(n.func, ast.Name) and n.func.id in ("int", "float") and n.args):
                continue
            arg = n.args[0]
            kinds = None   # None = unknown
            if isinstance(arg, ast.Constant):
                kinds = {type(arg.value).__name__}
            if isinstance(arg, ast.Name):
                cur = n
                while getattr(cur, "_parent", None) is not None and cur is not f.node:
                    par = cur._parent
                    if isinstance(par, ast.If) and any(cur is b for b in par.body):
                        for t in (par.test.values if isinstance(par.test, ast.BoolOp) and isinstance(par.test.op, ast.And) else [par.test]):
                            if isinstance(t, ast.Call) and isinstance(t.func, ast.Name) and t.func.id == "isinstance" and len(t.args) == 2 \
                                    and isinstance(t.args[0], ast.Name) and t.args[0].id == arg.id:
                                kinds = {x.id for x in ast.walk(t.args[1]) if isinstance(x, ast.Name)}
                    cur = par
                # a local bound from float(...)/int(...) has that kind
                if kinds is None:
                    binds = [x.value for x in own_nodes(f.node) if isinstance(x, ast.Assign) and len(x.targets) == 1
                             and isinstance(x.targets[0], ast.Name) and x.targets[0].id == arg.id]
                    if len(binds) == 1 and isinstance(binds[0], ast.Call) and isinstance(binds[0].func, ast.Name) and binds[0].func.id in ("float", "int", "str"):
                        kinds = {binds[0].func.id}
            if n.func.id == "int" and len(n.args) >= 2:
                may = set()                       # int(str, base): ValueError / TypeError only
            elif n.func.id == "int":
                may = {"OverflowError"} if (kinds is None or "float" in kinds) else set()
            else:
                may = {"OverflowError"} if (kinds is None or "int" in kinds) else set()
            caught = False
            cur = n
            while getattr(cur, "_parent", None) is not None and cur is not f.node:
                par = cur._parent
                if isinstance(par, ast.Try) and any(cur is b for b in par.body):
                    for h in par.handlers:
                        names = {"BaseException"} if h.type is None else {x.id for x in ast.walk(h.type) if isinstance(x, ast.Name)}
                        if names & {"OverflowError", "ArithmeticError", "Exception", "BaseException"}:
                            caught = True
                cur = par
            r.instance("%s: %s with argument kind %s may raise %s, handled: %s" % (f.qualname, ast.unparse(n), sorted(kinds) if kinds else "unknown", sorted(may), caught))
            if may and not caught:
                run.report(r, "%s:%s:unconverted-overflow(%s)" % (SC, f.qualname, ast.unparse(n)), f.where(n),
                           "`%s` can raise OverflowError (argument kind: %s) outside any handler for it: the error is neither ValueError "
                           "nor TypeError, so ScalarType does not turn it into a coercion error and it aborts the whole request"
                           % (ast.unparse(n), "/".join(sorted(kinds)) if kinds else "unknown"))


def check_default_only_when_absent(prog, run, rule_id):
    """A declared default replaces an ABSENT value only; a provided value (explicit null included) is coerced as given."""
    from .. import boolx
    r = run.rule(rule_id, "in the coercion routes (coerce_variable_values, coerce_argument_values, _coerce_input_object, "
                          "_extract_input_object) a declared default (`.default_value`) is read only on executions where the membership "
                          "test of the name in the provided container is false: with every `name in provided` atom true (path-consistent "
                          "walk of the function or of its per-member loop body) no expression mentioning `.default_value` other than a "
                          "bare presence test is evaluated — an explicit null is a value, not a request for the default", 4)
    targets = [(CV, "coerce_variable_values"), (CV, "coerce_argument_values"), (CV, "_coerce_input_object"), (VFA, "_extract_input_object")]
    for modname, fname in targets:
        f = prog.get_func(modname, fname)
        run.looked_at(f)
        loops = [n for n in f.node.body if isinstance(n, ast.For)]
        bodies = [("loop over %s" % ast.unparse(lp.iter)[:30], lp.body) for lp in loops] or [("body", f.node.body)]
        for label, body in bodies:
            fake = ast.FunctionDef(name="_", args=f.node.args, body=body, decorator_list=[], returns=None, type_comment=None)
            members = set()
            for st in body:
                for c in ast.walk(st):
                    if isinstance(c, ast.Compare) and len(c.ops) == 1 and isinstance(c.ops[0], (ast.In, ast.NotIn)):
                        members.add(boolx.canonical_atom(c)[0])
            if not members:
                continue
            try:
                def decide(t):
                    try:
                        e = ast.parse(t, mode="eval").body
                    except SyntaxError:
                        return None
                    return True if isinstance(e, ast.Compare) and len(e.ops) == 1 and isinstance(e.ops[0], ast.In) else None
                evaluated, exits = boolx.walk_under(fake, decide)
            except ValueError as e:
                raise AnalysisError("%s: %s" % (rule_id, e))
            r.instance("%s %s: %d membership atoms assumed true, %d expressions evaluated" % (fname, label, len(members), len(evaluated)))
            seen = set()
            for n, env in evaluated.values():
                if isinstance(n, ast.Call) and any(isinstance(x, ast.Attribute) and x.attr in ("default_value", "_default_value") for a in list(n.args) + [k.value for k in n.keywords] for x in ast.walk(a)):
                    key = " ".join(ast.unparse(n).split())[:60]
                    if key in seen:
                        continue
                    seen.add(key)
                    cond = ", ".join("%s=%s" % kv for kv in sorted(env.items()) if kv[0] not in boolx.META)
                    run.report(r, "%s:%s:default-for-provided-value" % (modname, fname), f.where(n),
                               "`%s` uses the declared default although the name is present in the provided values (when %s): a value "
                               "explicitly given as null is replaced by the default instead of being delivered / rejected as null" % (key, cond))


def check_non_finite_guard(prog, run, rule_id):
    """Float coercion refuses NaN and both infinities."""
    from .. import fold
    import math
    r = run.rule(rule_id, "coerce_float: the guard that follows the conversion - the test of the `if` that raises and mentions the converted "
                          "value - is a pure expression over that value; folded on nan, +inf, -inf it is true (the value is refused) and on "
                          "0.0, 1.5, -2.5, 1e308 it is false: NaN and the infinities are neither GraphQL nor JSON numbers, and a guard "
                          "that lets one through hands resolvers a value the response cannot carry", 7)
    cf = prog.get_func(SC, "coerce_float")
    run.looked_at(cf)
    conv = [n for n in own_nodes(cf.node) if isinstance(n, ast.Assign) and len(n.targets) == 1 and isinstance(n.targets[0], ast.Name)
            and isinstance(n.value, ast.Call) and isinstance(n.value.func, ast.Name) and n.value.func.id == "float"]
    if len(conv) != 1:
        raise AnalysisError("C07.%s: the float() conversion of coerce_float was not found" % rule_id)
    v = conv[0].targets[0].id
    guards = [n for n in own_nodes(cf.node) if isinstance(n, ast.If) and n.body and isinstance(n.body[-1], ast.Raise)
              and any(isinstance(x, ast.Name) and x.id == v for x in ast.walk(n.test)) and n.lineno > conv[0].lineno]
    if not guards:
        run.report(r, "%s:coerce_float:no-non-finite-guard" % SC, cf.where(), "coerce_float has no guard on the converted value: NaN and the infinities are accepted")
        return
    allowed = {"float": float, "abs": abs, "isinstance": isinstance, "math": math, "str": str, "repr": repr, "True": True, "False": False, "None": None,
               "bool": bool, "int": int}
    for sample in (float("nan"), float("inf"), float("-inf"), 0.0, 1.5, -2.5, 1e308):
        refused = False
        for g in guards:
            try:
                got = fold.fold_expr(g.test, {v: sample}, allowed)
            except fold.FoldError as e:
                raise AnalysisError("C07.%s: the guard `%s` cannot be folded: %s" % (rule_id, " ".join(ast.unparse(g.test).split()), e))
            if isinstance(got, Exception):
                raise AnalysisError("C07.%s: the guard raises %r on %r" % (rule_id, got, sample))
            refused = refused or bool(got)
        want = not math.isfinite(sample)
        r.instance("converted value %r -> %s" % (sample, "refused" if refused else "accepted"))
        if refused != want:
            run.report(r, "%s:coerce_float:non-finite-guard(%r)" % (SC, sample), cf.where(guards[0]),
                       "coerce_float %s the value %r (guard `%s`): %s" % ("refuses" if refused else "accepts", sample,
                                                                     " ".join(ast.unparse(guards[0].test).split()),
                                                                     "a finite number is rejected" if refused else "a non-finite number reaches resolvers and cannot be serialised as strict JSON"))


def check_unknown_variable(prog, run, rule_id):
    """A variable the request does not provide is reported as unknown, never looked up."""
    from .. import boolx
    import re
    VFA = "py_gql.utilities.value_from_ast"
    r = run.rule(rule_id, "value_from_ast._extract_variable decided for (a variables mapping is given, it contains the name): without a "
                          "mapping or without the name every execution raises UnknownVariable and none subscripts the mapping; with the "
                          "name present the value is read - a missing variable must surface as the library's error, not as a KeyError "
                          "out of the coercion of a literal", 3)
    f = prog.get_func(VFA, "_extract_variable")
    run.looked_at(f)
    mp = f.params[-1]
    for given, present in ((False, False), (True, False), (True, True)):
        def decide(t, given=given, present=present):
            if t == mp:
                return given
            if t == "%s is None" % mp:
                return not given
            if re.match(r"^[\w.]+ in %s$" % re.escape(mp), t):
                return present
            return None
        try:
            ev, exits = boolx.walk_under(f.node, decide)
        except ValueError as e:
            raise AnalysisError("C07.%s: %s" % (rule_id, e))
        kinds = set()
        for kind, st, env in exits:
            if kind == "raise":
                exc = st.exc.func if isinstance(st.exc, ast.Call) else st.exc
                kinds.add("raise:" + (exc.id if isinstance(exc, ast.Name) else ast.unparse(exc).split(".")[-1]))
            else:
                kinds.add(kind)
        subs = any(isinstance(node, ast.Subscript) and isinstance(node.value, ast.Name) and node.value.id == mp for _i, (node, _e) in ev.items())
        r.instance("mapping given=%s, name present=%s -> %s, mapping subscripted: %s" % (given, present, sorted(kinds), subs))
        if not present and (kinds != {"raise:UnknownVariable"} or subs):
            run.report(r, "%s:_extract_variable:missing-variable(%s)" % (VFA, "no-mapping" if not given else "name-absent"), f.where(),
                       "with %s _extract_variable %s (outcomes %s): a missing variable is not reported as UnknownVariable" % (
                           "no variables mapping" if not given else "the name absent from the mapping",
                           "subscripts the mapping" if subs else "does not always raise UnknownVariable", sorted(kinds)))
        if present and not subs:
            run.report(r, "%s:_extract_variable:value-not-read" % VFA, f.where(), "a provided variable's value is never read from the mapping")


def check_member_type(prog, run, rule_id):
    """A member of an input object is converted against the member's own type."""
    r = run.rule(rule_id, "input-object coercion on both routes (_extract_input_object, _coerce_input_object): inside the loop over the "
                          "object type's fields every conversion call receives the field's own `.type` and none is handed the enclosing "
                          "object type - a variable placed at a member is checked (null for a non-null member, ...) against that member's "
                          "type, not against the type of the object it sits in", 2)
    for mod, fname in (("py_gql.utilities.value_from_ast", "_extract_input_object"), ("py_gql.utilities.coerce_value", "_coerce_input_object")):
        f = prog.get_func(mod, fname)
        run.looked_at(f)
        tparams = [a.arg for a in f.node.args.args if a.annotation is not None and "InputObjectType" in ast.unparse(a.annotation)] or \
                  [a.arg for a in f.node.args.args if "type" in a.arg]
        if not tparams:
            raise AnalysisError("C07.%s: the input-object type parameter of %s was not found" % (rule_id, fname))
        tp = tparams[0]
        loops = [n for n in own_nodes(f.node) if isinstance(n, ast.For) and any(
            isinstance(x, ast.Attribute) and x.attr in ("fields", "field_map") and isinstance(x.value, ast.Name) and x.value.id == tp for x in ast.walk(n.iter))]
        if not loops:
            raise AnalysisError("C07.%s: the loop over the fields of the object type in %s was not found" % (rule_id, fname))
        fvars = {x.id for lp in loops for x in ast.walk(lp.target) if isinstance(x, ast.Name)}
        own_type, enclosing = 0, []
        for lp in loops:
            for c in ast.walk(lp):
                if not isinstance(c, ast.Call):
                    continue
                args = list(c.args) + [k.value for k in c.keywords]
                if any(isinstance(a, ast.Attribute) and a.attr == "type" and isinstance(a.value, ast.Name) and a.value.id in fvars for a in args):
                    own_type += 1
                if any(isinstance(a, ast.Name) and a.id == tp for a in args) and not (isinstance(c.func, ast.Name) and c.func.id in ("isinstance", "str", "repr")):
                    callees = prog.resolve_call(f, c)
                    if any(k.module.name.startswith("py_gql.utilities") for k in callees):
                        enclosing.append(c)
        r.instance("%s: %d member conversions with the field's type, %d with the enclosing type" % (fname, own_type, len(enclosing)))
        if not own_type:
            raise AnalysisError("C07.%s: no conversion with `<field>.type` found in %s" % (rule_id, fname))
        for c in enclosing:
            run.report(r, "%s:%s:member-converted-against-enclosing-type(%s)" % (mod, fname, ast.unparse(c.func)), f.where(c),
                       "`%s` converts a member of the object against `%s`, the object's own type: the member's declared type (its "
                       "non-null wrapper in particular) is not applied to the value" % (" ".join(ast.unparse(c).split())[:80], tp))
