"""C08 — results independent of runtime / executor variant / completion order:
runtime interface, map_value contract, future completion on every callback
path, counter discipline, sibling executors."""
import ast

from .. import shapes
from ..cfg import event_paths
from ..model import AnalysisError, own_nodes, norm_stmt

RT = "py_gql.execution.runtime"
BASE = RT + ".base"
TP = RT + ".threadpool"
AIO = RT + ".asyncio"
BLK = RT + ".blocking"
EXE = "py_gql.execution.executor"
BEXE = "py_gql.execution.blocking_executor"

COMPLETE = ("set_result", "set_exception", "cancel")


def _sig(fi):
    a = fi.node.args
    pos = [x.arg for x in a.posonlyargs + a.args][1:]
    nd = len(a.defaults)
    return {"pos": pos, "required": len(pos) - nd, "vararg": a.vararg is not None, "kwarg": a.kwarg is not None,
            "kwonly": [x.arg for x in a.kwonlyargs]}


def check(prog, run):
    runtime = prog.get_class(BASE, "Runtime")
    subrt = prog.get_class(BASE, "SubscriptionRuntime")
    impls = [c for c in prog.subclasses(runtime) if c.module.name != BASE]
    shapes.require(len(impls) >= 3, "C08: fewer than 3 runtime implementations found")

    # ---- R1 interface
    r = run.rule("R1", "every Runtime implementation defines every abstract method of its base with a compatible positional "
                       "signature (no inherited NotImplementedError stub)", 18)
    def abstract_methods(c):
        out = {}
        for k in c.mro():
            for n, m in k.methods.items():
                if any("abstractmethod" in ast.unparse(d) for d in m.node.decorator_list):
                    out.setdefault(n, m)
        return out
    for c in impls:
        for n, am in sorted(abstract_methods(c).items()):
            m = c.find_method(n)
            r.instance("%s.%s" % (c.name, n))
            if m is None or m is am or any("abstractmethod" in ast.unparse(d) for d in m.node.decorator_list):
                run.report(r, "%s:%s:missing(%s)" % (c.module.name, c.name, n), c.module.relpath,
                           "%s does not implement %s: calling it raises NotImplementedError" % (c.name, n))
                continue
            run.looked_at(m)
            a, b = _sig(am), _sig(m)
            if not b["vararg"] and (len(b["pos"]) < len(a["pos"]) or b["required"] > a["required"] + (1 if False else 0) and b["required"] > len(a["pos"])):
                run.report(r, "%s:%s.%s:arity" % (c.module.name, c.name, n), m.where(),
                           "%s.%s%s cannot be called like the abstract %s%s" % (c.name, n, b["pos"], n, a["pos"]))
            elif not b["vararg"] and len(b["pos"]) >= len(a["pos"]) and b["required"] > a["required"]:
                run.report(r, "%s:%s.%s:arity" % (c.module.name, c.name, n), m.where(),
                           "%s.%s requires %d positional arguments, the interface %d" % (c.name, n, b["required"], a["required"]))

    check_map_value_contract(prog, run, "R2")

    # ---- R3 future completion in unwrap_future / gather_futures callbacks
    r = run.rule("R3", "every path through a done-callback of threadpool.py completes its outer future exactly once "
                       "(set_result | set_exception | cancel), re-arms itself, or is the not-yet-last arm of the counter test", 6)
    for outer_name in ("unwrap_future", "gather_futures"):
        outer = prog.get_func(TP, outer_name)
        # the future this function hands back: a local bound to Future() that it returns (whatever it is called)
        created = {t.id for x in own_nodes(outer.node) if isinstance(x, ast.Assign) and isinstance(x.value, ast.Call)
                   and isinstance(x.value.func, ast.Name) and x.value.func.id == "Future" for t in x.targets if isinstance(t, ast.Name)}
        returned = {x.value.id for x in own_nodes(outer.node) if isinstance(x, ast.Return) and isinstance(x.value, ast.Name)}
        fut_names = created & returned
        shapes.require(bool(fut_names), "C08.R3: the future returned by %s was not found" % outer_name)
        for n, cb in outer.nested.items():
            if not _registered_as_callback(outer, n):
                continue
            run.looked_at(cb)
            counter = _nonlocals(cb)

            def ev(x, n=n, fut_names=fut_names):
                if isinstance(x, ast.Call) and isinstance(x.func, ast.Attribute):
                    if x.func.attr in COMPLETE and isinstance(x.func.value, ast.Name) and x.func.value.id in fut_names:
                        return x.func.attr
                    if x.func.attr == "add_done_callback" and x.args and isinstance(x.args[0], ast.Name) and x.args[0].id == n:
                        return "rearm"
                    if x.func.attr == "cancel":
                        return "cancel-inner"
                return None

            def bev(test, truth, counter=counter):
                names = {y.id for y in ast.walk(test) if isinstance(y, ast.Name)}
                if counter & names and isinstance(test, ast.Compare) and isinstance(test.ops[0], ast.Eq):
                    return None if truth else "not-last"
                if counter & names and isinstance(test, ast.Compare) and isinstance(test.ops[0], (ast.NotEq, ast.Lt)):
                    return "not-last" if truth else None
                if isinstance(test, ast.Call) and isinstance(test.func, ast.Attribute) and test.func.attr == "cancelled":
                    return None if truth else "not-cancelled"
                return None

            normal, raised = event_paths(cb.node, ev, branch_event=bev)
            for seq in sorted(normal):
                core = [e for e in seq if not e.startswith("H:")]
                r.instance("%s.%s path %s" % (outer_name, n, core))
                done = [e for e in core if e in COMPLETE or e == "rearm"]
                ok = len(done) == 1 or (len(done) == 0 and ("not-last" in core or "not-cancelled" in core)) \
                    or (n == "handle_cancel")
                if not ok:
                    run.report(r, "%s:%s.%s:path(%s)" % (TP, outer_name, n, ">".join(core)), cb.where(),
                               "done-callback %s.%s has a path with events %s: the outer future is completed %d times on it"
                               % (outer_name, n, core, len(done)))

    # ---- R4 counter discipline in gather_futures
    r = run.rule("R4", "gather_futures: each input is appended to pending xor counted as done; on_finish is registered on "
                       "exactly the pending futures; every callback path that reaches the comparison increments the counter "
                       "exactly once before it; "
                       "the target is the length of the materialised input", 5)
    gf = prog.get_func(TP, "gather_futures")
    run.looked_at(gf)
    loops = [n for n in gf.node.body if isinstance(n, ast.For)]
    shapes.require(len(loops) >= 2, "C08.R4: gather_futures loops not found")
    part = loops[0]
    from ..canon import Canon
    gcn = Canon(gf.node)
    # roles by data flow, not by name: the registration loop hands a nested callback to add_done_callback of each element
    # of the *pending* list; the callback's nonlocal that it increments is the *counter*; what the counter is compared
    # with is the *target*
    reg = loops[-1]
    regs = [x for x in ast.walk(reg) if isinstance(x, ast.Call) and isinstance(x.func, ast.Attribute) and x.func.attr == "add_done_callback"
            and isinstance(x.func.value, ast.Name) and isinstance(reg.target, ast.Name) and x.func.value.id == reg.target.id
            and x.args and isinstance(x.args[0], ast.Name) and x.args[0].id in gf.nested]
    shapes.require(len(regs) == 1, "C08.R4: registration of the completion callback not found in gather_futures")
    of = gf.nested[regs[0].args[0].id]
    pending_name = gcn.text(reg.iter)
    counters = sorted(nm for nm in _nonlocals(of) if any(isinstance(x, ast.AugAssign) and isinstance(x.target, ast.Name) and x.target.id == nm
                                                          for x in own_nodes(of.node)))
    shapes.require(len(counters) == 1, "C08.R4: completion counter of %s not found" % of.qualname)
    counter = counters[0]
    r.instance("roles: pending list `%s`, callback %s, counter `%s`" % (pending_name, of.name, counter))
    copies = {}
    for x in own_nodes(gf.node):
        if isinstance(x, ast.Assign) and len(x.targets) == 1:
            t, v = x.targets[0], x.value
            pairs = list(zip(t.elts, v.elts)) if isinstance(t, ast.Tuple) and isinstance(v, ast.Tuple) and len(t.elts) == len(v.elts) else [(t, v)]
            for tt, vv in pairs:
                if isinstance(tt, ast.Name) and isinstance(vv, ast.Name):
                    copies.setdefault(tt.id, set()).add(vv.id)

    def aliases(nm):
        out, todo = {nm}, [nm]
        while todo:
            for y in copies.get(todo.pop(), ()):
                if y not in out:
                    out.add(y)
                    todo.append(y)
        return out
    pend_names, count_names = aliases(pending_name), aliases(counter)
    # the partition loop is the one that fills the pending list
    for lp in loops:
        if any(isinstance(x, ast.Call) and gcn.func_text(x).endswith(".append") and gcn.func_text(x)[:-len(".append")] in pend_names for x in ast.walk(lp)):
            part = lp
            break

    def pev(x):
        if isinstance(x, ast.Call) and gcn.func_text(x).endswith(".append") and gcn.func_text(x)[:-len(".append")] in pend_names:
            return "pend"
        if isinstance(x, ast.AugAssign) and isinstance(x.target, ast.Name) and x.target.id in count_names and isinstance(x.op, ast.Add):
            return "count"
        return None
    normal, _ = event_paths(None, pev, body=part.body, may_raise=lambda n: None)
    for seq in sorted(normal):
        r.instance("partition path %s" % list(seq))
        if sorted(seq) not in (["pend"], ["count"]):
            run.report(r, "%s:gather_futures:partition(%s)" % (TP, ">".join(seq)), gf.where(part),
                       "an input is %s in the partition loop: the completion count can never equal (or prematurely equals) the target"
                       % ("both counted and awaited" if len(seq) > 1 else "neither counted nor awaited"))
    r.instance("registration loop `%s`" % norm_stmt(reg))
    if not isinstance(reg.iter, ast.Name):
        run.report(r, "%s:gather_futures:registration" % TP, gf.where(reg), "the completion callback is not registered on exactly the pending futures")
    cmps = [x for x in own_nodes(of.node) if isinstance(x, ast.Compare) and len(x.ops) == 1 and isinstance(x.ops[0], (ast.Eq, ast.NotEq, ast.GtE))
            and any(isinstance(y, ast.Name) and y.id == counter for y in (x.left, x.comparators[0]))]
    shapes.require(len(cmps) == 1, "C08.R4: comparison of the counter with its target not found in %s" % of.qualname)
    other = cmps[0].comparators[0] if isinstance(cmps[0].left, ast.Name) and cmps[0].left.id == counter else cmps[0].left
    tval = gcn.expr(other)
    r.instance("target `%s`" % " ".join(ast.unparse(tval).split()))
    if not (isinstance(tval, ast.Call) and isinstance(tval.func, ast.Name) and tval.func.id == "len" and tval.args
            and " ".join(ast.unparse(tval.args[0]).split()) == gcn.text(part.iter)):
        run.report(r, "%s:gather_futures:target" % TP, gf.where(cmps[0]), "the completion target is not len() of the iterated list")

    def cev(x):
        if isinstance(x, ast.AugAssign) and isinstance(x.target, ast.Name) and x.target.id == counter:
            return "inc"
        if isinstance(x, ast.Compare) and any(isinstance(y, ast.Name) and y.id == counter for y in ast.walk(x)):
            return "cmp"
        return None
    normal, raised = event_paths(of.node, cev)
    for seq in sorted(normal | raised):
        core = [e for e in seq if e in ("inc", "cmp")]
        r.instance("%s counter events %s" % (of.name, core))
        if "cmp" not in core:
            continue   # a path that never consults the counter (failure exit) need not count
        if core.count("inc") != 1 or core.index("cmp") < core.index("inc"):
            run.report(r, "%s:gather_futures.on_finish:counter(%s)" % (TP, ">".join(core)), of.where(),
                       "a path of %s increments the counter %d times / compares before incrementing" % (of.name, core.count("inc")))

    # ---- R5 atomic counter update
    r = run.rule("R5", "a nonlocal written in a done-callback is updated by one augmented assignment whose operand has no call", 1)
    for fname in ("gather_futures", "unwrap_future", "chain"):
        outer = prog.get_func(TP, fname)
        for n, cb in outer.nested.items():
            for name in sorted(_nonlocals(cb)):
                for x in own_nodes(cb.node):
                    tgt = None
                    if isinstance(x, ast.Assign) and any(isinstance(t, ast.Name) and t.id == name for t in x.targets):
                        tgt = x
                    if isinstance(x, ast.AugAssign) and isinstance(x.target, ast.Name) and x.target.id == name:
                        r.instance("%s.%s: `%s`" % (fname, n, norm_stmt(x)))
                        if any(isinstance(y, ast.Call) for y in ast.walk(x.value)):
                            run.report(r, "%s:%s.%s:non-atomic(%s)" % (TP, fname, n, name), cb.where(x), "counter update evaluates a call between read and write")
                    if tgt is not None:
                        r.instance("%s.%s: `%s`" % (fname, n, norm_stmt(x)))
                        run.report(r, "%s:%s.%s:read-modify-write(%s)" % (TP, fname, n, name), cb.where(x),
                                   "`%s` is a separate read and write of shared callback state (lost update under concurrent completion)" % norm_stmt(x))

    check_gather_bookkeeping(prog, run, "R6")

    # ---- R7 broad handlers transfer or re-raise
    r = run.rule("R7", "every `except Exception/BaseException` in execution/runtime/** re-raises, transfers the exception object "
                       "to a future or hands it to the else_ callback on every path", 6)
    for m in prog.modules.values():
        if not m.name.startswith(RT):
            continue
        for f in [x for x in prog.all_funcs() if x.module is m]:
            for n in own_nodes(f.node):
                if isinstance(n, ast.ExceptHandler) and n.type is not None and ast.unparse(n.type) in ("Exception", "BaseException") and n.name:
                    var = n.name

                    def hev(x, var=var):
                        if isinstance(x, ast.Call):
                            if any(isinstance(a, ast.Name) and a.id == var for a in x.args):
                                if isinstance(x.func, ast.Attribute) and x.func.attr == "set_exception":
                                    return "transfer"
                                if isinstance(x.func, ast.Name) and x.func.id == "isinstance":
                                    return None
                                return "handoff"
                        return None
                    normal, raised = event_paths(None, hev, body=n.body, may_raise=lambda nn: None)
                    for seq in sorted(normal):
                        r.instance("%s handler path %s" % (f.qualname, list(seq)))
                        if not seq:
                            run.report(r, "%s:%s:swallowed" % (m.name, f.qualname), f.where(n),
                                       "a path through `except %s as %s` neither re-raises nor passes the exception on: it is lost" % (ast.unparse(n.type), var))
                    for seq in sorted(raised):
                        r.instance("%s handler re-raise %s" % (f.qualname, list(seq)))

    # ---- R8 sibling executors
    r = run.rule("R8", "Executor.resolve_field and BlockingExecutor.resolve_field agree: same hooks, same handled exception "
                       "classes, errors recorded with (err, path, node), both finish through complete_value; overrides keep the "
                       "base signature; execute_fields results keyed in iteration order", 8)
    ex = prog.get_class(EXE, "Executor")
    bx = prog.get_class(BEXE, "BlockingExecutor")
    a, b = ex.methods["resolve_field"], bx.methods.get("resolve_field")
    shapes.require(b is not None, "C08.R8: BlockingExecutor.resolve_field not found")
    run.looked_at(a)
    run.looked_at(b)

    from ..canon import Canon

    def features(f):
        hooks, handled, adds, completes, resolver_calls, argcalls = set(), set(), [], 0, 0, 0
        cn = Canon(f.node)
        for fn in [f] + list(f.nested.values()):
            for n in own_nodes(fn.node):
                if isinstance(n, ast.Call):
                    ft = cn.func_text(n)
                    last = ft.rsplit(".", 1)[-1]
                    if last.startswith("on_field_"):
                        hooks.add((last, tuple(cn.text(x) for x in n.args)))
                    if last == "add_error":
                        adds.append(tuple(cn.text(x) for x in n.args))
                    if last == "complete_value":
                        completes += 1
                    if last == "argument_values":
                        argcalls += 1
                    if ft.startswith("self.field_resolver("):
                        resolver_calls += 1
                if isinstance(n, ast.ExceptHandler) and n.type is not None:
                    ts = n.type.elts if isinstance(n.type, ast.Tuple) else [n.type]
                    handled.update(ast.unparse(t) for t in ts)
                if isinstance(n, ast.keyword) and n.arg == "else_":
                    v = cn.expr(n.value)
                    if isinstance(v, ast.Tuple):
                        handled.add(ast.unparse(v.elts[0]))
        return hooks, handled, adds, completes, resolver_calls, argcalls
    fa, fb = features(a), features(b)
    for i, what in enumerate(("field hooks and their arguments", "handled exception classes")):
        r.instance("%s: %s vs %s" % (what, sorted(fa[i]), sorted(fb[i])))
        if fa[i] != fb[i]:
            run.report(r, "%s:resolve_field:siblings-disagree(%s)" % (BEXE, what.split()[0]), b.where(),
                       "Executor and BlockingExecutor disagree on %s: %s vs %s" % (what, sorted(fa[i]), sorted(fb[i])))
    for f, ft_ in ((a, fa), (b, fb)):
        r.instance("%s add_error args %s, complete_value calls %d, resolver calls %d" % (f.qualname, ft_[2], ft_[3], ft_[4]))
        for args in ft_[2]:
            if not (len(args) == 3 and args[0] in ("$exc", "$p0") and args[1:] == ("path", "nodes[0]")):
                run.report(r, "%s:%s:add_error-args" % (f.module.name, f.qualname), f.where(), "field error recorded with %s instead of (the caught error, path, nodes[0])" % (args,))
        if ft_[3] != 1 or ft_[4] != 1 or ft_[5] != 1:
            run.report(r, "%s:%s:shape" % (f.module.name, f.qualname), f.where(),
                       "resolve_field calls complete_value %d, the resolver %d and argument_values %d times (expected once each)" % (ft_[3], ft_[4], ft_[5]))
    for n, m in bx.methods.items():
        base = ex.find_method(n)
        if base is None or base is m:
            continue
        r.instance("override %s signature" % n)
        if [x for x in m.params] != [x for x in base.params]:
            run.report(r, "%s:BlockingExecutor.%s:signature" % (BEXE, n), m.where(), "override changes the positional parameters %s -> %s" % (base.params, m.params))
    # ordered accumulation
    for f in (ex.methods["execute_fields"], bx.methods["execute_fields"], ex.methods["execute_fields_serially"]):
        run.looked_at(f)
        txt = ast.unparse(f.node)
        r.instance("%s keeps iteration order" % f.qualname)
        for bad in ("sorted(", "reversed(", "set(", "[::-1]"):
            if bad in txt:
                run.report(r, "%s:%s:reorders(%s)" % (f.module.name, f.qualname, bad), f.where(), "%s applies %s to the field results" % (f.qualname, bad))
    ef = ex.methods["execute_fields"]
    keys_pending = [ast.unparse(n.func.value) for n in ast.walk(ef.node) if isinstance(n, ast.Call) and isinstance(n.func, ast.Attribute) and n.func.attr == "append"]
    r.instance("execute_fields appends to %s" % keys_pending)
    loop = [n for n in own_nodes(ef.node) if isinstance(n, ast.For)]
    if loop:
        normal, _ = event_paths(None, lambda x: ("append:" + ast.unparse(x.func.value)) if isinstance(x, ast.Call) and isinstance(x.func, ast.Attribute) and x.func.attr == "append" else None,
                                body=loop[0].body, may_raise=lambda n: None)
        want = sorted("append:" + k for k in set(keys_pending))
        for seq in normal:
            if sorted(seq) != want or len(want) != 2:
                run.report(r, "%s:Executor.execute_fields:parallel-lists(%s)" % (EXE, ">".join(seq)), ef.where(loop[0]),
                           "the key list and the pending-result list are not appended together, once each, on every iteration: values would be zipped with the wrong keys")

    check_flatten_before_finalise(prog, run)
    from . import c09
    c09.check_deferred_conservation(prog, run, "R11")
    check_deferred_predicate(prog, run, "R12")
    c09.check_guarded_flatten(prog, run, "R13")
    check_non_null_after_completion(prog, run, "R14")
    check_resolver_invocation(prog, run, "R15")
    check_no_blocking_wait(prog, run, "R16")
    check_completion_failure(prog, run, "R17")
    check_wrap_callable_transparent(prog, run, "R18")
    from .. import sentinel
    sentinel.check(prog, run, "R10", ["py_gql.execution"], 6,
                   "an unexpected IndexError/KeyError from a resolver would be lost under one executor/runtime and surface under the others")


def _else_names(f):
    """Names bound by unpacking else_: `exc_type, cb = else_`."""
    out = {"type": set(), "cb": set()}
    for n in ast.walk(f.node):
        if isinstance(n, ast.Assign) and isinstance(n.value, ast.Name) and n.value.id == "else_" and isinstance(n.targets[0], ast.Tuple):
            els = n.targets[0].elts
            if len(els) == 2:
                out["type"].add(els[0].id)
                out["cb"].add(els[1].id)
    # copies: `exc_type, cb = a, b` / `x = a` where a, b are such names (helpers unpacking else_ are analysed inlined)
    for _ in range(3):
        for n in ast.walk(f.node):
            if isinstance(n, ast.Assign) and len(n.targets) == 1:
                t, v = n.targets[0], n.value
                pairs = list(zip(t.elts, v.elts)) if isinstance(t, ast.Tuple) and isinstance(v, ast.Tuple) and len(t.elts) == len(v.elts) else [(t, v)]
                for tt, vv in pairs:
                    if isinstance(tt, ast.Name) and isinstance(vv, ast.Name):
                        for role in ("type", "cb"):
                            if vv.id in out[role]:
                                out[role].add(tt.id)
    return out


def _is_else_type(e, else_names):
    if isinstance(e, ast.Name) and e.id in else_names["type"]:
        return True
    if isinstance(e, ast.Subscript) and isinstance(e.value, ast.Name) and e.value.id == "else_" and ast.unparse(e.slice) == "0":
        return True
    return False


def _normal_ok(core, is_future_cb, label):
    c = [e for e in core]
    if is_future_cb:
        done = [e for e in c if e in COMPLETE]
        if len(done) != 1:
            return False
        if c.count("then") + c.count("then!") != 1:
            return False
        if "else" in c and not ("then!" in c and "match" in c and c.index("match") < c.index("else")):
            return False
        if "then" in c and done[0] != "set_result":
            return False
        return True
    if "then" not in c and "then!" not in c:
        return True    # branch that defers to a nested coroutine/callback
    if c.count("then") + c.count("then!") != 1:
        return False
    if "else" in c and not ("then!" in c and "match" in c and c.index("match") < c.index("else")):
        return False
    if "then!" in c and "else" not in c:
        return False   # swallowed: then failed, nothing applied, normal exit
    return True


def _registered_as_callback(outer, name):
    for n in ast.walk(outer.node):
        if isinstance(n, ast.Call) and isinstance(n.func, ast.Attribute) and n.func.attr == "add_done_callback" and n.args \
                and isinstance(n.args[0], ast.Name) and n.args[0].id == name:
            return True
    return False


def _nonlocals(cb):
    out = set()
    for n in own_nodes(cb.node):
        if isinstance(n, ast.Nonlocal):
            out.update(n.names)
    return out


def check_flatten_before_finalise(prog, run):
    """R9: the finaliser that snapshots executor.errors runs only on a flattened value."""
    from .. import boolx
    r = run.rule("R9", "wherever a callback that builds the final GraphQLResult (data + executor.errors) is attached with "
                       "runtime.map_value, on every path the mapped value has gone through runtime.unwrap_value: serial execution "
                       "and deferred sub-selections return wrapped values nested in wrapped values, and an unflattened one makes "
                       "the deferred runtimes finish early (pending future / coroutine as data, errors snapshotted too soon) while "
                       "the blocking configurations are unaffected", 2)
    found = 0
    for f in prog.all_funcs():
        if not f.module.name.startswith("py_gql.execution") or f.module.name.startswith(RT):
            continue
        finalisers = set()
        for name, nf in f.nested.items():
            if any(isinstance(n, ast.Call) and isinstance(n.func, ast.Name) and n.func.id == "GraphQLResult" for n in ast.walk(nf.node)):
                finalisers.add(name)

        def is_finaliser(e):
            if isinstance(e, ast.Name) and e.id in finalisers:
                return True
            return isinstance(e, ast.Lambda) and any(isinstance(n, ast.Call) and isinstance(n.func, ast.Name) and n.func.id == "GraphQLResult"
                                                      for n in ast.walk(e.body))
        from ..canon import Canon
        fcn = Canon(f.node)
        maps = [n for n in own_nodes(f.node) if isinstance(n, ast.Call) and fcn.func_text(n).endswith(".map_value")
                and len(n.args) >= 2 and is_finaliser(fcn.expr(n.args[1]))]
        if not maps:
            continue
        run.looked_at(f)
        try:
            _ev, exits = boolx.walk_under(f.node, lambda t: None)
        except ValueError as e:
            raise AnalysisError("C08.R9: %s" % e)
        for mcall in maps:
            found += 1
            paths = [(k, st, env) for k, st, env in exits if any(c is mcall for c in env.get(boolx.CALLS, ()))]
            r.instance("%s: map_value(_, <finaliser>) reached on %d paths" % (f.qualname, len(paths)))
            shapes.require(bool(paths), "C08.R9: no path of %s reaches its finalising map_value" % f.qualname)
            for k, st, env in paths:
                calls = env.get(boolx.CALLS, ())
                un = [c for c in calls if fcn.func_text(c).endswith(".unwrap_value")]
                given = fcn.expr(mcall.args[0])
                direct = isinstance(given, ast.Call) and " ".join(ast.unparse(given.func).split()).endswith(".unwrap_value")
                if not un or (isinstance(given, ast.Call) and not direct):
                    cond = ", ".join("%s=%s" % kv for kv in sorted(env.items()) if kv[0] not in boolx.META)
                    run.report(r, "%s:%s:finalised-unflattened" % (f.module.name, f.qualname), f.where(mcall),
                               "on the path where %s the value given to map_value(_, <builds GraphQLResult>) has not been passed "
                               "through runtime.unwrap_value: a nested wrapped value (serial chain, deferred sub-selection) becomes "
                               "the response data under the asyncio and thread-pool runtimes" % (cond or "(unconditional)"))
                    break
    shapes.require(found >= 2, "C08.R9: expected the finalising map_value of execute() and of execute_subscription_event(), found %d" % found)


def check_deferred_predicate(prog, run, rule_id):
    """One deferred-ness predicate per runtime; flattening loops re-test with it."""
    r = run.rule(rule_id, "each deferred runtime decides `is this value deferred?` with ONE predicate: every value test in the if/while/"
                          "ternary conditions of asyncio.py (resp. threadpool.py) that is not an exception-class test or a test on a "
                          "callable uses the same function, in particular the re-test that keeps unwrap_value / unwrap_future "
                          "flattening — a narrower re-test (coroutines only) hands a still-pending Future/Task to completion as if it "
                          "were the resolver's value", 8)
    for modname in (AIO, TP):
        mod = prog.module(modname)
        preds = {}
        for f in prog.all_funcs():
            if f.module is not mod:
                continue
            for n in own_nodes(f.node):
                if not isinstance(n, (ast.If, ast.While, ast.IfExp)):
                    continue
                for c in ast.walk(n.test):
                    if isinstance(c, ast.Call) and isinstance(c.func, (ast.Name, ast.Attribute)) and len(c.args) == 1:
                        name = ast.unparse(c.func)
                        if name in ("isinstance", "len", "callable", "bool") or name.endswith("function") or name.endswith("callable"):
                            continue     # bool(x) is x; the calls inside x are visited on their own
                        if isinstance(c.args[0], ast.Attribute) and isinstance(c.args[0].value, ast.Name) and c.args[0].value.id == "self":
                            continue     # a test on the runtime's own configuration, not on a value
                        # a module-level alias of the same function is the same predicate
                        if isinstance(c.func, ast.Name):
                            rr = prog.resolve_name(mod, c.func.id)
                            if rr and rr[0] == "func":
                                name = rr[1].name
                            elif rr and rr[0] == "assign" and isinstance(rr[1], ast.Name):
                                name = rr[1].id
                        preds.setdefault(name, []).append((f, n, c))
                        r.instance("%s: %s tests `%s`" % (modname.split(".")[-1], f.qualname, ast.unparse(c)))
        if not preds:
            raise AnalysisError("%s: no deferred-ness predicate found in %s" % (rule_id, modname))
        if len(preds) > 1:
            major = max(preds, key=lambda k: len(preds[k]))
            for name, sites in sorted(preds.items()):
                if name == major:
                    continue
                f, n, c = sites[0]
                run.report(r, "%s:%s:second-predicate(%s)" % (modname, f.qualname, name), f.where(c),
                           "`%s` decides deferred-ness here while the rest of %s uses `%s`: values the second test rejects but the "
                           "first accepts (a Future or Task that is not a coroutine) are left unflattened or handled as plain values"
                           % (ast.unparse(c), modname.split(".")[-1], major))


def check_map_value_contract(prog, run, rule_id):
    # ---- R2 map_value contract
    r = run.rule(rule_id, "each map_value/chain body: `then` is attempted exactly once per path; the else_ callback runs only in "
                       "a handler of that attempt, only under isinstance(err, else_[0]); every other exception is re-raised or "
                       "transferred with set_exception; each path of a future callback completes the target exactly once", 8)
    bodies = []
    bodies.append(("BlockingRuntime.map_value", prog.get_func(BLK, "BlockingRuntime.map_value")))
    aio = prog.get_func(AIO, "AsyncIORuntime.map_value")
    bodies.append(("AsyncIORuntime.map_value", aio))
    for n, f in aio.nested.items():
        bodies.append(("AsyncIORuntime.map_value.%s" % n, f))
    ch = prog.get_func(TP, "chain")
    bodies.append(("chain", ch))
    for n, f in ch.nested.items():
        bodies.append(("chain.%s" % n, f))
    for label, f in bodies:
        run.looked_at(f)
        else_names = _else_names(f)

        def ev(n, else_names=else_names):
            if isinstance(n, ast.Await):
                return "src"      # obtaining the source value (may fail before `then` is reached)
            if isinstance(n, ast.Call):
                fn = n.func
                if isinstance(fn, ast.Attribute) and fn.attr == "result" and not n.args:
                    return "src"
                if isinstance(fn, ast.Name) and fn.id == "then":
                    return "then"
                if isinstance(fn, ast.Name) and fn.id in else_names["cb"]:
                    return "else"
                if isinstance(fn, ast.Subscript) and isinstance(fn.value, ast.Name) and fn.value.id == "else_" and ast.unparse(fn.slice) == "1":
                    return "else"
                if isinstance(fn, ast.Attribute) and fn.attr in COMPLETE:
                    return fn.attr
                if isinstance(fn, ast.Name) and fn.id == "isinstance" and len(n.args) == 2 and _is_else_type(n.args[1], else_names):
                    return None
            return None

        def bev(test, truth, else_names=else_names):
            for n, pos in shapes.signed_subterms(test, lambda n: isinstance(n, ast.Call) and isinstance(n.func, ast.Name) and n.func.id == "isinstance"
                                                 and len(n.args) == 2 and _is_else_type(n.args[1], else_names)):
                return "match" if truth == pos else "nomatch"
            # `else_ is None` / `else_ is not None` (no handler was supplied)
            for n, pos in shapes.signed_subterms(test, lambda n: isinstance(n, ast.Compare) and len(n.ops) == 1 and isinstance(n.ops[0], (ast.Is, ast.IsNot))
                                                 and isinstance(n.left, ast.Name) and n.left.id == "else_"
                                                 and isinstance(n.comparators[0], ast.Constant) and n.comparators[0].value is None):
                is_none = (truth == pos) == isinstance(n.ops[0], ast.Is)
                return "noelse" if is_none else None
            for n, pos in shapes.signed_subterms(test, lambda n: isinstance(n, ast.Name) and n.id == "else_"):
                return None if truth == pos else "noelse"
            return None

        has_then = any(ev(n) == "then" for n in own_nodes(f.node))
        if not has_then:
            continue

        def user_code_may_raise(node, ev=ev):
            """Only user-supplied code raises: then(), the else_ callback, future.result() and awaits."""
            for x in ast.walk(node):
                if isinstance(x, ast.Await):
                    return "*"
                if isinstance(x, ast.Call):
                    if ev(x) in ("then", "else"):
                        return "*"
                    if isinstance(x.func, ast.Attribute) and x.func.attr == "result":
                        return "*"
            return None
        normal, raised = event_paths(f.node, ev, branch_event=bev, may_raise=user_code_may_raise, raising_events={"then", "else", "src"}, cap=14)

        def attempt(seq):
            # a failure while obtaining the source value counts as the failed attempt of `then` (whether the two are
            # one statement `then(f.result())` or two); a successful fetch is not an event of the contract
            out = []
            for e in seq:
                if e == "src":
                    continue
                out.append("then!" if e == "src!" else e)
            return tuple(out)
        def feasible(q):
            # without an else_ nothing matches it: `isinstance(err, else_[0])` is not evaluated (or is asked of the empty tuple of
            # classes a helper substitutes) - a path that finds else_ absent and then a matching class does not exist
            return not ("noelse" in q and "match" in q[q.index("noelse"):])
        normal = {attempt(q) for q in normal if feasible(q)}
        raised = {attempt(q) for q in raised if feasible(q)}
        is_future_cb = any(ev(n) in COMPLETE for n in own_nodes(f.node))
        # a failure of the attempt (fetching the source value or running `then`) is always offered to else_: the path
        # consults isinstance(err, else_[0]), or else_ is absent on it, or it is the cancellation hand-over
        for seq in sorted(normal | raised):
            core = [e for e in seq if not e.startswith("H:")]
            if "then!" in core and not ({"match", "nomatch", "noelse", "cancel"} & set(core)):
                run.report(r, "%s:%s:failure-not-offered(%s)" % (f.module.name, label, ">".join(core)), f.where(),
                           "%s has a path %s on which `then` (or fetching its argument) fails and the exception is never tested "
                           "against else_[0]: a ResolverError raised while the value is completed is not turned into a nulled "
                           "field by the caller's handler and fails the whole operation" % (label, core))
        for seq in sorted(normal):
            core = [e for e in seq if not e.startswith("H:")]
            r.instance("%s normal path %s" % (label, core))
            ok = _normal_ok(core, is_future_cb, label)
            if not ok:
                run.report(r, "%s:%s:path(%s)" % (f.module.name, label, ">".join(core)), f.where(),
                           "%s has a path with events %s: violates the map_value contract (then once; else_ only for a matching "
                           "exception of then; %s)" % (label, core, "target completed exactly once" if is_future_cb else "other exceptions re-raised"))
        for seq in sorted(raised):
            core = [e for e in seq if not e.startswith("H:")]
            r.instance("%s raising path %s" % (label, core))
            if is_future_cb:
                # an exception leaving a done-callback is swallowed by concurrent.futures: target must already be complete
                # paths raised by `then`/`result` inside the try are routed to handlers, so any escape is from a handler body
                if not any(e in COMPLETE for e in core) and "then!" in core and "else!" not in core and not core[-2:-1] == ["else!"]:
                    run.report(r, "%s:%s:escape(%s)" % (f.module.name, label, ">".join(core)), f.where(),
                               "an exception can leave the done-callback %s without completing the target future: the chained "
                               "result would stay pending forever" % label)
            else:
                # sync variant: escaping exception must be the re-raise of then's failure with no else_ applied unless matched
                if "else" in core and "match" not in core:
                    run.report(r, "%s:%s:else-unguarded(%s)" % (f.module.name, label, ">".join(core)), f.where(),
                               "else_ callback applied without the isinstance(err, else_[0]) guard")
        if not is_future_cb:
            need_reraise = any(("then!" in s and s[-1] in ("raise:reraise",) and "else" not in s) for s in raised)
            r.instance("%s re-raises unmatched exceptions: %s" % (label, need_reraise))
            if not need_reraise and any("then" in s for s in normal):
                # the deferred asyncio branch and chain's immediate branch both need it
                if any(isinstance(n, ast.ExceptHandler) for n in own_nodes(f.node)):
                    run.report(r, "%s:%s:swallows" % (f.module.name, label), f.where(),
                               "%s catches exceptions of `then` but has no path that re-raises the unmatched ones: an unexpected "
                               "resolver exception is lost" % label)


def check_non_null_after_completion(prog, run, rule_id):
    """Both executors check the COMPLETED value of a non-null position."""
    from .. import boolx
    r = run.rule(rule_id, "complete_non_nullable_value (generic Executor and the BlockingExecutor override): every returning path hands the "
                          "result of complete_value to _handle_non_nullable_value (directly, or through the callback given to "
                          "runtime.map_value) — completion itself can produce null (a scalar serialising to None), and an executor that "
                          "only checks the raw resolver value records no `not nullable` error where the others do", 2)
    for mod, q in ((EXE, "Executor.complete_non_nullable_value"), (BEXE, "BlockingExecutor.complete_non_nullable_value")):
        f = prog.get_func(mod, q)
        run.looked_at(f)
        try:
            _ev, exits = boolx.walk_under(f.node, lambda t: None)
        except ValueError as e:
            raise AnalysisError("%s: %s" % (rule_id, e))
        rets = [(st, env) for k, st, env in exits if k == "return"]
        r.instance("%s: %d returning paths" % (q, len(rets)))
        if not rets:
            raise AnalysisError("%s: %s has no returning path" % (rule_id, q))
        def has_call(e, attr):
            return any(isinstance(x, ast.Call) and isinstance(x.func, ast.Attribute) and x.func.attr == attr for x in ast.walk(e))
        for st, env in rets:
            ok = False
            if st is not None and st.value is not None:
                # the returned expression with every local (aliases of bound methods included) replaced by its path value
                rv = boolx.path_subst(st.value, boolx.path_env(env.get(boolx.STMTS, ()), st))
                if isinstance(rv, ast.Call) and isinstance(rv.func, ast.Attribute):
                    if rv.func.attr == "_handle_non_nullable_value" and any(has_call(a, "complete_value") for a in rv.args):
                        ok = True
                    elif rv.func.attr == "map_value" and len(rv.args) >= 2 and has_call(rv.args[0], "complete_value"):
                        cb = rv.args[1]
                        body = cb.body if isinstance(cb, ast.Lambda) else (f.nested[cb.id].node if isinstance(cb, ast.Name) and cb.id in f.nested else None)
                        ok = body is not None and has_call(body, "_handle_non_nullable_value")
            if not ok:
                cond = ", ".join("%s=%s" % kv for kv in sorted(env.items()) if kv[0] not in boolx.META)
                run.report(r, "%s:%s:completed-value-unchecked" % (mod, q), f.where(st),
                           "%s can return `%s` without passing the completed value to _handle_non_nullable_value (when %s): a null produced "
                           "by completion is not reported as `not nullable` under this executor" % (q, norm_stmt(st, 60), cond or "always"))
                break


def check_resolver_invocation(prog, run, rule_id):
    """Both resolve_field implementations obtain the field's value the same way."""
    from .. import boolx
    from ..canon import Canon
    r = run.rule(rule_id, "Executor.resolve_field and BlockingExecutor.resolve_field: on every execution that returns without having "
                          "entered an exception handler, the value of the field comes from ONE call of the resolver returned by "
                          "self.field_resolver(parent_type, field_definition), made with `**self.argument_values(field_definition, "
                          "node)` (path values): a shortcut that skips argument coercion or the resolver (a fast path for the default "
                          "resolver on dicts) gives the optimised executor other data and errors than the generic one", 2)
    for modname, cname in ((EXE, "Executor"), (BEXE, "BlockingExecutor")):
        f = prog.get_func(modname, "%s.resolve_field" % cname)
        run.looked_at(f)
        cn = Canon(f.node)
        try:
            _ev, exits = boolx.walk_under(f.node, lambda t: None)
        except ValueError as e:
            raise AnalysisError("C08.%s: %s" % (rule_id, e))
        n_ok = n_bad = 0
        for kind, st, env in exits:
            if kind != "return" or env.get(boolx.HANDLERS):
                continue
            stmts = env.get(boolx.STMTS, ())
            good = 0
            for c in env.get(boolx.CALLS, ()):
                ft = cn.text(c.func)
                if not ft.replace(" ", "").startswith("self.field_resolver("):
                    continue
                holder = c
                while holder is not None and not isinstance(holder, ast.stmt):
                    holder = getattr(holder, "_parent", None)
                penv = boolx.path_env(stmts, holder)
                for k in c.keywords:
                    if k.arg is None:
                        v = boolx.path_subst(k.value, penv)
                        if isinstance(v, ast.Call) and " ".join(ast.unparse(v.func).split()) == "self.argument_values":
                            good += 1
            if good == 1:
                n_ok += 1
            else:
                n_bad += 1
                run.report(r, "%s:%s.resolve_field:value-not-from-resolver" % (modname, cname), f.where(st) if st is not None else f.where(),
                           "%s.resolve_field has an execution that returns a value without exactly one call of the field's resolver "
                           "with the coerced arguments (%d such calls on it): argument coercion errors or the resolver itself are "
                           "bypassed there" % (cname, good))
                break
        r.instance("%s.resolve_field: %d plain executions call the resolver with **argument_values" % (cname, n_ok))
        if not n_ok and not n_bad:
            raise AnalysisError("C08.%s: no plain execution of %s.resolve_field found" % (rule_id, cname))



def check_gather_bookkeeping(prog, run, rule_id="R6"):
    # ---- R6 asyncio gather_values bookkeeping
    r = run.rule(rule_id, "AsyncIORuntime.gather_values: the awaitable list and its index list are appended together, every value "
                       "gets a result slot, and results are patched through zip(index list, gathered)", 3)
    gv = prog.get_func(AIO, "AsyncIORuntime.gather_values")
    run.looked_at(gv)
    from ..canon import Canon
    vcn = Canon(gv.node)
    loop = [n for n in gv.node.body if isinstance(n, ast.For)]
    shapes.require(len(loop) == 1, "C08.R6: gather_values loop not found")
    # roles by data flow: the awaiting coroutine patches RESULT[i] = v for (i, v) in zip(INDEX, await gather(*AWAITABLES)); it is a
    # closure of gather_values, or a module-level coroutine function gather_values hands its lists to (parameters mapped
    # back to the caller's names)
    rename = {}
    aws = [f for f in gv.nested.values() if any(isinstance(x, ast.Await) for x in ast.walk(f.node))]
    if not aws:
        for c in own_nodes(gv.node):
            if isinstance(c, ast.Call) and isinstance(c.func, ast.Name):
                for cal in prog.resolve_call(gv, c):
                    if isinstance(cal.node, ast.AsyncFunctionDef) and cal.cls is None and all(isinstance(x, ast.Name) for x in c.args) and not c.keywords:
                        aws.append(cal)
                        rename = dict(zip([p.arg for p in cal.node.args.args], [x.id for x in c.args]))
    shapes.require(len(aws) == 1, "C08.R6: the awaiting coroutine of gather_values not found")
    aw = aws[0]
    # names bound once to another list by a (tuple) assignment in gather_values stand for that list
    same = {}
    for n in own_nodes(gv.node):
        if isinstance(n, ast.Assign) and len(n.targets) == 1:
            t, v = n.targets[0], n.value
            pairs = list(zip(t.elts, v.elts)) if isinstance(t, ast.Tuple) and isinstance(v, ast.Tuple) and len(t.elts) == len(v.elts) else [(t, v)]
            for tt, vv in pairs:
                if isinstance(tt, ast.Name) and isinstance(vv, ast.Name):
                    same[tt.id] = vv.id

    def origin(nm):
        nm = rename.get(nm, nm)
        for _ in range(4):
            if nm in same:
                nm = same[nm]
        return nm
    roles = None
    for n in own_nodes(aw.node):
        if isinstance(n, ast.For) and isinstance(n.iter, ast.Call) and ast.unparse(n.iter.func) == "zip" and len(n.iter.args) == 2 \
                and isinstance(n.target, ast.Tuple) and len(n.target.elts) == 2:
            a0, a1 = n.iter.args
            if isinstance(a1, ast.Name):
                # `gathered = await asyncio.gather(*pending)` named before the zip
                defs = [x.value for x in own_nodes(aw.node) if isinstance(x, ast.Assign) and len(x.targets) == 1 and isinstance(x.targets[0], ast.Name) and x.targets[0].id == a1.id]
                if len(defs) == 1:
                    a1 = defs[0]
            stars = [x.value for x in ast.walk(a1) if isinstance(x, ast.Starred)]
            gathered = any(isinstance(x, ast.Call) and ast.unparse(x.func).endswith("gather") for x in ast.walk(a1)) and \
                any(isinstance(x, ast.Await) for x in ast.walk(a1))
            i, v = [ast.unparse(e) for e in n.target.elts]
            for s2 in n.body:
                if isinstance(s2, ast.Assign) and isinstance(s2.targets[0], ast.Subscript) and ast.unparse(s2.targets[0].slice) == i \
                        and ast.unparse(s2.value) == v and isinstance(a0, ast.Name) and len(stars) == 1 and isinstance(stars[0], ast.Name) and gathered \
                        and isinstance(s2.targets[0].value, ast.Name):
                    roles = {"index": origin(a0.id), "awaitables": origin(stars[0].id), "result": origin(s2.targets[0].value.id)}
    r.instance("gather_values roles %s" % roles)
    if roles is None:
        run.report(r, "%s:AsyncIORuntime.gather_values:patch" % AIO, aw.where(), "awaited results are not written back through zip(index list, await gather(*awaitables))")
    else:
        by_list = {v: k for k, v in roles.items()}
        idx_var = loop[0].target.elts[0].id if isinstance(loop[0].target, ast.Tuple) and isinstance(loop[0].target.elts[0], ast.Name) \
            and isinstance(loop[0].iter, ast.Call) and ast.unparse(loop[0].iter.func) == "enumerate" else None
        counter = None
        if idx_var is None:
            # a hand-written position counter: 0 before the loop, `+= 1` as the last statement of every iteration
            last = loop[0].body[-1] if loop[0].body else None
            if isinstance(last, ast.AugAssign) and isinstance(last.op, ast.Add) and isinstance(last.target, ast.Name) \
                    and isinstance(last.value, ast.Constant) and last.value.value == 1:
                nm = last.target.id
                inits = [x for x in gv.node.body if isinstance(x, ast.Assign) and len(x.targets) == 1 and isinstance(x.targets[0], ast.Name) and x.targets[0].id == nm]
                others = [x for x in ast.walk(loop[0]) if isinstance(x, ast.Name) and x.id == nm and isinstance(x.ctx, ast.Store) and x is not last.target]
                if len(inits) == 1 and isinstance(inits[0].value, ast.Constant) and inits[0].value.value == 0 and not others \
                        and not any(isinstance(x, (ast.Continue, ast.Break)) for x in ast.walk(loop[0])):
                    idx_var = counter = nm

        def gev(x):
            if isinstance(x, ast.Call):
                ft = vcn.func_text(x)
                if ft.endswith(".append") and ft[:-len(".append")] in by_list:
                    arg = x.args[0] if x.args else None
                    is_index = isinstance(arg, ast.Name) and arg.id == idx_var
                    return "%s(%s)" % (by_list[ft[:-len(".append")]], "index" if is_index else "value")
            return None
        normal, _ = event_paths(None, gev, body=loop[0].body, may_raise=lambda n: None)
        for seq in sorted(normal):
            r.instance("gather_values iteration %s" % list(seq))
            s_ = sorted(seq)
            if s_ not in (["result(value)"], ["awaitables(value)", "index(index)", "result(value)"]):
                run.report(r, "%s:AsyncIORuntime.gather_values:iteration(%s)" % (AIO, ">".join(seq)), gv.where(loop[0]),
                           "an iteration performs %s: awaitables, their indices and the result slots get out of step" % list(seq))


def check_no_blocking_wait(prog, run, rule_id):
    """The thread-pool runtime never parks a thread on a future."""
    r = run.rule(rule_id, "execution/runtime/threadpool.py: every `.result()` / `.exception()` read of a future happens inside a done-callback "
                          "(a function handed to add_done_callback, or a helper called only from such functions), where the future has "
                          "settled: no pool thread (and not the caller) ever blocks waiting for another task, so a resolver that returns "
                          "a future of the same pool cannot starve it - execution completes once all resolvers have completed, whatever "
                          "the pool size", 4)
    mod = prog.module(TP)
    fns = [f for f in prog.all_funcs() if f.module is mod]
    by_node = {}
    for f in fns:
        by_node[id(f.node)] = f
    # functions registered as done-callbacks (by name, at any nesting level)
    registered = set()
    for f in fns:
        for n in own_nodes(f.node):
            if isinstance(n, ast.Call) and isinstance(n.func, ast.Attribute) and n.func.attr == "add_done_callback" and n.args:
                a = n.args[0]
                if isinstance(a, ast.Name):
                    registered.add(a.id)
                elif isinstance(a, ast.Lambda):
                    registered.add(id(a))
    if not registered:
        raise AnalysisError("C08.%s: no done-callback registration found in the thread-pool runtime" % rule_id)
    # callers of each function name inside the module
    callers = {}
    for f in fns:
        for n in own_nodes(f.node):
            if isinstance(n, ast.Call) and isinstance(n.func, ast.Name):
                callers.setdefault(n.func.id, set()).add(f.name)
    ctx = {f.name for f in fns if f.name in registered}
    changed = True
    while changed:
        changed = False
        for f in fns:
            if f.name not in ctx and callers.get(f.name) and callers[f.name] <= ctx:
                ctx.add(f.name)
                changed = True

    def enclosing_names(f):
        out, cur = [], f
        while cur is not None:
            out.append(cur.name)
            cur = getattr(cur, "parent", None)
        return out
    for f in fns:
        for n in own_nodes(f.node):
            if isinstance(n, ast.Call) and isinstance(n.func, ast.Attribute) and n.func.attr in ("result", "exception") and not n.args and not n.keywords:
                inside = any(nm in ctx for nm in enclosing_names(f))
                # a lambda registered directly
                cur = getattr(n, "_parent", None)
                while cur is not None and not inside:
                    if isinstance(cur, ast.Lambda) and id(cur) in registered:
                        inside = True
                    cur = getattr(cur, "_parent", None)
                r.instance("%s: `%s` %s" % (f.qualname, norm_stmt(n, 50), "in a done-callback" if inside else "NOT in a done-callback"))
                if not inside:
                    run.report(r, "%s:%s:blocking-wait(%s)" % (TP, f.qualname, norm_stmt(n, 50)), f.where(n),
                               "`%s` in %s waits for a future outside any done-callback: a pool thread (or the caller) blocks until another "
                               "task has run; with a saturated pool the task it waits for never starts and the execution never completes"
                               % (norm_stmt(n, 50), f.qualname))


def check_completion_failure(prog, run, rule_id):
    """Both executors treat a ResolverError raised while a field's value is completed the same way."""
    from .. import usercalls
    r = run.rule(rule_id, "Executor.resolve_field and BlockingExecutor.resolve_field: completion runs user code (a type resolver, a custom "
                          "scalar's serializer - vf/usercalls.py) that may raise the library's ResolverError; every call of complete_value "
                          "in either implementation is covered by a handler of that class (an enclosing try, or the else_ of the map_value "
                          "whose `then` makes the call) or in neither - otherwise the same request is a field error under one executor and "
                          "an exception out of the entry point under the other", 2)
    sl = usercalls.slots(prog)
    if "resolve_type" not in sl:
        raise AnalysisError("C08.%s: the user-callable slots of schema/types.py were not found (%s)" % (rule_id, sorted(sl)))
    from ..excflow import ExcUniverse
    u = ExcUniverse(prog)
    verdict = {}
    for mod, q in (("py_gql.execution.executor", "Executor.resolve_field"), ("py_gql.execution.blocking_executor", "BlockingExecutor.resolve_field")):
        f = prog.get_func(mod, q)
        run.looked_at(f)
        then_handled = set()
        for n in own_nodes(f.node):
            if isinstance(n, ast.Call) and isinstance(n.func, ast.Attribute) and n.func.attr == "map_value" and len(n.args) >= 2 and isinstance(n.args[1], ast.Name):
                for k in n.keywords:
                    if k.arg == "else_" and isinstance(k.value, ast.Tuple) and k.value.elts:
                        cls = ast.unparse(k.value.elts[0]).split(".")[-1]
                        if u.is_subclass("ResolverError", cls):
                            then_handled.add(n.args[1].id)
        sites = []
        for g in [f] + list(f.nested.values()):
            for n in own_nodes(g.node):
                if isinstance(n, ast.Call) and isinstance(n.func, ast.Attribute) and n.func.attr == "complete_value":
                    handled = g is not f and g.name in then_handled
                    cur, child = getattr(n, "_parent", None), n
                    while cur is not None and cur is not g.node and not handled:
                        if isinstance(cur, ast.Try) and any(child is st or any(child is x for x in ast.walk(st)) for st in cur.body):
                            for h in cur.handlers:
                                names = [ast.unparse(t).split(".")[-1] for t in (h.type.elts if isinstance(h.type, ast.Tuple) else [h.type])] if h.type is not None else ["BaseException"]
                                if any(u.is_subclass("ResolverError", x) for x in names):
                                    handled = True
                        child, cur = cur, getattr(cur, "_parent", None)
                    sites.append((g, n, handled))
        if not sites:
            raise AnalysisError("C08.%s: %s does not call complete_value" % (rule_id, q))
        verdict[q] = sites
        r.instance("%s: complete_value called at %d site(s), ResolverError handled: %s" % (q, len(sites), [h for _g, _n, h in sites]))
    alls = {q: all(h for _g, _n, h in s) for q, s in verdict.items()}
    anys = {q: any(h for _g, _n, h in s) for q, s in verdict.items()}
    if len(set(alls.values())) > 1 or alls != anys:
        for q, s in verdict.items():
            for g, n, h in s:
                if not h:
                    run.report(r, "%s:%s:completion-failure-unhandled" % (g.module.name, q), g.where(n),
                               "%s completes the value outside any ResolverError handler while the other executor handles that class: a "
                               "ResolverError raised by a type resolver or a scalar serializer escapes the entry point under this executor "
                               "and is a field error under the other" % q)


def check_wrap_callable_transparent(prog, run, rule_id):
    """What a runtime wraps a resolver in forwards the field's arguments untouched."""
    r = run.rule(rule_id, "every Runtime.wrap_callable: the resolver is later called with (root, context, info, **<field arguments>) and the "
                          "argument names belong to the schema author - whatever receives that call binds nothing by name: a nested wrapper "
                          "takes (*args, **kwargs) only, and a functools.partial is taken over a callable outside the package (the "
                          "executor's own `submit(fn, /, ...)`) or over a package function without named parameters; otherwise a field "
                          "argument that happens to be called like the parameter (`func`) fails under this runtime only", 2)
    n = 0
    for c in prog.all_classes():
        if not c.module.name.startswith(RT):
            continue
        m = c.methods.get("wrap_callable")
        if m is None:
            continue
        run.looked_at(m)
        n += 1
        pf = m.params[1] if len(m.params) > 1 else None
        for g in m.nested.values():
            a = g.node.args
            named = [p.arg for p in a.posonlyargs + a.args + a.kwonlyargs]
            forwards = any(isinstance(x, ast.Call) and any(isinstance(y, ast.Name) and y.id == pf for y in ast.walk(x)) for x in ast.walk(g.node))
            if forwards:
                r.instance("%s.wrap_callable: wrapper %s(%s)" % (c.name, g.name, ", ".join(named) or "*args, **kwargs"))
                if named and not (a.posonlyargs and not a.args and not a.kwonlyargs):
                    run.report(r, "%s:%s.wrap_callable:wrapper-binds-names(%s)" % (c.module.name, c.name, ",".join(named)), g.where(),
                               "the wrapper %s takes the named parameter(s) %s: a field argument of that name collides with it" % (g.name, named))
        for x in own_nodes(m.node):
            if isinstance(x, ast.Call) and ast.unparse(x.func) in ("functools.partial", "ft.partial", "partial") and x.args:
                tgt = x.args[0]
                cal = prog.resolve_callable(m, tgt) if isinstance(tgt, (ast.Attribute, ast.Name)) else []
                cal = [k for k in cal if k.name != "__init__"]
                r.instance("%s.wrap_callable: partial over `%s` (%s)" % (c.name, ast.unparse(tgt), ", ".join(k.qualname for k in cal) or "outside the package"))
                for k in cal:
                    a = k.node.args
                    bound = len(x.args) - 1 + (1 if k.cls is not None else 0)       # self + the positional arguments the partial fixes
                    named = [p.arg for p in a.args][bound:] + [p.arg for p in a.kwonlyargs]
                    fixed_by_name = [p.arg for p in a.args][(1 if k.cls is not None else 0):bound]
                    if fixed_by_name or named:
                        run.report(r, "%s:%s.wrap_callable:partial-binds-names(%s)" % (c.module.name, c.name, k.qualname), m.where(x),
                                   "`%s` calls %s with the resolver's arguments, and %s names its parameter(s) %s: a field argument called "
                                   "like one of them is taken for it (`got multiple values for argument`), under this runtime only"
                                   % (" ".join(ast.unparse(x).split()), k.qualname, k.qualname, fixed_by_name + named))
    if n < 3:
        raise AnalysisError("C08.%s: fewer than three runtimes define wrap_callable (%d)" % (rule_id, n))
