"""C09 — top-level mutation fields run serially in document order."""
import ast

from .. import shapes
from ..cfg import event_paths
from ..model import AnalysisError, own_nodes, norm_stmt

EXECUTE = "py_gql.execution.execute"
EXE = "py_gql.execution.executor"
BEXE = "py_gql.execution.blocking_executor"


def strategy_table(f):
    """operation kind constant -> executor attribute bound to the strategy variable, or 'raise'."""
    table = {}
    var = None
    default = None

    def visit(ifnode):
        nonlocal var, default
        t = ifnode.test
        if not (isinstance(t, ast.Compare) and len(t.ops) == 1 and isinstance(t.ops[0], ast.Eq) and ast.unparse(t.left).endswith(".operation")
                and isinstance(t.comparators[0], ast.Constant)):
            return False
        kind = t.comparators[0].value
        body = ifnode.body
        if len(body) == 1 and isinstance(body[0], ast.Assign) and isinstance(body[0].value, ast.Attribute):
            var = ast.unparse(body[0].targets[0])
            table[kind] = body[0].value.attr
        elif len(body) == 1 and isinstance(body[0], ast.Return) and isinstance(body[0].value, ast.Attribute):
            var = "<return>"
            table[kind] = body[0].value.attr
        elif shapes.raises_unconditionally(body):
            table[kind] = "raise"
        else:
            table[kind] = "?"
        if len(ifnode.orelse) == 1 and isinstance(ifnode.orelse[0], ast.If):
            return visit(ifnode.orelse[0])
        default = "raise" if shapes.raises_unconditionally(ifnode.orelse) else ("none" if not ifnode.orelse else "?")
        return True

    for n in f.node.body:
        if isinstance(n, ast.If) and visit(n) and table:
            return table, var, default
        table.clear()
    return None, None, None


_OPKIND = None


def strategy_outcomes(prog, run, ex, kind, _depth=0):
    """Path form of the strategy selection: which executor strategies does ``ex`` (execute(), or a helper it delegates the
    choice to) call / return on the executions where the operation kind is ``kind``?  'raise' = the kind is refused."""
    import re
    from .. import boolx
    pat = re.compile(r"^[\w.]+\.operation == '(\w+)'$")

    def decide(t):
        m = pat.match(t)
        if m:
            return m.group(1) == kind
        return None
    try:
        _ev, exits = boolx.walk_under(ex.node, decide)
    except ValueError as e:
        raise AnalysisError("C09.S1: %s" % e)
    out = set()

    def of_value(v, stmts, atoms, depth=0):
        v = boolx.path_value(stmts, None, v, atoms)
        if isinstance(v, ast.Attribute) and v.attr.startswith("execute_fields"):
            return {v.attr}
        if isinstance(v, ast.Call) and _depth < 2:
            cal = prog.resolve_call(ex, v)
            cal = [c for c in (cal or []) if hasattr(c, "node") and c.cls is None]
            if len(cal) == 1:
                run.looked_at(cal[0])
                return strategy_outcomes(prog, run, cal[0], kind, _depth + 1)
        return set()
    for k, st, env in exits:
        atoms = {a: b for a, b in env.items() if a not in boolx.META}
        stmts = env.get(boolx.STMTS, ())
        if k == "raise":
            out.add("raise")
            continue
        found = set()
        if _depth and k == "return" and st.value is not None:
            found |= of_value(st.value, stmts, atoms)
        for c in env.get(boolx.CALLS, ()):
            if isinstance(c.func, ast.Name):
                found |= of_value(c.func, stmts, atoms)
            elif isinstance(c.func, ast.Attribute) and c.func.attr.startswith("execute_fields") and not _depth:
                found.add(c.func.attr)
        out |= found or {"<none>"}
    return out


def check(prog, run):
    check_guarded_flatten(prog, run, "S10")   # = C08.R13 / C10.K9, every guarded map_value
    check_completion_never_raises_field_error(prog, run, "S9")
    # ---- S1 strategy selection
    r = run.rule("S1", "execute() binds the serial strategy exactly for mutations, the parallel one for queries, refuses every "
                       "other operation kind, and calls the bound strategy", 4)
    ex = prog.get_func(EXECUTE, "execute")
    run.looked_at(ex)
    want = {"query": "execute_fields", "mutation": "execute_fields_serially"}
    for kind in ("query", "mutation", "subscription", "<any other>"):
        got = strategy_outcomes(prog, run, ex, kind)
        r.instance("operation %r -> %s" % (kind, sorted(got)))
        if kind in want:
            if got != {want[kind]}:
                run.report(r, "%s:execute:strategy(%s)" % (EXECUTE, kind), ex.where(),
                           "%s operations are executed with %s (expected %s): %s" % (kind, sorted(got), want[kind],
                           "top-level mutation fields may run concurrently / out of order" if kind == "mutation" else "wrong strategy"))
        elif got != {"raise"}:
            run.report(r, "%s:execute:strategy(%s)" % (EXECUTE, "default" if kind.startswith("<") else kind), ex.where(),
                       "%s operations are not refused (outcomes %s)" % (kind, sorted(got)))

    # ---- S2 continuation chain
    r = run.rule("S2", "Executor.execute_fields_serially: the only resolve_field call sits in a closure that is started once and "
                       "re-entered only from the continuation passed as `then` to map_value over that very call; fields are taken "
                       "from the front of the list; the value is stored under its key before the next field starts; exhaustion "
                       "returns the accumulated mapping", 7)
    cls = prog.get_class(EXE, "Executor")
    f = cls.methods.get("execute_fields_serially")
    shapes.require(f is not None, "C09.S2: Executor.execute_fields_serially not found")
    run.looked_at(f)
    if cls.aliases.get("execute_fields_serially"):
        run.report(r, "%s:Executor.execute_fields_serially:alias" % EXE, f.where(),
                   "the generic executor's serial strategy is an alias of %s (parallel gather)" % cls.aliases["execute_fields_serially"])
        return _s3(prog, run)
    all_fns = [f] + _all_nested(f)
    rcalls = []
    for g in all_fns:
        for n in own_nodes(g.node):
            if isinstance(n, ast.Call) and isinstance(n.func, ast.Attribute) and n.func.attr == "resolve_field":
                rcalls.append((g, n))
    r.instance("resolve_field calls: %d" % len(rcalls))
    if len(rcalls) != 1:
        if len(rcalls) == 0:
            raise AnalysisError("C09.S2: no resolve_field call in execute_fields_serially")
        run.report(r, "%s:Executor.execute_fields_serially:multiple-starts" % EXE, f.where(), "resolve_field is called at %d sites" % len(rcalls))
        return _s3(prog, run)
    g, call = rcalls[0]
    # a local trampoline (`def _resolve_entry(k, f, n): return self.resolve_field(..)`) stands for the call it makes: the step is
    # the function that calls the trampoline
    for _hop in range(2):
        body_ = [st for st in g.node.body if not (isinstance(st, ast.Expr) and isinstance(st.value, ast.Constant))]
        if g is not f and len(body_) == 1 and isinstance(body_[0], ast.Return) and body_[0].value is call:
            sites = [(h, n) for h in all_fns for n in own_nodes(h.node) if isinstance(n, ast.Call) and isinstance(n.func, ast.Name) and n.func.id == g.name]
            if len(sites) == 1:
                g, call = sites[0]
                continue
        break
    if g is f:
        # iterative form: must not be a loop that starts the next field without waiting
        in_loop = _inside_loop(call)
        r.instance("resolve_field in outer body, inside loop: %s" % in_loop)
        run.report(r, "%s:Executor.execute_fields_serially:not-chained" % EXE, f.where(call),
                   "resolve_field is started directly in the method body%s instead of from the previous field's continuation: a "
                   "deferred first field does not delay the second" % (" inside a loop" if in_loop else ""))
        return _s3(prog, run)
    step = g
    r.instance("step closure %s" % step.qualname)
    if _inside_loop(call):
        run.report(r, "%s:Executor.execute_fields_serially:loop" % EXE, step.where(call), "resolve_field is started inside a loop/comprehension")
    # map_value(resolve_field(...), cb)
    from ..canon import Canon
    scn = Canon(f.node)
    conts = []
    mv = None
    for cand in own_nodes(step.node):
        if isinstance(cand, ast.Call) and scn.func_text(cand).endswith(".map_value") and len(cand.args) >= 2:
            first = scn.expr(cand.args[0])
            if isinstance(first, ast.Call) and (getattr(first, "lineno", None), getattr(first, "col_offset", None)) == (call.lineno, call.col_offset):
                mv = cand
                cname = cand.args[1].id if isinstance(cand.args[1], ast.Name) else None
                if cname is not None and cname not in step.nested:
                    # `cb = <nested function>`: the continuation named through a local (a closure factory is analysed inlined)
                    al = [x.value.id for x in own_nodes(step.node) if isinstance(x, ast.Assign) and len(x.targets) == 1 and isinstance(x.targets[0], ast.Name)
                          and x.targets[0].id == cname and isinstance(x.value, ast.Name)]
                    if len(al) == 1:
                        cname = al[0]
                if cname is not None and cname in step.nested:
                    conts.append(step.nested[cname])
    r.instance("continuation attached through map_value: %s" % [c.name for c in conts])
    if not conts:
        run.report(r, "%s:Executor.execute_fields_serially:no-continuation" % EXE, step.where(call),
                   "the resolve_field result is not passed to runtime.map_value with a continuation closure: the next field is "
                   "not sequenced after this one's completion")
        return _s3(prog, run)
    cb = conts[0]
    # who calls step?
    callers = []
    for h in all_fns:
        for n in own_nodes(h.node):
            if isinstance(n, ast.Call) and isinstance(n.func, ast.Name) and n.func.id == step.name:
                callers.append((h, n))
    names = sorted({h.name for h, _ in callers})
    r.instance("step is invoked from %s" % names)
    for h, n in callers:
        if h is f:
            if _inside_loop(n):
                run.report(r, "%s:Executor.execute_fields_serially:started-in-loop" % EXE, f.where(n), "the chain is started inside a loop (one chain per field)")
        elif h is cb:
            pass
        else:
            run.report(r, "%s:Executor.execute_fields_serially:extra-entry(%s)" % (EXE, h.name), h.where(n), "the step closure is also entered from %s" % h.name)
    n_outer = sum(1 for h, _ in callers if h is f)
    if n_outer != 1:
        run.report(r, "%s:Executor.execute_fields_serially:starts(%d)" % (EXE, n_outer), f.where(), "the chain is started %d times from the method body" % n_outer)
    if not any(h is cb for h, _ in callers):
        run.report(r, "%s:Executor.execute_fields_serially:chain-broken" % EXE, cb.where(), "the continuation does not start the next field: only the first top-level field runs")
    # store before next
    def cev(n):
        if isinstance(n, ast.Assign) and isinstance(n.targets[0], ast.Subscript) and ast.unparse(n.targets[0].slice) in step_key_names(step):
            return "store"
        if isinstance(n, ast.Call) and isinstance(n.func, ast.Name) and n.func.id == step.name:
            return "next"
        return None
    normal, _ = event_paths(cb.node, cev, may_raise=lambda n: None)
    for seq in sorted(normal):
        r.instance("continuation path %s" % list(seq))
        if list(seq) != ["store", "next"]:
            run.report(r, "%s:Executor.execute_fields_serially:continuation(%s)" % (EXE, ">".join(seq)), cb.where(),
                       "the continuation has a path %s (expected: store the value under its key, then start the next field)" % list(seq))
    # front of list
    pops = [n for n in own_nodes(step.node) if isinstance(n, ast.Call) and isinstance(n.func, ast.Attribute) and n.func.attr == "pop"]
    r.instance("dequeue `%s`" % (ast.unparse(pops[0]) if pops else None))
    if len(pops) != 1:
        raise AnalysisError("C09.S2: unrecognised dequeue idiom in %s" % step.qualname)
    if not (pops[0].args and isinstance(pops[0].args[0], ast.Constant) and pops[0].args[0].value == 0):
        run.report(r, "%s:Executor.execute_fields_serially:dequeue" % EXE, step.where(pops[0]), "fields are taken with `%s`, not from the front: document order is not kept" % ast.unparse(pops[0]))
    q = ast.unparse(pops[0].func.value)
    qdef = [n for n in own_nodes(f.node) if isinstance(n, ast.Assign) and ast.unparse(n.targets[0]) == q]
    r.instance("queue `%s`" % (norm_stmt(qdef[0]) if qdef else None))
    qtxt = scn.text(qdef[0].value) if qdef else ""     # canonical: a named intermediate step is seen through
    if len(qdef) != 1 or "_iterate_fields" not in qtxt or any(w in qtxt for w in ("sorted", "reversed", "set(", "[::-1]")):
        run.report(r, "%s:Executor.execute_fields_serially:queue" % EXE, f.where(), "the queue is not list(self._iterate_fields(...)) in iteration order")
    # exhaustion returns the mapping that the continuation stores into
    stores = [n for n in own_nodes(cb.node) if isinstance(n, ast.Assign) and isinstance(n.targets[0], ast.Subscript)]
    acc = ast.unparse(stores[0].targets[0].value) if stores else None
    rets = [n for n in own_nodes(step.node) if isinstance(n, ast.Return) and isinstance(n.value, ast.Name)]
    r.instance("accumulator %s returned on exhaustion: %s" % (acc, [ast.unparse(x.value) for x in rets]))
    if acc is None or not any(ast.unparse(x.value) == acc for x in rets):
        run.report(r, "%s:Executor.execute_fields_serially:result" % EXE, step.where(), "exhaustion does not return the accumulated mapping")
    adef = [n for n in own_nodes(f.node) if isinstance(n, ast.Assign) and ast.unparse(n.targets[0]) == acc]
    if acc and (not adef or "OrderedDict" not in ast.unparse(adef[0].value) and ast.unparse(adef[0].value) not in ("{}", "dict()")):
        run.report(r, "%s:Executor.execute_fields_serially:accumulator" % EXE, f.where(), "the accumulator is not an insertion-ordered mapping")
    _s3(prog, run)
    _s4(prog, run)
    check_deferred_conservation(prog, run, "S5")
    # S6: a failing top-level field must not stop the chain: every runtime routes ResolverError (and its subclasses) to else_
    from . import c08
    c08.check_map_value_contract(prog, run, "S6")
    # S7: the ordered map of collected root fields defines document order for the serial chain (shared with C04.K5)
    from . import c04
    c04.check_seen_scope(prog, run, "S7")
    # a still-pending value taken for a finished one lets the next top-level field start early (shared with C08.R12)
    c08.check_deferred_predicate(prog, run, "S8")


def _s4(prog, run):
    r = run.rule("S4", "Executor.resolve_field hands back the field's value fully unwrapped (runtime.unwrap_value around the "
                       "map_value over the resolver result), so the continuation of the serial chain fires only after the field's "
                       "whole sub-selection completed", 1)
    f = prog.get_func(EXE, "Executor.resolve_field")
    run.looked_at(f)
    from ..canon import Canon, calls
    cn = Canon(f.node)
    rets = []
    for n in own_nodes(f.node):
        if isinstance(n, ast.Return) and n.value is not None:
            v = cn.expr(n.value)
            if isinstance(v, ast.Call) and any(" ".join(ast.unparse(x.func).split()).startswith("self.field_resolver(") for x in calls(v)):
                rets.append((n, v))
    if len(rets) != 1:
        raise AnalysisError("C09.S4: resolver return site not found in Executor.resolve_field")
    ret, v = rets[0]
    outer = ast.unparse(v.func)
    r.instance("resolve_field returns `%s(...)`" % outer)
    inner_ok = outer.endswith(".unwrap_value") and v.args and isinstance(v.args[0], ast.Call) and ast.unparse(v.args[0].func).endswith(".map_value")
    if not inner_ok:
        run.report(r, "%s:Executor.resolve_field:not-unwrapped" % EXE, f.where(ret),
                   "resolve_field returns `%s(...)`: the completed value (which wraps the pending sub-selection) is not unwrapped, so "
                   "in the serial strategy the next top-level field starts while the previous field's sub-fields are still running" % outer)


def step_key_names(step):
    """Names unpacked from the dequeued entry (k, f, n = args.pop(0)) — first is the key."""
    for n in own_nodes(step.node):
        if isinstance(n, ast.Assign) and isinstance(n.targets[0], ast.Tuple) and isinstance(n.value, ast.Call) \
                and isinstance(n.value.func, ast.Attribute) and n.value.func.attr == "pop":
            return {n.targets[0].elts[0].id}
    return set()


def _all_nested(f):
    out = []
    for n in f.nested.values():
        out.append(n)
        out.extend(_all_nested(n))
    return out


def _inside_loop(node):
    cur = node
    while getattr(cur, "_parent", None) is not None:
        par = cur._parent
        if isinstance(par, (ast.For, ast.While, ast.ListComp, ast.GeneratorExp, ast.SetComp, ast.DictComp)):
            return True
        if isinstance(par, (ast.FunctionDef, ast.AsyncFunctionDef, ast.Lambda)):
            return False
        cur = par
    return False


def _s3(prog, run):
    r = run.rule("S3", "BlockingExecutor's serial strategy is a plain in-order loop: each field is resolved to completion before "
                       "the next and stored in an insertion-ordered mapping under its key", 3)
    bx = prog.get_class(BEXE, "BlockingExecutor")
    name = bx.aliases.get("execute_fields_serially", "execute_fields_serially")
    m = bx.methods.get(name) or bx.find_method("execute_fields_serially")
    r.instance("BlockingExecutor.execute_fields_serially resolves to %s" % m.qualname)
    if m.cls is not bx:
        # inherits the generic chain: fine (checked by S2)
        return
    run.looked_at(m)
    loops = [n for n in own_nodes(m.node) if isinstance(n, ast.For)]
    if len(loops) != 1:
        raise AnalysisError("C09.S3: unrecognised shape of %s" % m.qualname)
    lp = loops[0]
    from ..canon import Canon as _Canon
    it = _Canon(m.node).text(lp.iter)       # `entries = self._iterate_fields(...)` named first is the same iteration
    r.instance("loop `%s`" % norm_stmt(lp))
    if "_iterate_fields" not in it or any(w in it for w in ("sorted", "reversed", "set(", "[::-1]")):
        run.report(r, "%s:%s:iteration" % (BEXE, m.qualname), m.where(lp), "fields are not iterated in collection order: `%s`" % it)
    key = lp.target.elts[0].id if isinstance(lp.target, ast.Tuple) else None
    from ..canon import Canon
    mcn = Canon(m.node)
    stores = [n for n in ast.walk(lp) if isinstance(n, ast.Assign) and isinstance(n.targets[0], ast.Subscript) and ast.unparse(n.targets[0].slice) == key
              and isinstance(mcn.expr(n.value), ast.Call) and mcn.func_text(mcn.expr(n.value)) == "self.resolve_field"]
    r.instance("store `%s`" % (norm_stmt(stores[0]) if stores else None))
    if len(stores) != 1:
        run.report(r, "%s:%s:store" % (BEXE, m.qualname), m.where(lp), "the loop does not store resolve_field(...) under the response key")
    else:
        acc = ast.unparse(stores[0].targets[0].value)
        adef = [n for n in own_nodes(m.node) if isinstance(n, ast.Assign) and ast.unparse(n.targets[0]) == acc]
        if not adef or "OrderedDict" not in ast.unparse(adef[0].value) and ast.unparse(adef[0].value) not in ("{}", "dict()"):
            run.report(r, "%s:%s:accumulator" % (BEXE, m.qualname), m.where(), "the result mapping is not insertion-ordered")


def check_deferred_conservation(prog, run, rule_id):
    """Every collection of possibly deferred values built by the generic Executor leaves through a runtime combinator."""
    from .. import boolx
    r = run.rule(rule_id, "the generic Executor never returns a plain container of possibly deferred values: every return of "
                          "complete_list_value is runtime.gather_values(...) over the per-item complete_value results, every return "
                          "of complete_non_nullable_value is runtime.map_value(...), and execute_fields returns through "
                          "gather_values — otherwise the enclosing field looks finished to unwrap_value while its items are still "
                          "pending (the serial chain starts the next mutation field early; the deferred runtimes put futures or "
                          "coroutines into the data)", 3)
    ex = prog.get_class(EXE, "Executor")
    for mname, need in (("complete_list_value", "gather_values"), ("complete_non_nullable_value", "map_value"), ("execute_fields", "gather_values")):
        m = ex.methods.get(mname)
        if m is None:
            raise AnalysisError("%s: Executor.%s not found" % (rule_id, mname))
        run.looked_at(m)
        try:
            _ev, exits = boolx.walk_under(m.node, lambda t: None)
        except ValueError as e:
            raise AnalysisError("%s: %s" % (rule_id, e))
        rets = [(st, env) for k, st, env in exits if k == "return"]
        r.instance("Executor.%s: %d return paths" % (mname, len(rets)))
        if not rets:
            raise AnalysisError("%s: Executor.%s has no return path" % (rule_id, mname))
        from ..canon import Canon
        cn = Canon(m.node)
        for st, env in rets:
            fts = [cn.func_text(c) for c in env.get(boolx.CALLS, ())]
            names = [t.rsplit(".", 1)[-1] for t in fts if ".runtime." in t]
            v = st.value
            if isinstance(v, ast.Name):
                v = boolx.path_value(env.get(boolx.STMTS, ()), st, v, {})
            direct = isinstance(v, ast.Call) and ".runtime." in cn.func_text(v)
            if need not in names or not direct:
                cond = ", ".join("%s=%s" % kv for kv in sorted(env.items()) if kv[0] not in boolx.META)
                run.report(r, "%s:Executor.%s:returns-ungathered" % (EXE, mname), m.where(st),
                           "Executor.%s can return `%s` without going through runtime.%s (when %s): deferred items inside it are "
                           "not waited for" % (mname, norm_stmt(st, 70), need, cond or "always"))
                break


def check_guarded_flatten(prog, run, rule_id):
    """The else_ guard of resolve_field covers the resolver's result at every nesting depth."""
    r = run.rule(rule_id, "Executor.resolve_field: the map_value call that carries else_=(ResolverError, fail) receives the resolver's "
                          "result already flattened by runtime.unwrap_value (directly, or through a local bound to it): a ResolverError "
                          "raised by an awaitable/future nested inside the resolver's result then still reaches `fail` (null field + "
                          "one error) instead of escaping the whole request under the deferred runtimes", 1)
    f = prog.get_func(EXE, "Executor.resolve_field")
    run.looked_at(f)
    from ..canon import Canon, calls, attr_call
    cn = Canon(f.node)
    guarded = [n for n in own_nodes(f.node) if isinstance(n, ast.Call) and cn.func_text(n).endswith(".map_value")
               and any(k.arg == "else_" for k in n.keywords)]
    if not guarded:
        raise AnalysisError("%s: no else_-guarded map_value in Executor.resolve_field" % rule_id)
    # every guarded map_value (a fast path adds a second one), each on the path value of its first argument
    from .. import boolx as _bxg
    try:
        _evg, gexits = _bxg.walk_under(f.node, lambda t: None)
    except ValueError as e:
        raise AnalysisError("%s: %s" % (rule_id, e))
    seen_calls = {}
    for kind, st, env in gexits:
        for c in env.get(_bxg.CALLS, ()):
            if any(c is g for g in guarded) and id(c) not in seen_calls:
                holder = c
                while holder is not None and not isinstance(holder, ast.stmt):
                    holder = getattr(holder, "_parent", None)
                seen_calls[id(c)] = (c, _bxg.path_subst(c.args[0], _bxg.path_env(env.get(_bxg.STMTS, ()), holder)) if c.args else None)
    for g in guarded:
        c, arg = seen_calls.get(id(g), (g, cn.expr(g.args[0]) if g.args else None))
        flattened = arg is not None and attr_call(arg, "unwrap_value") and any(
            " ".join(ast.unparse(x.func).split()).startswith("self.field_resolver(") or isinstance(x.func, ast.Name) for x in calls(arg) if x is not arg)
        # the value the field hands back is flattened as well: the guarded call sits inside a runtime.unwrap_value(...)
        # by path value: every execution that returns the guarded call's result returns `<runtime>.unwrap_value(<that call>)`,
        # whatever locals and aliased bound methods the steps are named with
        import re as _re
        outer, seen_ret = True, False
        gline = (g.lineno, g.col_offset)
        for kind, st, env in gexits:
            if kind != "return" or st.value is None or not any((c.lineno, c.col_offset) == gline for c in env.get(_bxg.CALLS, ())):
                continue
            v = _bxg.path_subst(st.value, _bxg.path_env(env.get(_bxg.STMTS, ()), st))
            txt = " ".join(ast.unparse(v).split())
            if ".map_value(" not in txt:
                continue          # another way out (the failure handler)
            seen_ret = True
            if not _re.match(r"^[\w.]+\.unwrap_value\([\w.]+\.map_value\(", txt):
                outer = False
        outer = outer and seen_ret
        r.instance("guarded map_value receives `%s`; its result is flattened: %s" % (" ".join(ast.unparse(arg).split())[:70] if arg is not None else None, outer))
        if not flattened:
            run.report(r, "%s:Executor.resolve_field:guard-sees-unflattened-result" % EXE, f.where(g),
                       "the else_-guarded map_value receives `%s`, not runtime.unwrap_value(resolver(...)): only the first level of a nested "
                       "awaitable/future is awaited under the guard, so a ResolverError from an inner level is raised out of the request"
                       % (" ".join(ast.unparse(arg).split())[:70] if arg is not None else None))
        elif not outer:
            run.report(r, "%s:Executor.resolve_field:result-not-flattened" % EXE, f.where(g),
                       "a guarded map_value result leaves resolve_field without runtime.unwrap_value around it: when the completed value is "
                       "itself deferred the field's wrapper settles before its sub-selection has - the serial chain starts the next "
                       "top-level field early and gather_values receives an unawaited inner value")


def check_completion_never_raises_field_error(prog, run, rule_id):
    """A field error never leaves the completion of a value as an exception."""
    from .. import usercalls
    from ..excflow import ExcUniverse
    r = run.rule(rule_id, "the completion path of the generic executor (complete_value and what it calls inside the executor, up to the next "
                          "resolve_field, which handles its own failures) never lets the library's ResolverError out as an exception: "
                          "completion *records* field errors (add_error) and keeps going, and aborts the operation with other classes. "
                          "A ResolverError raised while a list is being completed abandons the entries already started - under a "
                          "deferred runtime they keep running while the field's failure handler lets the serial chain start the next "
                          "top-level field. Sites: explicit raises of that class, and calls of user-supplied callables "
                          "(vf/usercalls.py), which may raise it", 3)
    u = ExcUniverse(prog)
    start = prog.get_func(EXE, "Executor.complete_value")
    stop = {"resolve_field"}
    seen, stack = {}, [start]
    while stack:
        f = stack.pop()
        if f.key in seen:
            continue
        seen[f.key] = f
        for c in shapes.calls_in(f.node, own=False):
            for callee in prog.resolve_call(f, c):
                if callee.name not in stop and callee.key not in seen and callee.name != "__init__":
                    stack.append(callee)
    sl = usercalls.slots(prog)
    for f in sorted(seen.values(), key=lambda x: x.qualname):
        run.looked_at(f)
        r.instance("completion path: %s" % f.qualname, nontrivial=False)

        def caught(n, f=f):
            cur, child = getattr(n, "_parent", None), n
            while cur is not None and cur is not f.node:
                if isinstance(cur, ast.Try) and any(child is st for st in cur.body):
                    for h in cur.handlers:
                        names = [ast.unparse(t).split(".")[-1] for t in (h.type.elts if isinstance(h.type, ast.Tuple) else [h.type])] if h.type is not None else ["BaseException"]
                        if any(u.is_subclass("ResolverError", x) for x in names):
                            return True
                child, cur = cur, getattr(cur, "_parent", None)
            return False
        for n in own_nodes(f.node):
            if isinstance(n, ast.Raise) and n.exc is not None:
                e = n.exc.func if isinstance(n.exc, ast.Call) else n.exc
                nm = e.attr if isinstance(e, ast.Attribute) else (e.id if isinstance(e, ast.Name) else None)
                if nm and u.is_exc(nm) and u.is_subclass(nm, "ResolverError") and not caught(n):
                    r.instance("%s: `%s`" % (f.qualname, norm_stmt(n, 60)))
                    run.report(r, "%s:%s:raises-field-error(%s)" % (f.module.name, f.qualname, nm), f.where(n),
                               "%s raises %s during completion: raised while a list is completed it abandons the entries already "
                               "started; the field fails at once and the next top-level mutation field starts while they still run"
                               % (f.qualname, nm))
            if usercalls.is_user_call(prog, f, n, sl) and not caught(n):
                r.instance("%s: user callable `%s`" % (f.qualname, norm_stmt(n, 60)))
                run.report(r, "%s:%s:user-callable(%s)" % (f.module.name, f.qualname, n.func.attr), f.where(n),
                           "%s calls the user-supplied `%s` during completion, unguarded: a ResolverError it raises while a list is "
                           "completed abandons the entries already started (they keep running under the thread pool) and the serial "
                           "chain moves on to the next top-level field" % (f.qualname, ast.unparse(n.func)))
