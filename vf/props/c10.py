"""C10 — every outcome is a well-formed, serialisable response."""
import ast
import re

from .. import shapes, excflow, boolx
from ..model import AnalysisError, own_nodes, norm_stmt

EXC = "py_gql.exc"
GQL = "py_gql._graphql"
WRAP = "py_gql.execution.wrappers"
SCALARS = "py_gql.schema.scalars"
ERROR_KEYS = {"message", "locations", "path", "extensions"}
LOC_KEYS = {"line", "column"}


def _dict_keys(d):
    return [k.value for k in d.keys if isinstance(k, ast.Constant)]


def check(prog, run):
    m = prog.module(EXC)

    # ---- K1 error dictionary keys
    r = run.rule("K1", "every dict literal / key-value table built by a to_dict in exc.py uses only the keys message, "
                       "locations, path, extensions; location dicts have exactly line and column; message is unconditional", 6)
    for c in m.classes.values():
        td = c.methods.get("to_dict")
        if td is None:
            continue
        run.looked_at(td)
        for n in ast.walk(td.node):
            if isinstance(n, ast.Dict) and n.keys and all(isinstance(k, ast.Constant) for k in n.keys):
                keys = _dict_keys(n)
                is_loc = bool(set(keys) & {"line", "col", "column"}) or any(k.startswith("col") or k == "line" for k in keys)
                r.instance("%s.to_dict dict keys %s" % (c.name, keys))
                if is_loc:
                    if set(keys) != LOC_KEYS:
                        run.report(r, "%s:%s.to_dict:location-keys(%s)" % (EXC, c.name, ",".join(sorted(keys))), td.where(n),
                                   "location entries have keys %s; the response format requires exactly line and column" % sorted(keys))
                else:
                    for k in keys:
                        if k not in ERROR_KEYS:
                            run.report(r, "%s:%s.to_dict:error-key(%s)" % (EXC, c.name, k), td.where(n), "error dictionaries may not contain the key %r" % k)
            if isinstance(n, ast.Tuple) and len(n.elts) == 2 and isinstance(n.elts[0], ast.Constant) and isinstance(n.elts[0].value, str) \
                    and isinstance(getattr(n, "_parent", None), ast.Tuple):
                k = n.elts[0].value
                r.instance("%s.to_dict table key %s" % (c.name, k))
                if k not in ERROR_KEYS:
                    run.report(r, "%s:%s.to_dict:error-key(%s)" % (EXC, c.name, k), td.where(n), "error dictionaries may not contain the key %r" % k)
            if isinstance(n, ast.Subscript) and isinstance(n.ctx, ast.Store) and isinstance(n.slice, ast.Constant):
                r.instance("%s.to_dict sets key %s" % (c.name, n.slice.value))
                if n.slice.value not in ERROR_KEYS:
                    run.report(r, "%s:%s.to_dict:error-key(%s)" % (EXC, c.name, n.slice.value), td.where(n), "error dictionaries may not contain the key %r" % n.slice.value)
        # message must survive the emptiness filter
        for n in ast.walk(td.node):
            if isinstance(n, ast.DictComp) and n.generators and n.generators[0].ifs:
                cond = ast.unparse(n.generators[0].ifs[0])
                r.instance("%s.to_dict filters entries with `if %s`" % (c.name, cond))
                if "message" not in cond:
                    run.report(r, "%s:%s.to_dict:message-filtered" % (EXC, c.name), td.where(n),
                               "entries are dropped with `if %s`, including \"message\" when it is empty: an error without a "
                               "message is not a valid response error" % cond)

    # ---- K12 JSON kinds by construction
    r12 = run.rule("K12", "every value a to_dict in exc.py stores in the dictionary it returns is of a JSON kind by construction: a constant, "
                          "str()/int()/float()/bool()/dict()/list()/sorted(), a dict / list display or comprehension, a local, or an attribute "
                          "whose constructor parameter is not declared Mapping / Any / Iterable - a caller-supplied mapping (the extensions "
                          "of ResolverError may be any Mapping) is copied into a plain dict, or json.dumps rejects the response", 8)

    def declared(c, attr, depth=0):
        """annotation text of the constructor parameter that `self.<attr>` is assigned from, in c or its bases"""
        init = c.methods.get("__init__")
        if init is not None:
            for n in own_nodes(init.node):
                if isinstance(n, ast.Assign) and any(ast.unparse(t) == "self.%s" % attr for t in n.targets) and isinstance(n.value, ast.Name):
                    for a in init.node.args.args + init.node.args.kwonlyargs:
                        if a.arg == n.value.id and a.annotation is not None:
                            return ast.unparse(a.annotation)
        for b in getattr(c, "bases", []) if depth < 4 else []:
            bc = m.classes.get(b) if isinstance(b, str) else b
            if bc is not None and bc is not c:
                d = declared(bc, attr, depth + 1)
                if d is not None:
                    return d
        return None

    def json_kind(c, e):
        """None when e is of a JSON kind by construction, else the reason it is not"""
        if isinstance(e, (ast.Constant, ast.Name, ast.Dict, ast.List, ast.ListComp, ast.DictComp, ast.JoinedStr, ast.Tuple)):
            return None
        if isinstance(e, ast.BinOp) and isinstance(e.op, (ast.Mod, ast.Add)):
            return None
        if isinstance(e, ast.IfExp):
            return json_kind(c, e.body) or json_kind(c, e.orelse)
        if isinstance(e, ast.BoolOp):
            return next((x for x in (json_kind(c, v) for v in e.values) if x), None)
        if isinstance(e, ast.Call):
            fn = ast.unparse(e.func)
            if fn in ("str", "int", "float", "bool", "dict", "list", "sorted", "len", "repr") or fn.endswith(".to_dict") or fn.endswith(".format") \
                    or fn.endswith(".join") or fn in ("stringify_path",):
                return None
            return "the result of `%s(...)`" % fn
        if isinstance(e, ast.Attribute) and isinstance(e.value, ast.Name) and e.value.id == "self":
            d = declared(c, e.attr)
            if d is None:
                return None
            if re.search(r"\b(Mapping|MutableMapping|Any|Iterable|Iterator|Set|FrozenSet)\b", d.split("[")[0] if not d.startswith("Optional[") else d[len("Optional["):].split("[")[0]):
                return "`self.%s`, declared %s" % (e.attr, d)
            return None
        return None
    for c in m.classes.values():
        td = c.methods.get("to_dict")
        if td is None:
            continue
        stored = []
        for n in ast.walk(td.node):
            if isinstance(n, ast.Dict):
                stored.extend(v for v in n.values if v is not None)
            elif isinstance(n, ast.Tuple) and len(n.elts) == 2 and isinstance(n.elts[0], ast.Constant) and isinstance(n.elts[0].value, str) \
                    and isinstance(getattr(n, "_parent", None), ast.Tuple):
                stored.append(n.elts[1])
            elif isinstance(n, ast.Assign) and any(isinstance(t, ast.Subscript) for t in n.targets):
                stored.append(n.value)
        for v in stored:
            why = json_kind(c, v)
            r12.instance("%s.to_dict stores `%s`: %s" % (c.name, " ".join(ast.unparse(v).split())[:60], "JSON kind" if why is None else why))
            if why is not None:
                run.report(r12, "%s:%s.to_dict:not-json(%s)" % (EXC, c.name, " ".join(ast.unparse(v).split())[:40]), td.where(v),
                           "%s.to_dict puts %s into the response as it is: an arbitrary mapping (MappingProxyType, a custom Mapping) is "
                           "not serialisable by json.dumps, so the response is not strict JSON" % (c.name, why))

    # ---- K5 locations derived through index_to_loc(node.source, node.loc[0])
    r = run.rule("K5", "located errors derive (line, column) through index_to_loc(node.source, node.loc[0]) only for nodes that "
                       "have both; syntax errors through index_to_loc(self.source, self.position)", 2)
    for cname in ("GraphQLLocatedError", "GraphQLSyntaxError"):
        c = m.classes.get(cname)
        shapes.require(c is not None and "to_dict" in c.methods, "C10.K5: %s.to_dict not found" % cname)
        td = c.methods["to_dict"]
        calls = [n for n in ast.walk(td.node) if isinstance(n, ast.Call) and isinstance(n.func, ast.Name) and n.func.id == "index_to_loc"]
        r.instance("%s.to_dict index_to_loc%s" % (cname, [tuple(ast.unparse(a) for a in x.args) for x in calls]))
        base = None
        ok = len(calls) == 1 and len(calls[0].args) == 2
        if ok:
            a0, a1 = calls[0].args
            if cname == "GraphQLSyntaxError":
                ok = ast.unparse(a0) == "self.source" and ast.unparse(a1) == "self.position"
            else:
                # index_to_loc(<v>.source, <v>.loc[0]) for one and the same node variable v (whatever it is called)
                ok = isinstance(a0, ast.Attribute) and a0.attr == "source" and isinstance(a0.value, ast.Name) \
                    and isinstance(a1, ast.Subscript) and isinstance(a1.value, ast.Attribute) and a1.value.attr == "loc" \
                    and isinstance(a1.value.value, ast.Name) and a1.value.value.id == a0.value.id \
                    and isinstance(a1.slice, ast.Constant) and a1.slice.value == 0
                base = a0.value.id if ok else None
        if not ok:
            run.report(r, "%s:%s.to_dict:location-source" % (EXC, cname), td.where(),
                       "locations are not index_to_loc(%s)" % ("self.source, self.position" if cname == "GraphQLSyntaxError" else "node.source, node.loc[0]"))
        if cname == "GraphQLLocatedError" and base is not None:
            # everything that guards the call: filter clauses of the comprehensions it sits in, tests of the enclosing ifs
            guards = []
            cur, child = getattr(calls[0], "_parent", None), calls[0]
            while cur is not None and cur is not td.node:
                if isinstance(cur, (ast.GeneratorExp, ast.ListComp, ast.SetComp)):
                    for g in cur.generators:
                        guards.extend(g.ifs)
                elif isinstance(cur, ast.If) and any(child is b for b in cur.body):
                    guards.append(cur.test)
                child, cur = cur, getattr(cur, "_parent", None)
            conj = set()
            for g in guards:
                for term, pos in shapes.signed_subterms(g, lambda n: isinstance(n, ast.Attribute) and isinstance(n.value, ast.Name) and n.value.id == base
                                                        and n.attr in ("loc", "source")):
                    if pos:
                        conj.add(term.attr)
            r.instance("node guard %s" % sorted(conj))
            if conj != {"loc", "source"}:
                run.report(r, "%s:GraphQLLocatedError.to_dict:unguarded" % EXC, td.where(), "nodes without loc/source are not filtered before index_to_loc")

    # ---- K2 abort call sites
    r = run.rule("K2", "process_graphql_query: aborts for syntax/validation failures pass no data (omitted in the response); "
                       "aborts in the handlers of the execute() call pass data=None", 4)
    pq = prog.get_func(GQL, "process_graphql_query")
    run.looked_at(pq)
    n_abort = 0
    for n in own_nodes(pq.node):
        if isinstance(n, ast.Call) and isinstance(n.func, ast.Name) and n.func.id == "_abort":
            n_abort += 1
            h = None
            cur = n
            while getattr(cur, "_parent", None) is not None:
                if isinstance(cur._parent, ast.ExceptHandler):
                    h = cur._parent
                    break
                cur = cur._parent
            in_exec = h is not None and any(isinstance(x, ast.Call) and isinstance(x.func, ast.Name) and x.func.id == "execute"
                                             for b in h._parent.body for x in ast.walk(b))
            data_kw = [k for k in n.keywords if k.arg == "data"]
            has_data = bool(data_kw) or bool(n.args)
            r.instance("_abort(%s) in %s" % (", ".join(k.arg for k in n.keywords), "execute handler" if in_exec else "pre-execution stage"))
            if in_exec:
                if not (data_kw and isinstance(data_kw[0].value, ast.Constant) and data_kw[0].value.value is None):
                    run.report(r, "%s:process_graphql_query:abort-execution(%s)" % (GQL, ast.unparse(h.type)), pq.where(n),
                               "the abort for %s does not pass data=None: the response lacks the data entry required once execution began" % ast.unparse(h.type))
            elif has_data:
                run.report(r, "%s:process_graphql_query:abort-pre-execution" % GQL, pq.where(n), "a parse/validation abort includes a data entry")
            ekw = [k for k in n.keywords if k.arg == "errors"]
            if not ekw:
                run.report(r, "%s:process_graphql_query:abort-without-errors" % GQL, pq.where(n), "an abort passes no errors")
    shapes.require(n_abort >= 4, "C10.K2: fewer than 4 _abort call sites")
    gr = prog.get_class(WRAP, "GraphQLResult")
    resp = gr.methods.get("response")
    shapes.require(resp is not None, "C10.K2: GraphQLResult.response not found")
    from .. import boolx

    def data_written(unset):
        try:
            _ev, exits = boolx.walk_under(resp.node, lambda t: unset if t.replace(" ", "") in ("self.datais_UNSET", "self.data==_UNSET") else None)
        except ValueError as e:
            raise AnalysisError("C10.K2: %s" % e)
        out = set()
        for _k, _st, env in exits:
            out.add(any(isinstance(x, ast.Assign) and isinstance(x.targets[0], ast.Subscript) and isinstance(x.targets[0].slice, ast.Constant)
                        and x.targets[0].slice.value == "data" for x in env.get(boolx.STMTS, ())))
        return out
    w_unset, w_set = data_written(True), data_written(False)
    r.instance("response(): data key written when unset: %s, when set: %s" % (sorted(w_unset), sorted(w_set)))
    if w_unset != {False} or w_set != {True}:
        run.report(r, "%s:GraphQLResult.response:data-always" % WRAP, resp.where(),
                   "response() writes the data key %s when the result was built without data and %s when it has data (expected never / always)"
                   % ("on some path" if True in w_unset else "never", "always" if w_set == {True} else "not always"))
    init = gr.methods["__init__"]
    d = init.node.args.defaults
    r.instance("GraphQLResult data default `%s`" % (ast.unparse(d[0]) if d else None))
    if not d or ast.unparse(d[0]) != "_UNSET":
        run.report(r, "%s:GraphQLResult.__init__:data-default" % WRAP, init.where(), "data no longer defaults to the unset marker")

    # ---- K3 stage errors contained
    r = run.rule("K3", "every exception class explicitly raised by the stage functions called inside process_graphql_query's "
                       "try (execute, get_operation_with_type, coerce_variable_values) is caught by one of its handlers", 4)
    u = excflow.ExcUniverse(prog)
    handlers = set()
    for n in own_nodes(pq.node):
        if isinstance(n, ast.Try) and any(isinstance(x, ast.Call) and isinstance(x.func, ast.Name) and x.func.id == "execute" for b in n.body for x in ast.walk(b)):
            for h in n.handlers:
                ts = h.type.elts if isinstance(h.type, ast.Tuple) else [h.type]
                handlers.update(ast.unparse(t) for t in ts)
    shapes.require(handlers, "C10.K3: try around execute() not found")
    ex = prog.get_func("py_gql.execution.execute", "execute")
    stage = [ex]
    for n in own_nodes(ex.node):
        if isinstance(n, ast.Call) and isinstance(n.func, ast.Name) and n.func.id in ("get_operation_with_type", "coerce_variable_values"):
            stage.extend(prog.resolve_call(ex, n))
    for f in stage:
        run.looked_at(f)
        for n in own_nodes(f.node):
            if isinstance(n, ast.Raise) and n.exc is not None:
                e = n.exc.func if isinstance(n.exc, ast.Call) else n.exc
                name = e.attr if isinstance(e, ast.Attribute) else (e.id if isinstance(e, ast.Name) else None)
                if name is None or not u.is_exc(name):
                    continue
                caught = any(u.is_subclass(name, h) for h in handlers)
                r.instance("%s raises %s; handled: %s" % (f.qualname, name, caught))
                if not caught and _defensive_default(n):
                    # exemption (one construct, reason): the final `else` of the operation-kind chain that already
                    # covers query/mutation/subscription is unreachable for parser-produced documents
                    r.instance("%s: defensive default `%s` exempt" % (f.qualname, norm_stmt(n, 60)))
                    continue
                if not caught:
                    run.report(r, "%s:%s:uncontained(%s:%s)" % (f.module.name, f.qualname, name, norm_stmt(n, 70)), f.where(n),
                               "%s raised by %s is not handled by process_graphql_query (%s): the request raises instead of "
                               "returning an error response" % (name, f.qualname, sorted(handlers)))

    # interprocedural form: library errors (GraphQLError family) that can leave execute() through resolved calls
    UNREACHABLE_AFTER_VALIDATION = {
        "UnknownType": "raised by Schema.get_type / get_type_from_literal for a type name the schema lacks: process_graphql_query validates first "
                       "and KnownTypeNames / FragmentsOnCompositeTypes reject such documents",
    }
    mr3 = excflow.MayRaise(prog)
    res = mr3.of(ex)
    for exc, wit in sorted(res.items()):
        if exc not in mr3.u.repo:
            continue            # builtin exceptions here are defensive programming errors (TypeError for impossible kinds, ...), see DESIGN
        caught = any(u.is_subclass(exc, h) for h in handlers)
        r.instance("execute() may raise %s through resolved calls; handled: %s" % (exc, caught))
        if caught:
            continue
        if exc in UNREACHABLE_AFTER_VALIDATION:
            r.instance("%s exempt: %s" % (exc, UNREACHABLE_AFTER_VALIDATION[exc][:60]))
            continue
        origin = wit[-1] if wit else "?"
        via = [w.split(" calls ")[-1] for w in wit if " calls " in w]
        run.report(r, "%s:execute:escapes(%s)" % ("py_gql.execution.execute", exc), ex.where(),
                   "%s can leave execute() (raised at %s, reached through %s) and none of process_graphql_query's handlers (%s) catches it: "
                   "the request raises instead of returning an error response" % (exc, origin, " -> ".join(via[-4:]) or "execute", sorted(handlers)))

    # ---- K6 one error object per failure
    r = run.rule("K6", "every `raise <name>` in execution/** and the coercion utilities raises an object created for this failure "
                       "(handler-bound, or built in the same call): add_error stores the raised object and rewrites its path, so "
                       "re-raising an object kept in instance/module state makes several response errors share one path", 5)
    for mname, mod in prog.modules.items():
        if not (mname.startswith("py_gql.execution") or mname in ("py_gql.utilities.coerce_value", "py_gql.utilities.value_from_ast")):
            continue
        for f in [x for x in prog.all_funcs() if x.module is mod]:
            for n in own_nodes(f.node):
                if isinstance(n, ast.Raise) and not isinstance(n.exc, ast.Name):
                    r.instance("%s: `%s` (%s)" % (f.qualname, norm_stmt(n, 50), "fresh object" if isinstance(n.exc, ast.Call) else "re-raise" if n.exc is None else "expression"))
                if not (isinstance(n, ast.Raise) and isinstance(n.exc, ast.Name)):
                    continue
                name = n.exc.id
                # handler-bound?
                cur, bound = n, False
                while getattr(cur, "_parent", None) is not None:
                    cur = cur._parent
                    if isinstance(cur, ast.ExceptHandler) and cur.name == name:
                        bound = True
                r.instance("%s: `raise %s` handler-bound=%s" % (f.qualname, name, bound))
                if bound:
                    continue
                defs = [x.value for x in own_nodes(f.node) if isinstance(x, ast.Assign) and any(isinstance(t, ast.Name) and t.id == name for t in x.targets)]
                defs += [x.value for x in own_nodes(f.node) if isinstance(x, ast.Assign) and isinstance(x.value, ast.Assign)]
                # chained assignment `av = self.cache[k] = expr` binds name too
                for x in own_nodes(f.node):
                    if isinstance(x, ast.Assign) and len(x.targets) > 1 and any(isinstance(t, ast.Name) and t.id == name for t in x.targets):
                        defs.append(x.value)
                stored = [d for d in defs if isinstance(d, (ast.Subscript, ast.Attribute)) and ast.unparse(d).startswith("self.")]
                handler_copies = []
                for x in own_nodes(f.node):
                    if isinstance(x, ast.Assign) and any(isinstance(t, ast.Name) and t.id == name for t in x.targets) and isinstance(x.value, ast.Name):
                        handler_copies.append(x)
                kept = any(isinstance(x, ast.Assign) and any(isinstance(t, ast.Subscript) and ast.unparse(t.value).startswith("self.") for t in x.targets)
                           and isinstance(x.value, ast.Name) and x.value.id == name for x in own_nodes(f.node))
                if stored or kept:
                    run.report(r, "%s:%s:raises-stored-error(%s)" % (mname, f.qualname, name), f.where(n),
                               "`raise %s` re-raises an exception object that is kept in instance state (%s): each time it is recorded "
                               "add_error overwrites its path, so N failures of the same field node yield N errors that all carry the "
                               "last path" % (name, ast.unparse(stored[0]) if stored else "stored in a cache"))

    # ---- K4 strict JSON for the library's own scalars
    r = run.rule("K4", "the Float serialiser rejects non-finite values, or GraphQLResult.json passes allow_nan=False", 1)
    cf = prog.get_func(SCALARS, "coerce_float")
    run.looked_at(cf)
    txt = ast.unparse(cf.node)
    rejects = _rejects_nonfinite(cf)
    js = gr.methods.get("json")
    strict = js is not None and "allow_nan=False" in ast.unparse(js.node)
    r.instance("coerce_float rejects non-finite: %s; json(allow_nan=False): %s" % (rejects, strict))
    if not (rejects or strict):
        run.report(r, "%s:coerce_float:non-finite" % SCALARS, cf.where(),
                   "float('nan')/inf pass Float serialisation and json.dumps writes NaN/Infinity, which is not JSON")

    # ---- K7 error conservation: one response entry per recorded error
    r = run.rule("K7", "errors are conserved from add_error to the response: add_error appends unconditionally, the `errors` "
                       "accessor returns the whole list, and GraphQLResult.response() emits one dictionary per element of "
                       "self.errors (every loop / comprehension over self.errors is unfiltered: no `if`, `continue`, `break`, and "
                       "exactly one append per iteration) — so each nulled position keeps its own error even when messages and "
                       "locations coincide", 3)
    rc = prog.get_class(WRAP, "ResolutionContext")
    ae = rc.find_method("add_error")
    shapes.require(ae is not None, "C10.K7: ResolutionContext.add_error not found")
    run.looked_at(ae)
    from .. import boolx as _bx
    try:
        _ev, _exits = _bx.walk_under(ae.node, lambda t: None)
    except ValueError as e:
        raise AnalysisError("C10.K7: add_error: %s" % e)
    _err = [p for p in ae.params if p != prog.self_name(ae)][0]
    ok = bool(_exits) and all(
        kind != "raise" and sum(1 for c in env.get(_bx.CALLS, ()) if isinstance(c.func, ast.Attribute) and c.func.attr == "append"
                                and ast.unparse(_bx.path_subst(c.func.value, _bx.path_env(env.get(_bx.STMTS, ()))) ) == "self._errors"
                                and c.args and ast.unparse(c.args[0]) == _err) == 1
        for kind, st, env in _exits)
    r.instance("add_error appends the error to self._errors exactly once on each of its %d executions: %s" % (len(_exits), ok))
    if not ok:
        run.report(r, "%s:ResolutionContext.add_error:conditional-append" % WRAP, ae.where(),
                   "add_error does not unconditionally append the error (early return or conditional append): a field error can be dropped")
    from . import c04
    c04.check_add_error(prog, run, r)
    ep = rc.find_method("errors")
    shapes.require(ep is not None, "C10.K7: ResolutionContext.errors not found")
    rets = [n for n in own_nodes(ep.node) if isinstance(n, ast.Return)]
    from ..canon import Canon
    _cn = Canon(ep.node)
    txt = [_cn.text(x.value) for x in rets]
    ok = len(rets) == 1 and txt[0] in ("self._errors[:]", "list(self._errors)", "self._errors", "self._errors.copy()")
    r.instance("errors accessor returns %s" % txt)
    if not ok:
        run.report(r, "%s:ResolutionContext.errors:partial" % WRAP, ep.where(), "the errors accessor returns %s instead of the whole list" % txt)
    resp = gr.methods.get("response")
    shapes.require(resp is not None, "C10.K7: GraphQLResult.response not found")
    run.looked_at(resp)
    loops = 0

    def over_errors(e, depth=0):
        if any(isinstance(n, ast.Attribute) and n.attr == "errors" and isinstance(n.value, ast.Name) and n.value.id == "self" for n in ast.walk(e)):
            return True
        return False
    for n in own_nodes(resp.node):
        if isinstance(n, (ast.ListComp, ast.GeneratorExp, ast.SetComp, ast.DictComp)):
            for g in n.generators:
                if over_errors(g.iter):
                    loops += 1
                    r.instance("response(): comprehension over %s, filters: %d" % (ast.unparse(g.iter), len(g.ifs)))
                    if g.ifs:
                        run.report(r, "%s:GraphQLResult.response:filtered(%s)" % (WRAP, ast.unparse(g.ifs[0])), resp.where(n),
                                   "the response drops errors for which `%s` is false" % ast.unparse(g.ifs[0]))
                    if isinstance(n, (ast.SetComp, ast.DictComp)):
                        run.report(r, "%s:GraphQLResult.response:collapsing-container" % WRAP, resp.where(n),
                                   "errors are collected into a set/dict: equal entries collapse")
        if isinstance(n, ast.For) and over_errors(n.iter):
            loops += 1
            conds = [x for st in n.body for x in ast.walk(st) if isinstance(x, (ast.If, ast.Continue, ast.Break, ast.Try, ast.IfExp))]
            apps = [x for st in n.body for x in ast.walk(st) if isinstance(x, ast.Call) and isinstance(x.func, ast.Attribute) and x.func.attr in ("append", "add")]
            r.instance("response(): for-loop over %s, conditionals: %d, appends: %d" % (ast.unparse(n.iter), len(conds), len(apps)))
            if conds or len(apps) != 1:
                run.report(r, "%s:GraphQLResult.response:conditional-loop" % WRAP, resp.where(n),
                           "the loop over the errors contains %s: some errors are not emitted (an error with the same message and "
                           "location but another path is a different error)" % (norm_stmt(conds[0]) if conds else "%d appends" % len(apps)))
    shapes.require(loops >= 1, "C10.K7: response() no longer iterates over self.errors")
    for n in own_nodes(resp.node):
        if isinstance(n, ast.Call) and isinstance(n.func, ast.Name) and n.func.id in ("set", "deduplicate", "frozenset", "OrderedDict") and n.args and over_errors(n.args[0]):
            run.report(r, "%s:GraphQLResult.response:collapsing-call(%s)" % (WRAP, n.func.id), resp.where(n), "%s(...) over the errors collapses equal entries" % n.func.id)

    # ---- K8 numeric conversions of the specified scalars cannot abort a request (shared with C07.I4)
    from . import c07
    c07.check_numeric_conversions(prog, run, "K8")
    # ---- K9 resolver errors are contained at every nesting depth of deferred results (shared with C08.R13)
    from . import c09
    c09.check_guarded_flatten(prog, run, "K9")
    # ---- K10 every runtime routes ResolverError AND its subclasses to the else_ callback (shared with C08.R2)
    from . import c08
    c08.check_map_value_contract(prog, run, "K10")
    # every null in a non-null position is reported: the check looks at the completed value (shared with C08.R14)
    c08.check_non_null_after_completion(prog, run, "K11")


def _defensive_default(raise_stmt):
    """Is this raise reached only after the operation kind was compared with all of query / mutation / subscription and
    found different?  (path form: on every execution that ends in this raise, the three `<x>.operation == '<kind>'`
    tests were decided false — whatever the shape of the chain)"""
    import re
    from ..model import enclosing_func_node
    fn = enclosing_func_node(raise_stmt)
    if fn is None:
        return False
    try:
        _ev, exits = boolx.walk_under(fn, lambda t: None)
    except ValueError:
        return False
    mine = [(k, st, env) for k, st, env in exits if k == "raise" and st is raise_stmt]
    if not mine:
        return False
    for _k, _st, env in mine:
        false_kinds = set()
        for t, v in env.get(boolx.TESTS, ()):
            m = re.match(r"^[\w.]+\.operation == '(\w+)'$", t)
            if m and v is False:
                false_kinds.add(m.group(1))
        if not false_kinds >= {"query", "mutation", "subscription"}:
            return False
    return True


def _rejects_nonfinite(cf):
    """A raise guarded by a test that is true for NaN and for the infinities:
    math.isfinite/isnan+isinf, x != x, membership in (inf, -inf)."""
    nan = inf = False
    for n in own_nodes(cf.node):
        if isinstance(n, ast.If) and shapes.raises_unconditionally(n.body):
            t = ast.unparse(n.test)
            if "isfinite" in t:
                nan = inf = True
            if "isnan" in t or any(isinstance(x, ast.Compare) and isinstance(x.ops[0], ast.NotEq) and ast.unparse(x.left) == ast.unparse(x.comparators[0]) for x in ast.walk(n.test)):
                nan = True
            if "isinf" in t or ("inf" in t and "-inf" in t):
                inf = True
    return nan and inf
